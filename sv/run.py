#!/venv/bin/python
"""Entry point:  run.py <PROPERTY> --tier quick|thorough [--replay FILE]
                 run.py --selfcheck

exit 0  every obligation of the property discharged on /repo's current source
exit 1  VIOLATION property=<id> replay=<path>   (one line per unlisted violation)
exit 2  ANALYSIS-ERROR ...                      (the analysis itself could not run)
"""
from __future__ import annotations

import argparse
import importlib
import json
import os
import sys
import time
import traceback

HERE = os.path.dirname(os.path.abspath(__file__))
sys.path.insert(0, os.path.dirname(HERE))

from sv.core import Checker, load_known, match_known, write_evidence, write_replay  # noqa: E402
from sv.loader import AnalysisError, Program  # noqa: E402

PIDS = [f"C{i:02d}" for i in range(1, 21)]


def run_property(pid: str, tier: str, repo: str | None = None, write=True, quiet=False):
    """Returns (exit_code, checker, unlisted_violations)."""
    t0 = time.time()
    prog = Program(repo)
    ck = Checker(prog, pid, tier)
    mod = importlib.import_module(f"sv.rules.{pid}")
    try:
        from sv.rules import run_rules

        run_rules(ck, pid)
    except AnalysisError as exc:
        # an anchor vanished part-way: if a structural clause was already found violated that verdict
        # stands (the violation is reported); otherwise the run is analysis-broken (exit 2)
        if not any(not o.ok for o in ck.obs):
            raise
        ck.analysis_note = str(exc)  # type: ignore[attr-defined]
    if not ck.obs:
        raise AnalysisError(f"{pid}: no obligation was generated (rules matched nothing)")
    known = load_known()
    bad = [o for o in ck.obs if not o.ok]
    unlisted = []
    out = []
    for o in bad:
        k = match_known(o, known, pid)
        if k is not None:
            out.append(f"KNOWN-FINDING: property={pid} {k.get('what', o.detail)} [{o.rule} at {o.site}]")
        else:
            unlisted.append(o)
    extra = {}
    if tier == "thorough":
        if hasattr(mod, "thorough"):
            extra = mod.thorough(ck) or {}
            bad2 = [o for o in ck.obs if not o.ok and o not in bad]
            for o in bad2:
                k = match_known(o, known, pid)
                if k is not None:
                    out.append(f"KNOWN-FINDING: property={pid} {k.get('what', o.detail)} [{o.rule} at {o.site}]")
                else:
                    unlisted.append(o)
        if not os.environ.get("SV_NO_SELFTEST"):
            from sv import selftest

            from sv.loader import CONSULTED

            consulted = sorted(prog.modules[m].relpath for m in CONSULTED if m in prog.modules and not prog.modules[m].trusted)
            rep = selftest.run(pid, prog.repo, [o.key for o in ck.obs if not o.ok], consulted=consulted)
            extra["selftest"] = rep
            extra["selftest_rule"] = (
                "every committed breaking variant recorded for this property (/verif/seeded) must add a violation on a scratch copy of the "
                "current tree; every other variant (other properties' breakages, benign refactors under /verif/benign) must add none"
            )
            out.append(
                f"[sv] selftest {pid}: variants={rep['variants']} detected={len(rep['detected'])} missed={len(rep['missed'])} "
                f"silent_ok={rep['silent_ok']} false_alarms={len(rep['false_alarms'])} skipped={len(rep['skipped'])} errors={len(rep['errors'])} "
                f"unrelated={rep.get('unrelated', 0)} (touch none of the {len(consulted)} source files this property's rules read)"
            )
            for m_ in rep["missed"]:
                out.append(f"SELFTEST-NOTE: breaking variant {m_} recorded for {pid} is not reported on this tree")
            for fa in rep["false_alarms"]:
                out.append(f"SELFTEST-NOTE: variant {fa['variant']} ({fa['kind']}) adds {fa['rules']} although it is not recorded as breaking {pid}")
    seed = int(os.environ.get("VERIF_SEED", "0") or 0)
    if getattr(ck, "analysis_note", None):
        out.append(f"[sv] note: analysis stopped early ({ck.analysis_note}); the violations found before that point are reported")
    for o in unlisted:
        path = write_replay(ck, o) if write else "-"
        out.append(f"VIOLATION property={pid} replay={path}")
        out.append(f"  rule={o.rule} site={o.site} function={o.module}:{o.function}")
        out.append(f"  construct: {o.construct[:300]}")
        out.append(f"  reason: {o.detail}")
        for w in o.witness[:40]:
            out.append(f"    | {w}")
    wall = time.time() - t0
    if write:
        write_evidence(ck, wall, seed, len(unlisted), extra)
    if not quiet:
        n_ok = sum(1 for o in ck.obs if o.ok)
        print(
            f"[sv] property={pid} tier={tier} repo={prog.repo} modules={len(prog.modules)} "
            f"functions_analysed={len(ck.funcs_analysed)} obligations={len(ck.obs)} discharged={n_ok} "
            f"rules={len({o.rule for o in ck.obs})} wall={wall:.2f}s"
        )
        for line in out:
            print(line)
        if not unlisted:
            print(f"[sv] {pid}: all {len(ck.obs)} obligations discharged" + (" (known findings listed above)" if bad else ""))
    return (1 if unlisted else 0), ck, unlisted


def replay(pid: str, path: str) -> int:
    with open(path, encoding="utf-8") as f:
        rep = json.load(f)
    code, ck, unlisted = run_property(pid, "quick", write=False, quiet=True)
    for o in ck.obs:
        if o.key == rep.get("key") and not o.ok:
            print(f"VIOLATION property={pid} replay={path}")
            print(f"  still present: rule={o.rule} site={o.site}")
            print(f"  reason: {o.detail}")
            for w in o.witness:
                print(f"    | {w}")
            return 1
    print(f"[sv] replay {path}: the recorded violation is no longer present on the current tree")
    return 0


def selfcheck() -> int:
    """setup_cmd: verify the framework can parse the tree and every rule module imports."""
    prog = Program()
    n = len([m for m in prog.modules.values() if not m.trusted])
    if n < 30:
        raise AnalysisError(f"only {n} modules parsed under {prog.repo}/src/dvc_data")
    for pid in PIDS:
        p = os.path.join(HERE, "rules", f"{pid}.py")
        if os.path.exists(p):
            importlib.import_module(f"sv.rules.{pid}")
    print(f"[sv] selfcheck ok: {n} modules parsed, python {sys.version.split()[0]}")
    return 0


def main() -> int:
    ap = argparse.ArgumentParser()
    ap.add_argument("pid", nargs="?")
    ap.add_argument("--tier", default=os.environ.get("VERIF_TIER", "quick"), choices=["quick", "thorough"])
    ap.add_argument("--replay")
    ap.add_argument("--selfcheck", action="store_true")
    ap.add_argument("--repo")
    args = ap.parse_args()
    try:
        if args.selfcheck:
            return selfcheck()
        if not args.pid:
            ap.error("property id required")
        if args.replay:
            return replay(args.pid, args.replay)
        code, _ck, _ = run_property(args.pid, args.tier, repo=args.repo)
        return code
    except AnalysisError as exc:
        print(f"ANALYSIS-ERROR property={args.pid} {exc}")
        return 2
    except Exception:  # noqa: BLE001
        print(f"ANALYSIS-ERROR property={args.pid} internal error")
        traceback.print_exc()
        return 2


if __name__ == "__main__":
    sys.exit(main())
