#!/venv/bin/python
"""Regenerate sv/baseline_consts.json: the module-level names bound by assignment in every module of the reference
tree.  A module-level literal constant that is NOT in this list is something a later edit introduced ("replace the magic
string by a constant") and is folded back into its uses before the rules look (normalize.inline_new_constants)."""
import ast, json, os, sys
HERE = os.path.dirname(os.path.abspath(__file__))
repo = sys.argv[1] if len(sys.argv) > 1 else "/repo"
root = os.path.join(repo, "src")
out = {}
for dp, dn, fns in os.walk(os.path.join(root, "dvc_data")):
    for f in fns:
        if not f.endswith(".py"):
            continue
        p = os.path.join(dp, f)
        rel = os.path.relpath(p, root)[:-3].replace(os.sep, ".")
        if rel.endswith(".__init__"):
            rel = rel[: -len(".__init__")]
        t = ast.parse(open(p).read())
        names = set()
        for st in ast.walk(t):
            if isinstance(st, (ast.Assign, ast.AnnAssign)):
                for tg in (st.targets if isinstance(st, ast.Assign) else [st.target]):
                    for x in ast.walk(tg):
                        if isinstance(x, ast.Name):
                            names.add(x.id)
        out[rel] = sorted(names)
json.dump(out, open(os.path.join(HERE, "baseline_consts.json"), "w"), indent=0, sort_keys=True)
print(len(out), "modules")
