#!/venv/bin/python
"""Regenerate the seeded-change catch table in DESIGN.md (between the CATCH-TABLE markers) from
/verif/seeded/*/meta.json and the benign summary from /verif/benign/*/meta.json."""
from __future__ import annotations

import json
import os

HERE = os.path.dirname(os.path.abspath(__file__))
VERIF = os.path.dirname(HERE)
BEGIN, END = "<!-- CATCH-TABLE-BEGIN -->", "<!-- CATCH-TABLE-END -->"


def main():
    rows = []
    n = caught = refused = 0
    for sid in sorted(os.listdir(os.path.join(VERIF, "seeded"))):
        mp = os.path.join(VERIF, "seeded", sid, "meta.json")
        if not os.path.exists(mp):
            continue
        m = json.load(open(mp))
        c = m.get("confirmed", {})
        rules = sorted({r for v in c.get("checks_reporting", {}).values() for r in v.get("rules", [])})
        n += 1
        caught += bool(rules)
        if not rules and c.get("checks_reporting"):
            refused += 1
            rules = ["*analysis-error only (exit 2: the check refuses to pass, no clause is named)*"]
        summ = (m.get("summary") or m.get("what") or "").replace("|", "/").replace("\n", " ")
        rows.append(f"| {sid} | {m.get('property', sid.split('-')[0])} | {summ[:150]} | {', '.join(rules) or '**none**'} |")
    bn = ba = 0
    alarms = []
    for bid in sorted(os.listdir(os.path.join(VERIF, "benign"))):
        mp = os.path.join(VERIF, "benign", bid, "meta.json")
        if not os.path.exists(mp):
            continue
        c = json.load(open(mp)).get("confirmed", {})
        bn += 1
        if c.get("alarms"):
            ba += 1
            alarms.append(f"{bid} ({', '.join(sorted(r for v in c['alarms'].values() for r in (v.get('rules') or ['analysis-error'])))})")
    text = [BEGIN, "", f"{n} confirmed breaking changes, {caught} reported as a named violation by at least one check" + (f", {refused} more only as ANALYSIS-ERROR (exit 2)" if refused else "") + f"; {bn} behaviour-preserving refactorings, {ba} with an alarm" + (": " + "; ".join(alarms) if alarms else "") + ".", "",
            "| id | property | change (one line) | reported by |", "|---|---|---|---|"] + rows + ["", END]
    p = os.path.join(VERIF, "DESIGN.md")
    s = open(p).read()
    if BEGIN in s and END in s:
        s = s[: s.index(BEGIN)] + "\n".join(text) + s[s.index(END) + len(END):]
    else:
        raise SystemExit("markers missing in DESIGN.md")
    open(p, "w").write(s)
    print(f"catch table: {n} seeded ({caught} caught), {bn} benign ({ba} alarms)")


if __name__ == "__main__":
    main()
