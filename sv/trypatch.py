#!/venv/bin/python
"""Development helper: apply a patch to a scratch copy of /repo/src and run checks on it.

    trypatch.py <patch.diff> C05 [C07 ...]     # or 'all'

Never touches /repo.  The scratch copy lives in a mkdtemp dir and is removed.
"""
from __future__ import annotations

import os
import shutil
import subprocess
import sys
import tempfile

HERE = os.path.dirname(os.path.abspath(__file__))
PIDS = [f"C{i:02d}" for i in range(1, 21)]


def run_on_scratch(patch: str | None, pids, repo="/repo", verbose=True):
    tmp = tempfile.mkdtemp(prefix="svscratch-")
    try:
        shutil.copytree(os.path.join(repo, "src"), os.path.join(tmp, "src"))
        if patch:
            r = subprocess.run(["patch", "-p1", "-s", "-d", tmp, "-i", os.path.abspath(patch)], capture_output=True, text=True)
            if r.returncode != 0:
                return {"_apply": (99, r.stdout + r.stderr)}
        res = {}
        env = dict(os.environ, SV_EVIDENCE_DIR=os.path.join(tmp, "ev"), SV_OUT_DIR=os.path.join(tmp, "out"))
        for pid in pids:
            if not os.path.exists(os.path.join(HERE, "rules", f"{pid}.py")):
                continue
            r = subprocess.run(
                [sys.executable, os.path.join(HERE, "run.py"), pid, "--repo", tmp], capture_output=True, text=True, env=env
            )
            res[pid] = (r.returncode, r.stdout + r.stderr)
        return res
    finally:
        shutil.rmtree(tmp, ignore_errors=True)


def main():
    patch = sys.argv[1]
    pids = sys.argv[2:] or ["all"]
    if pids == ["all"]:
        pids = PIDS
    if patch in ("-", "none"):
        patch = None
    res = run_on_scratch(patch, pids)
    for pid, (code, out) in res.items():
        print(f"=== {pid}: exit {code}")
        if code != 0:
            print(out.replace(os.sep + "tmp", "/tmp")[:3000])


if __name__ == "__main__":
    main()
