"""Provenance: local definitions, alias expansion, call resolution, parameter origins."""
from __future__ import annotations

import ast
import copy
import itertools
from dataclasses import dataclass
from typing import Dict, Iterator, List, Optional, Sequence, Set, Tuple, Union

from .loader import ClassInfo, Func, Module, Program, norm, parent, walk_expr, walk_own

ELEM = "__elem__"  # __elem__(iterable): an element drawn from iterable
ITEM = "__item__"  # __item__(value, i): i-th component of an unpacked value
CTX = "__enter__"  # __enter__(cm): value bound by `with cm as x`
EXC = "__exc__"  # __exc__(type): value bound by `except T as x`
AUG = "__aug__"  # __aug__(old, op, value)


@dataclass
class Def:
    kind: str  # assign | for | with | aug | param | comp | except | import | def | walrus
    name: str
    value: Optional[ast.expr]  # expression whose value is bound (already wrapped with ELEM/ITEM)
    node: ast.AST  # defining statement / comprehension


def _mk_call(fname: str, *args: ast.expr) -> ast.Call:
    c = ast.Call(func=ast.Name(id=fname, ctx=ast.Load()), args=list(args), keywords=[])
    return c


def _const(v) -> ast.Constant:
    return ast.Constant(value=v)


def _bind_target(target: ast.expr, value: ast.expr, node: ast.AST, kind: str, out: List[Def]) -> None:
    if isinstance(target, ast.Name):
        out.append(Def(kind, target.id, value, node))
    elif isinstance(target, (ast.Tuple, ast.List)):
        # direct tuple-to-tuple assignment keeps components
        if isinstance(value, (ast.Tuple, ast.List)) and len(value.elts) == len(target.elts) and not any(
            isinstance(e, ast.Starred) for e in list(value.elts) + list(target.elts)
        ):
            for t, v in zip(target.elts, value.elts):
                _bind_target(t, v, node, kind, out)
            return
        for i, t in enumerate(target.elts):
            if isinstance(t, ast.Starred):
                _bind_target(t.value, _mk_call(ITEM, value, _const(f"*{i}")), node, kind, out)
            else:
                _bind_target(t, _mk_call(ITEM, value, _const(i)), node, kind, out)
    # attribute / subscript targets are not local names


class Scope:
    """Definitions of local names in one function body (flow-insensitive)."""

    def __init__(self, fn: Func):
        self.fn = fn
        self.defs: Dict[str, List[Def]] = {}
        node = fn.node
        a = node.args
        for p in a.posonlyargs + a.args + a.kwonlyargs + ([a.vararg] if a.vararg else []) + ([a.kwarg] if a.kwarg else []):
            self._add(Def("param", p.arg, None, p))
        body_iter = walk_own(node) if isinstance(node.body, list) else walk_expr(node.body)
        for n in body_iter:
            out: List[Def] = []
            if isinstance(n, ast.Assign):
                for t in n.targets:
                    _bind_target(t, n.value, n, "assign", out)
            elif isinstance(n, ast.AnnAssign) and n.value is not None:
                _bind_target(n.target, n.value, n, "assign", out)
            elif isinstance(n, ast.AugAssign) and isinstance(n.target, ast.Name):
                out.append(Def("aug", n.target.id, n.value, n))
            elif isinstance(n, (ast.For, ast.AsyncFor)):
                _bind_target(n.target, _mk_call(ELEM, n.iter), n, "for", out)
            elif isinstance(n, (ast.With, ast.AsyncWith)):
                for it in n.items:
                    if it.optional_vars is not None:
                        _bind_target(it.optional_vars, _mk_call(CTX, it.context_expr), n, "with", out)
            elif isinstance(n, ast.NamedExpr):
                _bind_target(n.target, n.value, n, "walrus", out)
            elif isinstance(n, ast.ExceptHandler) and n.name:
                out.append(Def("except", n.name, _mk_call(EXC, n.type) if n.type is not None else None, n))
            elif isinstance(n, (ast.FunctionDef, ast.AsyncFunctionDef, ast.ClassDef)):
                out.append(Def("def", n.name, None, n))
            elif isinstance(n, (ast.Import, ast.ImportFrom)):
                for al in n.names:
                    out.append(Def("import", al.asname or al.name.split(".")[0], None, n))
            for d in out:
                self._add(d)

    def _add(self, d: Def) -> None:
        self.defs.setdefault(d.name, []).append(d)

    def get(self, name: str) -> List[Def]:
        return self.defs.get(name, [])


def scope_of(fn: Func) -> Scope:
    sc = getattr(fn.node, "_sv_scope", None)
    if sc is None:
        sc = Scope(fn)
        fn.node._sv_scope = sc  # cached on the AST node itself (ids may be recycled)
    return sc


def comp_defs(name_node: ast.Name) -> Optional[Def]:
    """If name_node is bound by an enclosing comprehension generator, return that def."""
    p = parent(name_node)
    child = name_node
    while p is not None and not isinstance(p, (ast.FunctionDef, ast.AsyncFunctionDef, ast.Lambda, ast.Module)):
        if isinstance(p, (ast.ListComp, ast.SetComp, ast.GeneratorExp, ast.DictComp)):
            for g in p.generators:
                out: List[Def] = []
                _bind_target(g.target, _mk_call(ELEM, g.iter), p, "comp", out)
                for d in out:
                    if d.name == name_node.id:
                        # the generator's own iter expression is evaluated outside for the first generator
                        return d
        child = p
        p = parent(p)
    if isinstance(p, ast.Lambda):
        a = p.args
        for q in a.posonlyargs + a.args + a.kwonlyargs:
            if q.arg == name_node.id:
                return Def("param", q.arg, None, q)
    return None


_ACC_CTORS = {"list", "set", "dict", "deque", "defaultdict", "OrderedDict", "Counter"}


def is_empty_container(v: Optional[ast.expr]) -> bool:
    if isinstance(v, (ast.List, ast.Set, ast.Tuple)) and not v.elts:
        return True
    if isinstance(v, ast.Dict) and not v.keys:
        return True
    if isinstance(v, ast.Call) and isinstance(v.func, ast.Name) and v.func.id in _ACC_CTORS:
        return not v.args or v.func.id == "defaultdict"
    return False


def is_accumulator(fn: Func, name: str) -> bool:
    """A local that starts as an empty container and is filled by mutation: its identity,
    not its initial value, is what matters, so alias expansion stops at its name."""
    defs = [d for d in scope_of(fn).get(name) if d.kind != "aug"]
    return bool(defs) and all(d.kind == "assign" and is_empty_container(d.value) for d in defs)


class Expander:
    """Expand local aliases in an expression into alternatives of 'origin' expressions.

    Names that are parameters, free variables, globals or multiply/complexly
    defined locals are left in place.  for/unpack bindings are represented with
    the __elem__/__item__ marker calls.
    """

    def __init__(self, prog: Program, fn: Func, max_alts: int = 24, max_depth: int = 6):
        self.prog = prog
        self.fn = fn
        self.scope = scope_of(fn)
        self.max_alts = max_alts
        self.max_depth = max_depth

    def name_defs(self, n: ast.Name) -> List[Def]:
        cd = comp_defs(n)
        if cd is not None:
            return [cd]
        return self.scope.get(n.id)

    def expand(self, e: ast.expr, depth: int = 0, _seen: Optional[frozenset] = None) -> List[ast.expr]:
        seen = _seen or frozenset()
        if depth > self.max_depth:
            return [e]
        if isinstance(e, ast.Name) and isinstance(e.ctx, ast.Load):
            defs = self.name_defs(e)
            vals = [d for d in defs if d.kind in ("assign", "for", "with", "comp", "walrus") and d.value is not None]
            others = [d for d in defs if d not in vals]
            if not vals or e.id in seen:
                return [e]
            if cd_is_none(self, e) and is_accumulator(self.fn, e.id):
                return [e]
            alts: List[ast.expr] = []
            for d in vals:
                alts += self.expand(d.value, depth + 1, seen | {e.id})
            if any(d.kind in ("param", "aug") for d in others):
                alts.append(e)
            return self._dedup(alts)[: self.max_alts]
        # structural recursion over children that are expressions
        fields = []
        for fname, val in ast.iter_fields(e):
            if isinstance(val, ast.expr):
                fields.append((fname, None, self.expand(val, depth, seen)))
            elif isinstance(val, list) and val and all(isinstance(x, ast.AST) for x in val):
                for i, x in enumerate(val):
                    if isinstance(x, ast.expr):
                        fields.append((fname, i, self.expand(x, depth, seen)))
                    elif isinstance(x, ast.keyword):
                        fields.append((fname, (i, "kw"), self.expand(x.value, depth, seen)))
        if not fields or isinstance(e, (ast.Lambda, ast.ListComp, ast.SetComp, ast.GeneratorExp, ast.DictComp)):
            return [e]
        if all(len(a) == 1 and a[0] is orig for (_f, _i, a), orig in zip(fields, self._orig_children(e))):
            return [e]
        combos = itertools.islice(itertools.product(*[a for _f, _i, a in fields]), self.max_alts)
        out = []
        for combo in combos:
            new = copy.copy(e)
            new.__dict__.pop("_sv_norm", None)
            for fname, val in ast.iter_fields(e):
                if isinstance(val, list):
                    setattr(new, fname, list(val))
            for (fname, idx, _a), v in zip(fields, combo):
                if idx is None:
                    setattr(new, fname, v)
                elif isinstance(idx, tuple):
                    kw = copy.copy(getattr(new, fname)[idx[0]])
                    kw.__dict__.pop("_sv_norm", None)
                    kw.value = v
                    getattr(new, fname)[idx[0]] = kw
                else:
                    getattr(new, fname)[idx] = v
            out.append(new)
        return self._dedup(out)

    @staticmethod
    def _orig_children(e):
        for _fname, val in ast.iter_fields(e):
            if isinstance(val, ast.expr):
                yield val
            elif isinstance(val, list) and val and all(isinstance(x, ast.AST) for x in val):
                for x in val:
                    if isinstance(x, ast.expr):
                        yield x
                    elif isinstance(x, ast.keyword):
                        yield x.value

    @staticmethod
    def _dedup(xs: List[ast.expr]) -> List[ast.expr]:
        seen, out = set(), []
        for x in xs:
            k = norm(x)
            if k not in seen:
                seen.add(k)
                out.append(x)
        return out


def cd_is_none(ex: "Expander", n: ast.Name) -> bool:
    return comp_defs(n) is None


def refers_to_call(fn: Func, e: ast.expr, calls, depth: int = 3) -> bool:
    """Is the value of `e` (one of) the given Call nodes - directly, as a sub-expression, or
    through local names assigned from them?  Identity-based (no text comparison)."""
    ids = {id(c) for c in calls}
    for x in walk_expr(e):
        if id(x) in ids:
            return True
    if depth <= 0:
        return False
    for x in walk_expr(e):
        if isinstance(x, ast.Name) and isinstance(x.ctx, ast.Load) and comp_defs(x) is None:
            for d in scope_of(fn).get(x.id):
                if d.kind in ("assign", "walrus") and d.value is not None and refers_to_call(fn, d.value, calls, depth - 1):
                    return True
    return False


def expand(prog: Program, fn: Func, e: ast.expr, **kw) -> List[ast.expr]:
    return Expander(prog, fn, **kw).expand(e)


def expand1(prog: Program, fn: Func, e: ast.expr, levels: int = 1) -> List[ast.expr]:
    """Alias expansion limited to `levels` steps (1 = replace each local name by its definition once).
    Always includes the original expression."""
    out = [e]
    for lv in range(levels):
        out += Expander(prog, fn, max_depth=lv).expand(e)
    return Expander._dedup(out)


def expand_txt(prog: Program, fn: Func, e: ast.expr) -> List[str]:
    return [norm(x) for x in expand(prog, fn, e)]


# --------------------------------------------------------------------------
# small matchers on expressions
# --------------------------------------------------------------------------


def attr_chain(e: ast.expr) -> Optional[List[str]]:
    """a.b.c -> ['a','b','c'];  None when the base is not a plain name."""
    out = []
    while isinstance(e, ast.Attribute):
        out.append(e.attr)
        e = e.value
    if isinstance(e, ast.Name):
        out.append(e.id)
        return list(reversed(out))
    return None


def attr_tail(e: ast.expr) -> List[str]:
    """Trailing attribute names regardless of the base:  f(x).old.in_cache -> ['old','in_cache']."""
    out = []
    while isinstance(e, ast.Attribute):
        out.append(e.attr)
        e = e.value
    if isinstance(e, ast.Name):
        out.append(e.id)
    return list(reversed(out))


def ends_with_attrs(e: ast.expr, *attrs: str) -> bool:
    t = []
    while isinstance(e, ast.Attribute):
        t.append(e.attr)
        e = e.value
    t.reverse()
    return len(t) >= len(attrs) and t[-len(attrs):] == list(attrs)


def call_name(c: ast.Call) -> Optional[str]:
    if isinstance(c.func, ast.Name):
        return c.func.id
    if isinstance(c.func, ast.Attribute):
        return c.func.attr
    return None


def call_recv(c: ast.Call) -> Optional[ast.expr]:
    return c.func.value if isinstance(c.func, ast.Attribute) else None


def is_marker(e: ast.AST, name: str) -> bool:
    return isinstance(e, ast.Call) and isinstance(e.func, ast.Name) and e.func.id == name


def names_in(e: ast.AST) -> Set[str]:
    return {n.id for n in walk_expr(e) if isinstance(n, ast.Name)}


def mentions(e: ast.AST, text: str) -> bool:
    """Does some sub-expression of e unparse exactly to `text`?"""
    for n in walk_expr(e):
        if isinstance(n, ast.expr):
            try:
                if norm(n) == text:
                    return True
            except Exception:  # noqa: BLE001
                pass
    return False


def subexprs(e: ast.AST) -> Iterator[ast.expr]:
    for n in walk_expr(e):
        if isinstance(n, ast.expr):
            yield n


def get_arg(call: ast.Call, callee: Optional[Func], pname: str, pos: Optional[int] = None) -> Optional[ast.expr]:
    """Argument expression bound to parameter `pname` at this call (None if absent)."""
    for k in call.keywords:
        if k.arg == pname:
            return k.value
    idx = pos
    if callee is not None:
        pp = callee.pos_params
        off = 0
        if callee.is_method and pp and pp[0] in ("self", "cls") and isinstance(call.func, ast.Attribute):
            off = 1
        elif callee.is_method and pp and pp[0] in ("self", "cls") and isinstance(call.func, ast.Name):
            # class constructor call  C(...) -> __init__(self, ...)
            off = 1
        if pname in pp:
            idx = pp.index(pname) - off
    if idx is None or idx < 0:
        return None
    if any(isinstance(a, ast.Starred) for a in call.args[: idx + 1]):
        return None
    if idx < len(call.args):
        return call.args[idx]
    return None


# --------------------------------------------------------------------------
# call resolution
# --------------------------------------------------------------------------


class Resolver:
    def __init__(self, prog: Program):
        self.prog = prog
        self._by_method: Dict[str, List[Func]] = {}
        for f in prog.all_funcs(include_trusted=True):
            if f.is_method:
                self._by_method.setdefault(f.name, []).append(f)
        self._callers: Optional[Dict[str, List[Tuple[Func, ast.Call]]]] = None

    def enclosing_class(self, fn: Func) -> Optional[ClassInfo]:
        f = fn
        while f is not None:
            if f.cls is not None:
                return f.cls
            f = f.parent
        return None

    def recv_classes(self, fn: Func, recv: ast.expr) -> List[ClassInfo]:
        """Best-effort static class(es) of a receiver expression."""
        prog = self.prog
        if isinstance(recv, ast.Name):
            if recv.id in ("self", "cls"):
                c = self.enclosing_class(fn)
                return [c] if c else []
            # annotated parameter (search enclosing functions too)
            f = fn
            while f is not None:
                if f.has_param(recv.id):
                    ann = f.param_annotation(recv.id)
                    if ann:
                        c = prog.resolve_class(f, ann)
                        return [c] if c else []
                    return []
                f = f.parent
            ent = prog.lookup_name(fn, recv.id)
            if isinstance(ent, ClassInfo):
                return [ent]
            # local x = ClassName(...)
            for d in scope_of(fn).get(recv.id):
                if d.kind == "assign" and isinstance(d.value, ast.Call):
                    cn = d.value.func
                    if isinstance(cn, ast.Name):
                        ent = prog.lookup_name(fn, cn.id)
                        if isinstance(ent, ClassInfo):
                            return [ent]
                    if isinstance(cn, ast.Attribute) and isinstance(cn.value, ast.Name):
                        ent = prog.lookup_name(fn, cn.value.id)
                        if isinstance(ent, ClassInfo) and cn.attr in ("load", "from_list", "from_trie", "open", "from_dict"):
                            return [ent]
            return []
        if isinstance(recv, ast.Call) and isinstance(recv.func, ast.Name) and recv.func.id == "super":
            c = self.enclosing_class(fn)
            if c:
                m = prog.mro(c)
                return m[1:2] if len(m) > 1 else []
        return []

    def resolve(self, fn: Func, call: ast.Call) -> List[Func]:
        prog = self.prog
        f = call.func
        if isinstance(f, ast.Name):
            ent = prog.lookup_name(fn, f.id)
            if isinstance(ent, Func):
                return [ent]
            if isinstance(ent, ClassInfo):
                m = prog.find_method(ent, "__init__")
                return [m] if m else []
            # calling an instance:  link(...)  with  link: "Link"  ->  Link.__call__
            out0 = []
            for c in self.recv_classes(fn, f):
                m = prog.find_method(c, "__call__")
                if m:
                    out0.append(m)
            return out0
        if isinstance(f, ast.Attribute):
            recv = f.value
            if isinstance(recv, ast.Call) and isinstance(recv.func, ast.Name) and recv.func.id == "super":
                c = self.enclosing_class(fn)
                if c:
                    m = prog.find_method(c, f.attr, skip_self=True)
                    return [m] if m else []
                return []
            classes = self.recv_classes(fn, recv)
            if classes:
                out: List[Func] = []
                for c in classes:
                    m = prog.find_method(c, f.attr)
                    if m:
                        out.append(m)
                    is_cls_ref = isinstance(recv, ast.Name) and isinstance(prog.lookup_name(fn, recv.id), ClassInfo)
                    if not is_cls_ref:
                        for sc in prog.subclasses(c):
                            if f.attr in sc.methods:
                                out.append(sc.methods[f.attr])
                if out:
                    return _uniq(out)
            if isinstance(recv, ast.Name):
                ent = prog.lookup_name(fn, recv.id)
                if isinstance(ent, Module):
                    e2 = prog.resolve_import((ent.name, f.attr))
                    if isinstance(e2, Func):
                        return [e2]
                    return []
        return []

    def resolve_loose(self, fn: Func, call: ast.Call) -> List[Func]:
        """resolve(), falling back to 'all repository methods of that name'."""
        r = self.resolve(fn, call)
        if r:
            return r
        if isinstance(call.func, ast.Attribute):
            cands = [m for m in self._by_method.get(call.func.attr, []) if not m.module.trusted]
            return cands
        return []

    # ---------------------------------------------------------- call graph
    def callers(self) -> Dict[str, List[Tuple[Func, ast.Call]]]:
        if self._callers is None:
            cg: Dict[str, List[Tuple[Func, ast.Call]]] = {}
            for fn in self.prog.all_funcs():
                body = fn.node.body if isinstance(fn.node.body, list) else [fn.node.body]
                for n in walk_own(fn.node) if isinstance(fn.node.body, list) else walk_expr(fn.node.body):
                    if isinstance(n, ast.Call):
                        for callee in self.resolve(fn, n):
                            cg.setdefault(callee.fq, []).append((fn, n))
            self._callers = cg
        return self._callers

    def call_sites_of(self, callee: Func) -> List[Tuple[Func, ast.Call]]:
        return self.callers().get(callee.fq, [])

    def calls_in(self, fn: Func) -> List[Tuple[ast.Call, List[Func]]]:
        out = []
        it = walk_own(fn.node) if isinstance(fn.node.body, list) else walk_expr(fn.node.body)
        for n in it:
            if isinstance(n, ast.Call):
                out.append((n, self.resolve(fn, n)))
        return out

    def reachable_funcs(self, roots: Sequence[Func], within=None, include_nested=True) -> List[Func]:
        """Functions reachable from roots through resolved calls (and nested defs)."""
        seen: Dict[str, Func] = {}
        todo = list(roots)
        while todo:
            f = todo.pop()
            if f.fq in seen:
                continue
            if within is not None and not within(f):
                continue
            seen[f.fq] = f
            for _c, callees in self.calls_in(f):
                todo.extend(callees)
            if include_nested:
                todo.extend(f.children.values())
        return list(seen.values())

    # ---------------------------------------------------- parameter origins
    def param_origins(self, fn: Func, pname: str, depth: int = 6, _seen=None, roots=()) -> List[Tuple[Func, ast.expr]]:
        """Where does parameter `pname` of fn come from?  Follows call sites upwards,
        through parameters that are forwarded unchanged.  Returns (function, expr)
        pairs: the expr is evaluated in that function; a bare ast.Name equal to a
        parameter of a function without callers is a root."""
        seen = _seen if _seen is not None else set()
        key = (fn.fq, pname)
        if key in seen or depth < 0:
            return []
        seen.add(key)
        sites = self.call_sites_of(fn)
        # the command-line front end is outside every rule's scope
        sites = [(c, k) for c, k in sites if c.module.name != "dvc_data.cli"]
        out: List[Tuple[Func, ast.expr]] = []
        if not sites or fn.fq in roots:
            return [(fn, ast.Name(id=pname, ctx=ast.Load()))]
        for caller, call in sites:
            arg = get_arg(call, fn, pname)
            if arg is None:
                # maybe forwarded via **kwargs, or default
                d = fn.param_default(pname)
                if any(k.arg is None for k in call.keywords):
                    out.append((caller, ast.Name(id="**kwargs", ctx=ast.Load())))
                elif d is not None:
                    out.append((fn, d))
                continue
            for alt in expand(self.prog, caller, arg):
                if isinstance(alt, ast.Name) and caller.has_param(alt.id) and not [
                    d for d in scope_of(caller).get(alt.id) if d.kind != "param"
                ]:
                    out += self.param_origins(caller, alt.id, depth - 1, seen, roots)
                else:
                    out.append((caller, alt))
        return out


def _uniq(xs):
    seen, out = set(), []
    for x in xs:
        if x.fq not in seen:
            seen.add(x.fq)
            out.append(x)
    return out


def alias_names(fn: Func, name: str) -> Set[str]:
    """Names connected to `name` by plain `a = b` assignments in fn (flow-insensitive)."""
    sc = scope_of(fn)
    out = {name}
    changed = True
    while changed:
        changed = False
        for nm, defs in sc.defs.items():
            for d in defs:
                if d.kind == "assign" and isinstance(d.value, ast.Name):
                    if nm in out and d.value.id not in out:
                        out.add(d.value.id)
                        changed = True
                    if d.value.id in out and nm not in out:
                        out.add(nm)
                        changed = True
    return out
