#!/venv/bin/python
"""collect_seeded.py <root> <dirprefix> <tag>:  copy <root>/<dirprefix>NN/_out/m<i>.{diff,_demo.py,_meta.json}
into /verif/seeded/CNN-<tag><i>/ (patch.diff, demo.py, meta.json)."""
import glob, json, os, shutil, sys
root, prefix, tag = sys.argv[1:4]
n = 0
for d in sorted(glob.glob(os.path.join(root, prefix + "*"))):
    pid = "C" + os.path.basename(d)[len(prefix):]
    for diff in sorted(glob.glob(os.path.join(d, "_out", "m*.diff"))):
        i = os.path.basename(diff)[1:-5]
        demo = os.path.join(d, "_out", f"m{i}_demo.py")
        meta = os.path.join(d, "_out", f"m{i}_meta.json")
        if not (os.path.exists(demo) and os.path.exists(meta)) or os.path.getsize(diff) == 0:
            continue
        dest = os.path.join("/verif/seeded", f"{pid}-{tag}{i}")
        if os.path.exists(os.path.join(dest, "patch.diff")):
            continue
        os.makedirs(dest, exist_ok=True)
        shutil.copy(diff, os.path.join(dest, "patch.diff"))
        shutil.copy(demo, os.path.join(dest, "demo.py"))
        try:
            m = json.load(open(meta))
        except Exception:
            m = {"property": pid, "summary": "(meta unreadable)"}
        m.setdefault("property", pid)
        json.dump(m, open(os.path.join(dest, "meta.json"), "w"), indent=1)
        n += 1
print("collected", n)
