"""C07 - Corrupted objects are detected and dropped, never served; intact ones unharmed."""
from __future__ import annotations

import ast
from typing import List, Optional, Tuple

from ..an import avoiding_path, cut, flows_from_calls, is_method_call, value_alts
from ..cfg import calls_at
from ..core import Checker
from ..effects import destructive_kind
from ..loader import AnalysisError, Func, norm, walk_expr, walk_own
from ..prov import ELEM, ITEM, call_name, expand, get_arg, is_marker, refers_to_call, scope_of

ALLOWED_SWALLOW = {"ObjectFormatError", "FileNotFoundError"}


def strip_norm(e: ast.expr) -> Tuple[ast.expr, bool]:
    """x.split('.')[0] -> (x, True)."""
    if isinstance(e, ast.Subscript) and isinstance(e.value, ast.Call) and is_method_call(e.value, "split", "rsplit", "partition"):
        return e.value.func.value, True
    return e, False


def handler_types(h: ast.ExceptHandler) -> List[str]:
    t = h.type
    if t is None:
        return ["<bare>"]
    if isinstance(t, ast.Tuple):
        return [norm(x).split(".")[-1] for x in t.elts]
    return [norm(t).split(".")[-1]]


def const_int(ck: Checker, cls, name: str) -> Optional[int]:
    v = ck.prog.class_const(cls, name)
    if isinstance(v, ast.Constant) and isinstance(v.value, int):
        return v.value
    return None


def check(ck: Checker) -> None:
    ck.decided = [
        "C07.check: HashFileDB.check compares hash_file(self.get(oid).path) with oid symmetrically; the mismatch edge always deletes the object and raises; the match edge protects before returning",
        "C07.localtrust: LocalHashFileDB.check trusts without hashing only across an equality between the file's permission bits and the read-only CACHE_MODE; otherwise it delegates to the hashing check with the same oid",
        "C07.exists: LocalHashFileDB.oids_exist reports an oid only after check(oid) returned normally in the same iteration",
        "C07.verify: HashFileDB.add with verify checks each object (hash on) before protecting it, per object, swallowing only ObjectFormatError/FileNotFoundError",
        "C07.checkout: checkout's view of the cache is cache.check() with an un-shared memo; a missing source at link time becomes CheckoutError",
    ]
    ck.not_decided = ["a stale state row that still matches (inode, mtime, size) after tampering (C13)", "that hash_file reads the whole file", "hash values"]
    ck.trusted = ["hash_file returns the digest of the file at the given path", "os.chmod/stat semantics"]
    _check_base(ck)
    _check_local(ck)
    _check_exists(ck)
    _check_verify(ck, "C07.verify")
    check_fetch_verify(ck, "C07.verify")
    _check_checkout(ck)
    from . import round4 as _r4

    _r4.post_copy_covers_all(ck, "C07.verify")
    _r4.check_removal_strict(ck, "C07.check")
    from . import round7 as _r7

    _r7.protect_always_chmods(ck, "C07.localtrust")
    from . import round5 as _r5

    _r5.local_add_rechecks_unprotected(ck, "C07.localtrust")
    _r7.exists_missing_only_by_check(ck, "C07.exists")
    _r7.failed_copy_never_trusted(ck, "C07.verify")
    from . import round8 as _r8

    _r8.post_copy_loop_always_runs(ck, "C07.verify")



def _check_base(ck: Checker, rule: str = "C07.check") -> None:
    prog = ck.prog
    fn = prog.func("hashfile.db", "HashFileDB.check")
    g = ck.cfg(fn)
    hcalls = [(n, c) for n in g.nodes.values() for c in calls_at(n) if call_name(c) == "hash_file"]
    ck.floor(rule, len(hcalls), 1, "hash_file calls in HashFileDB.check")
    hn, hc = hcalls[0]
    # hashed path/fs belong to self.get(oid); algorithm is the store's
    a_path = get_arg(hc, None, "path", pos=0)
    a_name = get_arg(hc, None, "name", pos=2)
    okp = any(norm(alt) == "self.get(oid).path" for alt in expand(prog, fn, a_path)) if a_path is not None else False
    ck.require(okp, rule, fn, hn, "re-hashes the file of the object named oid (self.get(oid).path)",
               f"the re-hashed path ({norm(a_path) if a_path is not None else '?'}) is not the path of the object named by `oid`", construct="hash_file(...) / path")
    ck.require(a_name is not None and norm(a_name) == "self.hash_name", rule, fn, hn, "hashes with the store's algorithm",
               "the integrity check does not hash with the store's own algorithm", construct="hash_file(...) / algorithm")

    # the comparison (operands resolved through local aliases, flow-sensitively)
    def side_info(t, e):
        kind, nrm_any = None, False
        for alt in value_alts(g, t, e, depth=3):
            base, nrm = strip_norm(alt)
            nrm_any = nrm_any or nrm
            for b2 in value_alts(g, t, base, depth=3):
                b3, nrm2 = strip_norm(b2)
                nrm_any = nrm_any or nrm2
                if norm(b3) == "oid" and fn.has_param("oid"):
                    kind = kind or "oid"
                elif flows_from_calls(g, t, b3, [hc]):
                    kind = kind or "actual"
        return kind, nrm_any

    cmps = []
    for t in g.nodes.values():
        e = t.ast
        if t.kind == "test" and isinstance(e, ast.Compare) and len(e.ops) == 1 and isinstance(e.ops[0], (ast.Eq, ast.NotEq)):
            (k1, ln), (k2, rn) = side_info(t, e.left), side_info(t, e.comparators[0])
            if {k1, k2} == {"oid", "actual"}:
                cmps.append((t, ln, rn, isinstance(e.ops[0], ast.NotEq)))
    if not cmps:
        ck.fail(rule, fn, hn, "no comparison between the recomputed hash and the requested oid was found")
        return
    t, ln, rn, noteq = cmps[0]
    ck.require(ln and rn, rule, fn, t, "both operands have the '.dir' suffix neutralised",
               "recomputed hash and oid are compared without neutralising the '.dir' suffix on both sides: a directory object's oid carries '.dir' (and so does a state-cached hash) while a fresh digest does not, so intact directory objects are declared corrupt and deleted",
               construct=f"{t.text()} / suffix-neutral") if (ln == rn) else None
    ck.require(ln == rn, rule, fn, t, "both operands are normalised the same way",
               "recomputed hash and oid are normalised asymmetrically (e.g. '.dir' suffix stripped on one side only): intact directory objects mismatch",
               construct=f"{t.text()} / symmetric")
    mismatch_lab = "T" if noteq else "F"
    match_lab = "F" if noteq else "T"
    mis = [d for lab, d in t.succ if lab == mismatch_lab]
    mat = [d for lab, d in t.succ if lab == match_lab]
    rm_nodes = set()
    for n in g.nodes.values():
        for c in calls_at(n):
            if destructive_kind(prog, fn, c) and c.args and any(norm(a) in ("self.get(oid).path", "self.oid_to_path(oid)") for a in expand(prog, fn, c.args[0])):
                rm_nodes.add(n.id)
    # mismatch: always deleted, always raises
    r1 = g.reach(mis, skip_node=lambda n: n.id in rm_nodes, skip_edge=lambda a, l, b: a.id in rm_nodes)
    esc = [x for x in (g.exit, g.raise_exit) if x in r1]
    ck.require(bool(rm_nodes) and not esc, rule, fn, t,
               "on mismatch the object file is removed on every path",
               "a mismatching object can leave check() without having been deleted",
               witness=g.fmt_path(g.path_to(r1, esc[0])) if esc else None, construct=f"{t.text()} / mismatch deletes")
    r2 = g.reach(mis, skip_edge=lambda a, l, b: False)
    ck.require(g.exit not in r2, rule, fn, t,
               "on mismatch check() never returns normally (raises ObjectFormatError)",
               "a mismatching object can be reported as valid: the mismatch edge reaches a normal return",
               witness=g.fmt_path(g.path_to(r2, g.exit)) if g.exit in r2 else None, construct=f"{t.text()} / mismatch raises")
    raised = [n for n in g.nodes.values() if n.id in r2 and n.kind == "stmt" and isinstance(n.ast, ast.Raise) and n.ast.exc is not None]
    ck.require(any("ObjectFormatError" in norm(a) for n in raised for a in value_alts(g, n, n.ast.exc)), rule, fn, t,
               "mismatch raises ObjectFormatError", "mismatch does not raise ObjectFormatError (callers swallow exactly that type)", construct=f"{t.text()} / exception type")
    # match: protect precedes return; intact object is never deleted
    prot = {n.id for n in g.nodes.values() for c in calls_at(n) if is_method_call(c, "protect") and norm(c.func.value) == "self"}
    r3 = g.reach(mat, skip_node=lambda n: n.id in prot, skip_edge=lambda a, l, b: l == "exc")
    ck.require(bool(prot) and g.exit not in r3, rule, fn, t,
               "a successful check protects the object before returning",
               "a successful check can return without protecting (read-only marking) the object",
               construct=f"{t.text()} / match protects")
    for pn in prot:
        wp = cut(g, [pn], lambda tt, lab: tt.id == t.id and lab == match_lab)
        ck.require(wp is None, rule, fn, g.nodes[pn], "an object is protected (marked trusted) only after its hash was compared equal",
                   "check() can protect an object before / without its hash having been compared equal: a mismatching object may be left read-only, and a read-only local object is never re-hashed",
                   witness=g.fmt_path(wp) if wp else None, construct=f"{g.nodes[pn].text()} / only on match")
    r4 = g.reach(mat)
    ck.require(not (set(r4) & rm_nodes), rule, fn, t, "an intact object is never deleted",
               "the deletion is reachable on the match edge: an intact object can be deleted", construct=f"{t.text()} / match keeps")
    # with check_hash on, a normal return needs the match edge
    def just(tt, lab):
        if tt.id == t.id and lab == match_lab:
            return True
        return tt.kind == "test" and isinstance(tt.ast, ast.Name) and tt.ast.id == "check_hash" and lab == "F"

    wit = cut(g, [g.exit], just)
    ck.require(wit is None, rule, fn, fn.node,
               "with hash checking on, check() returns normally only across the 'hashes agree' edge",
               "check() can return normally with hash checking on without the hashes having been compared equal",
               witness=g.fmt_path(wit) if wit else None, construct="normal return / CUT(match)")


def _check_local(ck: Checker, rule: str = "C07.localtrust") -> None:
    prog = ck.prog
    cls = prog.cls("hashfile.db.local", "LocalHashFileDB")
    fn = cls.methods.get("check")
    if fn is None:
        raise AnalysisError("LocalHashFileDB.check vanished")
    g = ck.cfg(fn)
    mode = const_int(ck, cls, "CACHE_MODE")
    ck.require(mode is not None and mode & 0o222 == 0, rule, fn, cls.node,
               f"CACHE_MODE={oct(mode) if mode is not None else '?'} has no write bit", "CACHE_MODE grants write permission: 'protected' no longer means read-only",
               construct="LocalHashFileDB.CACHE_MODE")
    rets = [n for n in g.nodes.values() if n.kind == "stmt" and isinstance(n.ast, ast.Return)]
    deleg, trusted = [], []
    for r in rets:
        v = r.ast.value
        if isinstance(v, ast.Call) and isinstance(v.func, ast.Attribute) and v.func.attr == "check" and norm(v.func.value).startswith("super("):
            deleg.append(r)
        else:
            trusted.append(r)
    ck.floor(rule, len(deleg), 1, "delegations to the hashing check")
    for r in deleg:
        v = r.ast.value
        a0 = v.args[0] if v.args else next((k.value for k in v.keywords if k.arg == "oid"), None)
        a1 = v.args[1] if len(v.args) > 1 else next((k.value for k in v.keywords if k.arg == "check_hash"), None)
        ck.require(a0 is not None and norm(a0) == "oid", rule, fn, r, "delegates with the same oid", "delegation passes a different oid")
        ck.require(a1 is None or norm(a1) == "check_hash", rule, fn, r, "delegates with the caller's check_hash",
                   f"delegation overrides check_hash with {norm(a1) if a1 is not None else ''}", construct=f"{r.text()} / check_hash")

    def is_mode_eq(t, lab):
        e = t.ast
        if not (t.kind == "test" and isinstance(e, ast.Compare) and len(e.ops) == 1):
            return False
        if isinstance(e.ops[0], ast.Eq) and lab != "T":
            return False
        if isinstance(e.ops[0], ast.NotEq) and lab != "F":
            return False
        if not isinstance(e.ops[0], (ast.Eq, ast.NotEq)):
            return False
        sides = [" | ".join(norm(a) for a in value_alts(g, t, x, depth=3)) for x in (e.left, e.comparators[0])]
        has_mode = any("S_IMODE(" in s and "mode" in s for s in sides)
        has_const = any(any(c_ in s for c_ in ("self.CACHE_MODE", "type(self).CACHE_MODE", "LocalHashFileDB.CACHE_MODE")) for s in sides)
        return has_mode and has_const

    for r in trusted:
        wit = cut(g, [r.id], is_mode_eq)
        ck.require(wit is None, rule, fn, r,
                   "trust-without-hashing return lies across 'permission bits == CACHE_MODE'",
                   "an object can be reported valid without hashing although its mode is not exactly the protected mode",
                   witness=g.fmt_path(wit) if wit else None)
    # info is the caller's or a fresh stat of the object's own path
    for t in g.nodes.values():
        if t.kind == "test" and is_mode_eq(t, "T") or is_mode_eq(t, "F"):
            srcs = []
            for side in (t.ast.left, t.ast.comparators[0]):
                for alt in value_alts(g, t, side, depth=3):
                    for x in walk_expr(alt):
                        if isinstance(x, ast.Subscript) and isinstance(x.value, ast.Name):
                            srcs += [norm(a) for a in expand(prog, fn, x.value)]
            ok = any("self.oid_to_path(oid)" in s or s == "_info" for s in srcs)
            ck.require(ok, rule, fn, t, "the mode examined is that of the object's own file", f"the mode examined does not come from the object's own path: {srcs}", construct=f"{t.text()} / stat source")
    # is_protected agrees
    ip = cls.methods.get("is_protected")
    if ip is not None:
        eqs = [x for x in walk_own(ip.node) if isinstance(x, ast.Compare) and len(x.ops) == 1 and isinstance(x.ops[0], ast.Eq) and any(norm(s_).endswith("CACHE_MODE") for s_ in (x.left, x.comparators[0]))]
        ck.require(bool(eqs), rule, ip, ip.node,
                   "is_protected compares with the same constant by equality", "is_protected no longer tests equality with CACHE_MODE")
    pr = cls.methods.get("protect")
    if pr is not None:
        chm = [c for c in walk_own(pr.node) if isinstance(c, ast.Call) and norm(c.func) == "os.chmod"]
        ok = bool(chm) and all(len(c.args) >= 2 and norm(c.args[0]) == "path" and norm(c.args[1]) == "self.CACHE_MODE" for c in chm)
        ck.require(ok, rule, pr, pr.node, "protect chmods its own path to CACHE_MODE", "protect does not chmod the given path to CACHE_MODE")


def _check_exists(ck: Checker, rule: str = "C07.exists") -> None:
    prog = ck.prog
    fn = prog.func("hashfile.db.local", "LocalHashFileDB.oids_exist")
    g = ck.cfg(fn)
    retn = {norm(r.value) for r in walk_own(fn.node) if isinstance(r, ast.Return) and isinstance(r.value, ast.Name)}
    apps = [(n, c) for n in g.nodes.values() for c in calls_at(n) if is_method_call(c, "append", "add") and norm(c.func.value) in retn]
    ck.floor(rule, len(apps), 1, "appends to the result of oids_exist")
    for n, c in apps:
        if not n.loops:
            ck.fail(rule, fn, n, "result is extended outside the per-oid loop")
            continue
        head = g.nodes[n.loops[-1]]
        v = norm(c.args[0]) if c.args else "?"
        chk = {m.id for m in g.nodes.values() if head.id in m.loops for c2 in calls_at(m)
               if is_method_call(c2, "check") and norm(c2.func.value) == "self" and c2.args and norm(c2.args[0]) == v}
        # hashing must not be disabled
        for m in g.nodes.values():
            for c2 in calls_at(m):
                if m.id in chk:
                    off = any(k.arg == "check_hash" and not (isinstance(k.value, ast.Constant) and k.value.value is True) for k in c2.keywords) or (
                        len(c2.args) > 1 and not (isinstance(c2.args[1], ast.Constant) and c2.args[1].value is True))
                    ck.require(not off, rule, fn, m, "existence query runs the integrity check with hashing on", "existence query disables hashing: a corrupt unprotected object is reported as existing")
        # the append must be reached from the check through a NORMAL edge only
        def avoid(x):
            return x.id in chk

        wit = avoiding_path(g, n.id, avoid, start=head.id)
        ck.require(bool(chk) and wit is None, rule, fn, n,
                   f"oid is reported only after self.check({v}) in the same iteration",
                   "an oid can be reported as existing without having passed check() in this iteration",
                   witness=g.fmt_path(wit) if wit else None)
        # ... and not via the exception edge out of check
        r = g.reach(list(chk), skip_edge=lambda a, l, b: not (a.id in chk and l == "exc") and a.id in chk)
        exc_targets = [d for cid in chk for lab, d in g.nodes[cid].succ if lab == "exc"]
        from ..an import reach_const_flags as _rcf

        r = _rcf(g, exc_targets, skip_node=lambda x: x.id == head.id)
        ck.require(n.id not in r, rule, fn, n,
                   "a failed check never leads to the oid being reported",
                   "the handler of a failed check can still report the oid as existing",
                   construct=f"{n.text()} / not from handler")
    for h in [x for x in g.nodes.values() if x.kind == "handler"]:
        ts = handler_types(h.ast)
        ck.require(set(ts) <= ALLOWED_SWALLOW, rule, fn, h, f"swallows only {sorted(ts)}", f"existence query swallows {ts}: unrelated errors would be read as 'missing'")
    # both verdicts of check() - mismatch (ObjectFormatError) and absence (FileNotFoundError: also what a concurrent
    # writer's discard of the same residue looks like) - are answered "does not exist" for that oid, inside the loop
    chk_all = [m for m in g.nodes.values() if m.loops for c2 in calls_at(m) if is_method_call(c2, "check") and norm(c2.func.value) == "self"]
    for m in chk_all:
        caught = set()
        for lab, d in m.succ:
            if lab == "exc" and g.nodes[d].kind == "handler" and m.loops[-1] in g.nodes[d].loops:
                caught |= set(handler_types(g.nodes[d].ast))
        broad = caught & {"Exception", "BaseException", "OSError"}
        okc = ("ObjectFormatError" in caught or "Exception" in caught) and ("FileNotFoundError" in caught or broad)
        ck.require(okc, rule, fn, m, "a failing check (mismatch or vanished file) is answered per oid, inside the loop",
                   f"`{m.text()[:50]}`: the per-oid handler catches only {sorted(caught) or 'nothing'}; a FileNotFoundError from check() (the file was discarded by a concurrent writer after an earlier existence test, or vanished) escapes the status query and fails the whole transfer",
                   construct=f"{m.text()[:40]} / both verdicts handled")


def _check_verify(ck: Checker, rule: str) -> None:
    prog = ck.prog
    fn = prog.func("hashfile.db", "HashFileDB.add")
    g = ck.cfg(fn)
    copy = [n for n in g.nodes.values() for c in calls_at(n) if isinstance(c.func, ast.Attribute) and c.func.attr == "add" and norm(c.func.value).startswith("super(")]
    ck.floor(rule, len(copy), 1, "delegated copy (super().add) in HashFileDB.add")
    cp = copy[0]
    prots = [(n, c) for n in g.nodes.values() for c in calls_at(n) if is_method_call(c, "protect") and norm(c.func.value) == "self"]
    ck.floor(rule, len(prots), 1, "protect calls in HashFileDB.add")
    # the verify flag: any local whose value is read from the "verify" option / self.verify (whatever it is called)
    vnames = {"verify"} if fn.has_param("verify") else set()
    for a in walk_own(fn.node):
        if isinstance(a, ast.Assign) and len(a.targets) == 1 and isinstance(a.targets[0], ast.Name) and ("'verify'" in norm(a.value) or norm(a.value) == "self.verify"):
            vnames.add(a.targets[0].id)
    for n, c in prots:
        # after the copy
        ck.require(avoiding_path(g, n.id, lambda x: x.id == cp.id) is None, rule, fn, n,
                   "protect happens only after the delegated copy returned", "an object can be protected before it was copied", construct=f"{n.text()} / after copy")
        if not n.loops:
            ck.fail(rule, fn, n, "protect is not applied per object inside a loop over the added oids")
            continue
        head = g.nodes[n.loops[-1]]
        chk = {m.id for m in g.nodes.values() if head.id in m.loops for c2 in calls_at(m)
               if is_method_call(c2, "check") and norm(c2.func.value) == "self"}
        # on the verify edge the check precedes protect
        def skip(a, lab, b):
            return a.kind == "test" and isinstance(a.ast, ast.Name) and a.ast.id in vnames and lab == "F"

        from ..an import with_flags as _wf

        lifted = _wf(g, lambda a, lab: skip(a, lab, None), start=head.id)
        reached = g.reach([d for lab, d in head.succ if lab == "T"], skip_node=lambda x: x.id in chk, skip_edge=lambda a, lab, b: skip(a, lab, b) or lifted(a, lab))
        has_verify_test = any(a.kind == "test" and isinstance(a.ast, ast.Name) and a.ast.id in vnames and head.id in a.loops for a in g.nodes.values())
        bad = n.id in reached and has_verify_test
        ck.require(bool(chk) and has_verify_test and not bad, rule, fn, n,
                   "with verify on, each object is integrity-checked before it is protected",
                   "with verify on, an object can be protected (made 'trusted') before / without being integrity-checked - a protected local object is never re-hashed",
                   witness=g.fmt_path(g.path_to(reached, n.id)) if bad else None, construct=f"{n.text()} / check before protect")
        # every object that reaches the end of the loop body normally was protected (whatever the copy mode:
        # a hard-linked object shares its inode with a possibly writable source file)
        prot_ids = {pn.id for pn, _ in prots if head.id in pn.loops}
        r2 = g.reach([d for lab, d in head.succ if lab == "T"], skip_node=lambda x: x.id in prot_ids, skip_edge=lambda a, lab, b: lab == "exc")
        ck.require(head.id not in r2, rule, fn, n, "every added object is write-protected on every normal path through the post-copy loop",
                   "an added object can leave the post-copy loop without being write-protected (e.g. protection skipped for hard-linked or unverified objects): the stored object stays writable and may share its inode with an editable file",
                   witness=g.fmt_path(g.path_to(r2, head.id)) if head.id in r2 else None, construct=f"{n.text()} / always protected")
        # verification hashes
        for m in g.nodes.values():
            if m.id in chk:
                for c2 in calls_at(m):
                    if is_method_call(c2, "check"):
                        on = any(k.arg == "check_hash" and isinstance(k.value, ast.Constant) and k.value.value is True for k in c2.keywords) or not any(k.arg == "check_hash" for k in c2.keywords) and len(c2.args) < 2
                        ck.require(on, rule, fn, m, "verification hashes the object", "verification is called with hashing disabled")
        # per-object error containment: exception edges stay inside the loop
        for m in [x for x in g.nodes.values() if x.id in chk or x.id == n.id]:
            outs = [d for lab, d in m.succ if lab == "exc"]
            inside = all(head.id in g.nodes[d].loops for d in outs)
            ck.require(bool(outs) and inside, rule, fn, m,
                       "a failing object is handled inside the loop; the remaining objects are still verified/protected",
                       "a verification failure for one object leaves the loop: later objects are neither verified nor protected",
                       construct=f"{m.text()} / per-object handler")
        # protect argument is the path of the oid being checked
        arg = c.args[0] if c.args else None
        okp = False
        if arg is not None:
            for alt in expand(prog, fn, arg):
                t = norm(alt)
                if "oid_to_path" in t or is_marker(alt, ITEM):
                    okp = True
        ck.require(okp, rule, fn, n, "protects the store path of the added oid", f"protect target {norm(arg) if arg is not None else '?'} is not derived from the added oids", construct=f"{n.text()} / target")
    # the pre-copy clean-up loop (verify on: drop corrupt leftovers so that they get re-added) is per object too
    for m in g.nodes.values():
        if not m.loops or not any(is_method_call(c2, "check") and norm(c2.func.value) == "self" for c2 in calls_at(m)):
            continue
        if avoiding_path(g, m.id, lambda x: x.id == cp.id) is None:
            continue  # post-copy checks were handled above
        head = g.nodes[m.loops[-1]]
        outs = [d for lab, d in m.succ if lab == "exc"]
        inside = all(head.id in g.nodes[d].loops for d in outs)
        ck.require(bool(outs) and inside, rule, fn, m,
                   "a corrupt / missing leftover found by the pre-copy check does not stop the check of the remaining objects",
                   "the first corrupt or missing object ends the pre-copy check of the whole batch: later stale leftovers are not dropped, get skipped by the exists-filter, are deleted by the post-copy check and are never re-added",
                   construct=f"{m.text()} / pre-copy per-object handler")
    for h in [x for x in g.nodes.values() if x.kind == "handler"]:
        ts = handler_types(h.ast)
        ck.require(set(ts) <= ALLOWED_SWALLOW, rule, fn, h, f"swallows only {sorted(ts)}", f"add() swallows {ts}")
    for w in [x for x in g.nodes.values() if x.kind == "with"]:
        for it in w.ast.items:
            e = it.context_expr
            if isinstance(e, ast.Call) and call_name(e) == "suppress":
                ts = [norm(a).split(".")[-1] for a in e.args]
                ck.require(set(ts) <= ALLOWED_SWALLOW, rule, fn, w, f"suppresses only {sorted(ts)}", f"add() suppresses {ts}")


def _check_checkout(ck: Checker) -> None:
    prog = ck.prog
    # memo scope (same obligation as C05.incache)
    dmod = prog.module("hashfile.diff")
    n = 0
    for f in dmod.funcs.values():
        if any(isinstance(x, ast.Call) and is_method_call(x, "check") for x in walk_own(f.node)):
            n += 1
            for dec in f.node.decorator_list:
                d = norm(dec)
                if any(k in d for k in ("cache", "lru_cache", "memoize")):
                    ck.require(f.parent is not None, "C07.checkout", f, dec,
                               "memoised integrity lookup is local to one diff() call",
                               "memoised integrity lookup is shared across diff()/checkout() calls: an object corrupted after the first lookup is still served as valid",
                               construct=f"@{d} def {f.name}")
            for r in [x for x in walk_own(f.node) if isinstance(x, ast.Return) and isinstance(x.value, ast.Call) and is_method_call(x.value, "check")]:
                off = any(k.arg == "check_hash" and not (isinstance(k.value, ast.Constant) and k.value.value is True) for k in r.value.keywords)
                ck.require(not off, "C07.checkout", f, r, "checkout consults cache.check with hashing on", "checkout's cache lookup disables hashing")
    ck.floor("C07.checkout", n, 1, "functions in hashfile.diff that call cache.check")
    link = prog.func("hashfile.checkout", "Link.__call__")
    g = ck.cfg(link)
    hs = [h for h in g.nodes.values() if h.kind == "handler" and "FileNotFoundError" in handler_types(h.ast)]
    ok = False
    for h in hs:
        r = g.reach([h.id])
        for x in r:
            nn = g.nodes[x]
            if nn.kind == "stmt" and isinstance(nn.ast, ast.Raise) and nn.ast.exc is not None and "CheckoutError" in norm(nn.ast.exc) and "to_path" in norm(nn.ast.exc):
                ok = g.exit not in r
    ck.require(ok, "C07.checkout", link, link.node,
               "a source object missing at link time raises CheckoutError naming the destination",
               "a missing source object at link time is not converted into CheckoutError([to_path])",
               construct="except FileNotFoundError -> CheckoutError")



def check_fetch_verify(ck: Checker, rule: str) -> None:
    """index.fetch: objects downloaded from a remote are verified according to the *remote's* verify
    setting - the transfer is told so explicitly with verify=<source odb>.verify."""
    prog = ck.prog
    fn = prog.func("index.fetch", "fetch")
    tr = prog.func("hashfile.transfer", "transfer")
    n = 0
    for c, cals in ck.res.calls_in(fn):
        if not any(x.fq == tr.fq for x in cals):
            continue
        n += 1
        src = get_arg(c, tr, "src", pos=0)
        ver = get_arg(c, tr, "verify")
        ok = src is not None and ver is not None and norm(ver) == f"{norm(src)}.verify"
        ck.require(ok, rule, fn, c, "fetch verifies downloads according to the source (remote) store's verify flag",
                   f"fetch calls transfer({norm(src) if src is not None else '?'}, ...) with verify={norm(ver) if ver is not None else 'omitted'}: whether downloaded objects are re-hashed no longer follows the remote's verify setting, so a corrupt remote object is copied into the cache, write-protected and trusted",
                   construct="transfer(... verify=<src>.verify) in fetch")
    ck.floor(rule, n, 1, "transfer() calls in index.fetch.fetch")
