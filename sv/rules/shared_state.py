"""Rule: no mutable container declared at class (or module) level may be mutated through instances.

A memo / cache placed on the class is shared by every instance in the process: state recorded by one
checkout / one store object leaks into the next (used by C10 and C16)."""
from __future__ import annotations

import ast
from typing import List, Optional

from ..core import Checker
from ..loader import ClassInfo, norm, walk_own

MUTATORS = {"add", "append", "extend", "update", "pop", "remove", "clear", "setdefault", "discard", "insert", "popitem", "__setitem__"}


def _mutable_literal(v: Optional[ast.expr]) -> bool:
    if isinstance(v, (ast.List, ast.Dict, ast.Set)):
        return True
    if isinstance(v, ast.Call) and isinstance(v.func, ast.Name) and v.func.id in ("set", "dict", "list", "defaultdict", "deque", "OrderedDict"):
        return True
    return False


def check_class_level_state(ck: Checker, rule: str, classes: List[ClassInfo], why: str) -> int:
    n = 0
    for ci in classes:
        n += 1
        # attributes assigned on self anywhere in the class (instance state)
        inst = set()
        for m in ci.methods.values():
            for x in walk_own(m.node):
                if isinstance(x, (ast.Assign, ast.AnnAssign)):
                    tgts = x.targets if isinstance(x, ast.Assign) else [x.target]
                    for t in tgts:
                        if isinstance(t, ast.Attribute) and isinstance(t.value, ast.Name) and t.value.id == "self" and m.name in ("__init__", "__new__", "__attrs_post_init__"):
                            inst.add(t.attr)
        bad = []
        for attr, v in ci.attrs.items():
            if not _mutable_literal(v) or attr in inst:
                continue
            ann = ci.ann_attrs.get(attr)
            # mutated through self.<attr> ?
            for m in ci.methods.values():
                for x in walk_own(m.node):
                    if isinstance(x, ast.Call) and isinstance(x.func, ast.Attribute) and x.func.attr in MUTATORS and norm(x.func.value) in (f"self.{attr}", f"cls.{attr}", f"{ci.name}.{attr}"):
                        bad.append((attr, m, x))
                    if isinstance(x, (ast.Assign, ast.AugAssign)):
                        tgts = x.targets if isinstance(x, ast.Assign) else [x.target]
                        for t in tgts:
                            if isinstance(t, ast.Subscript) and norm(t.value) in (f"self.{attr}", f"cls.{attr}"):
                                bad.append((attr, m, x))
        if bad:
            for attr, m, x in bad[:3]:
                ck.fail(rule, m, x, f"`{ci.name}.{attr}` is a mutable container declared on the class and mutated through instances ({norm(x)[:60]}): {why}", construct=f"{ci.name}.{attr} (class-level) mutated")
        else:
            ck.ok(rule, None, None, f"{ci.name}: no class-level mutable container is mutated through instances", construct=f"class {ci.name} / shared state", nontrivial=bool(ci.attrs))
    return n


def check_process_wide_memo(ck: Checker, rule: str, modules: List[str], why: str) -> int:
    """No module-level function or method of the given modules is memoised for the life of the process
    (`functools.cache` / `lru_cache`): what it remembers (a directory exists, an object was checked, ...) describes
    the filesystem at one moment and outlives the operation that established it.  (Per-call memos - a cached
    closure created inside the function that uses it - are fine; the baseline has no process-wide one.)"""
    n = 0
    for mname in modules:
        mod = ck.prog.module(mname)
        for fn in mod.funcs.values():
            if fn.parent is not None:
                continue  # closures: their memo dies with the enclosing call
            n += 1
            for d in getattr(fn.node, "decorator_list", []):
                t = norm(d.func) if isinstance(d, ast.Call) else norm(d)
                if t.split(".")[-1] in ("cache", "lru_cache", "memoize", "memoized"):
                    ck.fail(rule, fn, fn.node, f"`{fn.qual}` is memoised for the whole process (@{t}): {why}", construct=f"@{t} def {fn.qual} / process-wide memo")
    return n
