"""Structural clauses added after the fourth round of independently written breaking changes.
Each function is called from the property rule modules it belongs to (rule names are passed in)."""
from __future__ import annotations

import ast
from typing import List

from ..an import avoiding_path, collection_builds, cut, is_method_call, reaching_defs, value_alts
from ..cfg import calls_at, node_exprs
from ..core import Checker
from ..loader import Func, norm, walk_expr, walk_own
from ..prov import call_name, expand1, get_arg


def post_copy_covers_all(ck: Checker, rule: str) -> None:
    """HashFileDB.add: the post-copy verify/protect loop runs over every requested oid - also over those
    whose copy was reported as failed (a failed copy can leave bytes behind)."""
    fn = ck.prog.func("hashfile.db", "HashFileDB.add")
    g = ck.cfg(fn)
    prot = [n for n in g.nodes.values() for c in calls_at(n) if is_method_call(c, "protect") and norm(c.func.value) == "self" and n.loops]
    ck.floor(rule, len(prot), 1, "per-object protect in HashFileDB.add")
    # the requested oids, whatever the local is called: the normalised form of the `oid` parameter
    oparam = "oid" if fn.has_param("oid") else fn.pos_params[3] if len(fn.pos_params) > 3 else "oid"
    req = {oparam}
    for a in walk_own(fn.node):
        tg_ = a.targets[0] if isinstance(a, ast.Assign) and len(a.targets) == 1 else (a.target if isinstance(a, ast.AnnAssign) and a.value is not None else None)
        if isinstance(tg_, ast.Name) and any(isinstance(x, ast.Name) and x.id == oparam for x in walk_expr(a.value)) and isinstance(a.value, (ast.IfExp, ast.List, ast.Name, ast.Call)):
            req.add(tg_.id)
    oids_name = next((r for r in sorted(req) if r != oparam), oparam)
    for n in prot:
        h = g.nodes[n.loops[-1]]
        it = h.ast.iter if h.kind == "for" else None
        src = it.func.value if isinstance(it, ast.Call) and is_method_call(it, "items", "keys", "values") else it
        ok, why = False, norm(it) if it is not None else "?"
        from ..an import order_source

        if it is not None:
            want = order_source(g, h, ast.Name(id=oids_name, ctx=ast.Load()), fn.has_param)
            got = order_source(g, h, it, fn.has_param)
            if got == want and not any(x.split(":")[0] in ("filtered", "collapsed") for x in got):
                ok = True
        if not ok and isinstance(src, ast.Name):
            if src.id in req:
                ok = True
            for b in collection_builds(g, fn.node, src.id):
                why = repr(b)
                ok = ok or (norm(b.src) in req and not b.ifs and b.unconditional)
                if b.ifs or not b.unconditional:
                    ok = False
                    why = f"{src.id} leaves out oids ({[norm(i) for i in b.ifs]})"
                    break
        ck.require(ok, rule, fn, h, "the post-copy verification / protection visits every requested oid",
                   f"the post-copy verification / protection loop does not visit every requested oid ({why}): an object whose copy was reported as failed but left bytes at the destination is neither hashed and removed nor reported",
                   construct=f"{norm(h.ast.target) if h.kind == 'for' else '?'} in {norm(it) if it is not None else '?'} / all oids")


def failures_always_raised(ck: Checker, rule: str) -> None:
    """hashfile.checkout._checkout: paths collected as failed are raised on every way out after the loop."""
    fn = ck.prog.func("hashfile.checkout", "_checkout")
    g = ck.cfg(fn)
    fails = set()
    for n in g.nodes.values():
        for c in calls_at(n):
            if is_method_call(c, "extend", "append") and c.args and "paths" in norm(c.args[0]) and isinstance(c.func.value, ast.Name):
                fails.add(c.func.value.id)
    ck.floor(rule, len(fails), 1, "failure accumulators in _checkout")
    loops = [h for h in g.nodes.values() if h.kind == "for" and len(h.loops) == 1 and any(is_method_call(c, "extend", "append") and isinstance(c.func.value, ast.Name) and c.func.value.id in fails for x in g.nodes.values() if h.id in x.loops for c in calls_at(x))]
    ck.floor(rule, len(loops), 1, "per-file loop collecting failures in _checkout")
    for h in loops:
        starts = [d for lab, d in h.succ if lab == "F"]
        r = g.reach(starts, skip_edge=lambda a, lab, b: lab == "exc" or (a.kind == "test" and isinstance(a.ast, ast.Name) and a.ast.id in fails and lab == "F"))
        ck.require(g.exit not in r, rule, fn, h, "after the per-file loop every normal way out tests the failure list (and raises CheckoutError)",
                   "after the per-file loop _checkout can return normally without looking at the collected failures (e.g. an early return when no state was passed): files that could not be linked are silently missing from the workspace",
                   witness=g.fmt_path(g.path_to(r, g.exit)) if g.exit in r else None, construct="per-file loop / failures raised")


def hashinfo_identity(ck: Checker, rule: str) -> None:
    """HashInfo equality and hashing are over (name, value) only: the display name obj_name is excluded."""
    cls = ck.prog.cls("hashfile.hash_info", "HashInfo")
    n = 0
    for s in cls.node.body:
        if isinstance(s, ast.AnnAssign) and isinstance(s.target, ast.Name) and s.target.id == "obj_name":
            n += 1
            v = s.value
            kws = {k.arg: k.value for k in v.keywords} if isinstance(v, ast.Call) else {}
            eq_off = isinstance(kws.get("eq"), ast.Constant) and kws["eq"].value is False
            hash_off = (isinstance(kws.get("hash"), ast.Constant) and kws["hash"].value is False) or eq_off and "hash" not in kws
            ck.require(eq_off and hash_off, rule, None, s, "obj_name takes no part in HashInfo equality / hashing",
                       f"`{norm(s)}`: the display name now takes part in HashInfo.__eq__ (or __hash__): ids labelled by the caller no longer equal the unlabelled ids read from a directory listing, so `file_ids & entry_ids` is empty and directory objects are sent before / without their files",
                       construct="HashInfo.obj_name / eq=False, hash=False")
    ck.floor(rule, n, 1, "obj_name field of HashInfo")


def hashinfo_from_dict_strict(ck: Checker, rule: str) -> None:
    fn = ck.prog.func("hashfile.hash_info", "HashInfo.from_dict")
    g = ck.cfg(fn)
    d = fn.pos_params[-1]
    empties = [n for n in g.nodes.values() if n.kind == "stmt" and isinstance(n.ast, ast.Return) and isinstance(n.ast.value, ast.Call) and not n.ast.value.args and not n.ast.value.keywords]
    for n in empties:
        w = cut(g, [n.id], lambda t, lab: t.kind == "test" and isinstance(t.ast, ast.Name) and t.ast.id == d and lab == "F")
        others = [t for t in g.nodes.values() if t.kind == "test" and not (isinstance(t.ast, ast.Name) and t.ast.id == d) and n.id in g.reach([t.id])]
        ck.require(w is None and not others, rule, fn, n, "an empty HashInfo is produced only for an empty mapping",
                   f"HashInfo.from_dict returns an empty HashInfo for a non-empty mapping ({[norm(t.ast) for t in others]}): a listing row that carries extra keys silently loses its hash instead of being rejected",
                   construct="return cls() / only for empty dict")


def check_removal_strict(ck: Checker, rule: str) -> None:
    """HashFileDB.check: the removal of a mismatching object tolerates only 'already gone'."""
    fn = ck.prog.func("hashfile.db", "HashFileDB.check")
    n_rm = 0
    for w in walk_own(fn.node):
        if isinstance(w, ast.With):
            has_rm = any(isinstance(c, ast.Call) and is_method_call(c, "remove", "rm", "unlink") for b in w.body for c in ast.walk(b))
            if not has_rm:
                continue
            for item in w.items:
                c = item.context_expr
                if isinstance(c, ast.Call) and call_name(c) == "suppress":
                    n_rm += 1
                    types = [norm(a).split(".")[-1] for a in c.args]
                    ck.require(set(types) <= {"FileNotFoundError"}, rule, fn, w, "removing a mismatching object tolerates only FileNotFoundError",
                               f"removal of a mismatching object swallows {types}: when the unlink fails the corrupted file stays in the store while callers treat the object as dropped",
                               construct="suppress(...) around fs.remove(obj.path)")
        if isinstance(w, ast.Try):
            has_rm = any(isinstance(c, ast.Call) and is_method_call(c, "remove", "rm", "unlink") for b in w.body for c in ast.walk(b))
            if not has_rm:
                continue
            for h in w.handlers:
                n_rm += 1
                types = [norm(x).split(".")[-1] for x in (h.type.elts if isinstance(h.type, ast.Tuple) else [h.type])] if h.type is not None else ["<bare>"]
                swallow = not any(isinstance(x, ast.Raise) for b in h.body for x in ast.walk(b))
                ck.require(not swallow or set(types) <= {"FileNotFoundError"}, rule, fn, h, "removing a mismatching object tolerates only FileNotFoundError",
                           f"removal of a mismatching object swallows {types}", construct="except around fs.remove(obj.path)")
    ck.floor(rule, n_rm, 1, "tolerated errors around the removal in HashFileDB.check")


def create_dirs_all(ck: Checker, rule: str) -> None:
    fn = ck.prog.func("index.checkout", "_create_dirs")
    g = ck.cfg(fn)
    mk = [n for n in g.nodes.values() for c in calls_at(n) if is_method_call(c, "makedirs", "mkdir")]
    ck.floor(rule, len(mk), 1, "makedirs in index.checkout._create_dirs")
    ok = False
    for n in mk:
        if not n.loops:
            continue
        h = g.nodes[n.loops[-1]]
        c = next(c for c in calls_at(n) if is_method_call(c, "makedirs", "mkdir"))
        arg = c.args[0] if c.args else None
        lv = norm(h.ast.target) if h.kind == "for" else None
        alts = [norm(a) for a in ([arg] + expand1(ck.prog, fn, arg, levels=2))] if arg is not None else []
        per_entry = h.kind == "for" and norm(h.ast.iter) == fn.pos_params[0] and any(f"*{lv}.key" in a and ".join(path" in a for a in alts)
        r = g.reach([d for lab, d in h.succ if lab == "T"], skip_node=lambda x, n=n: x.id == n.id, skip_edge=lambda a, lab, b: lab == "exc")
        ok = ok or (per_entry and h.id not in r)
    ck.require(ok, rule, fn, mk[0], "every directory entry of the target is created (makedirs(join(path, *entry.key)) for each entry)",
               "not every directory entry handed to _create_dirs is created by its own makedirs(join(path, *entry.key)) call (e.g. 'deepest only' with a string-prefix test): a leaf directory whose name is a prefix of a sibling's is never created and the checkout does not converge",
               construct="for entry in entries: makedirs(...)")


def relink_skip_only_dirs(ck: Checker, rule: str) -> None:
    fn = ck.prog.func("hashfile.checkout", "_determine_files_to_relink")
    g = ck.cfg(fn)
    loops = [h for h in g.nodes.values() if h.kind == "for" and norm(h.ast.iter).endswith(".unchanged")]
    ck.floor(rule, len(loops), 1, "loop over unchanged entries in _determine_files_to_relink")
    for h in loops:
        decide = {n.id for n in g.nodes.values() if h.id in n.loops for c in calls_at(n) if call_name(c) in ("_needs_relink", "mappend") or is_method_call(c, "append")}
        # `relink_needed = True` (decided without looking: no metadata) counts as a decision too
        decide |= {n.id for n in g.nodes.values() if h.id in n.loops and n.kind == "stmt" and isinstance(n.ast, ast.Assign) and isinstance(n.ast.value, ast.Constant) and n.ast.value.value is True}
        lv = norm(h.ast.target)
        from ..an import with_flags

        def isdir_lit(a, lab):
            if a.kind != "test":
                return False
            alts = " | ".join([norm(a.ast)] + [norm(z) for z in expand1(ck.prog, fn, a.ast, levels=2)])
            return lab == "T" and any(x.strip().endswith("oid.isdir") and "new" in x for x in alts.split("|"))

        lifted = with_flags(g, isdir_lit, start=h.id)

        def isdir_edge(a, lab, b):
            return lab == "exc" or lifted(a, lab)

        r = g.reach([d for lab, d in h.succ if lab == "T"], skip_node=lambda x: x.id in decide, skip_edge=isdir_edge)
        ck.require(h.id not in r, rule, fn, h, "an unchanged entry is left out of the relink decision only when it is a directory",
                   "an unchanged non-directory entry can be skipped without being examined for relinking (e.g. the root entry of a single-file target): it keeps whatever link type it has",
                   witness=g.fmt_path(g.path_to(r, h.id)) if h.id in r else None, construct=f"for {lv} in diff.unchanged / only directories skipped")


def index_memo_reset(ck: Checker, rule: str) -> None:
    """ObjectDBIndex: whatever is memoised on the instance outside __init__ is reset by clear()."""
    cls = ck.prog.cls("hashfile.db.index", "ObjectDBIndex")
    def self_stores(m: Func):
        out = set()
        for x in walk_own(m.node):
            if isinstance(x, (ast.Assign, ast.AugAssign, ast.AnnAssign)):
                for t in (x.targets if isinstance(x, ast.Assign) else [x.target]):
                    if isinstance(t, ast.Attribute) and isinstance(t.value, ast.Name) and t.value.id == "self":
                        out.add(t.attr)
        return out
    init = self_stores(cls.methods["__init__"]) if "__init__" in cls.methods else set()
    clear = cls.methods.get("clear")
    cleared = self_stores(clear) if clear is not None else set()
    if clear is not None:
        for x in walk_own(clear.node):
            if isinstance(x, ast.Call) and isinstance(x.func, ast.Attribute) and isinstance(x.func.value, ast.Attribute) and isinstance(x.func.value.value, ast.Name) and x.func.value.value.id == "self" and x.func.attr in ("clear", "cache_clear"):
                cleared.add(x.func.value.attr)
    memo = set()
    for name, m in cls.methods.items():
        if name in ("__init__", "clear"):
            continue
        memo |= self_stores(m)
        for x in walk_own(m.node):
            if isinstance(x, ast.Call) and isinstance(x.func, ast.Attribute) and x.func.attr in ("update", "add", "append", "extend") and isinstance(x.func.value, ast.Attribute) and isinstance(x.func.value.value, ast.Name) and x.func.value.value.id == "self" and x.func.value.attr != "index":
                memo.add(x.func.value.attr)
    lost = sorted(memo - cleared - {"index"})
    ck.require(not lost, rule, clear, clear.node if clear is not None else cls.node, "clear() resets everything the index memoises in memory",
               f"ObjectDBIndex memoises {lost} on the instance but clear() does not reset it: after a stale index was cleared the same object keeps answering from the old contents",
               construct="ObjectDBIndex.clear / memo reset")
    # ... and update() - the other method that changes what the index holds - resets or maintains it as well
    upd = cls.methods.get("update")
    if upd is not None and memo - {"index"}:
        touched = self_stores(upd)
        for x in walk_own(upd.node):
            if isinstance(x, ast.Call) and isinstance(x.func, ast.Attribute) and isinstance(x.func.value, ast.Attribute) and isinstance(x.func.value.value, ast.Name) and x.func.value.value.id == "self":
                touched.add(x.func.value.attr)
        stale = sorted(a for a in memo - {"index"} if a not in touched)
        ck.require(not stale, rule, upd, upd.node, "update() resets or maintains everything the index memoises in memory",
                   f"ObjectDBIndex memoises {stale} on the instance but update() neither resets nor maintains it: directories indexed after the first read are never re-validated against the store, so a stale index is not noticed",
                   construct="ObjectDBIndex.update / memo reset")
    for name in ("dir_hashes", "hashes", "intersection"):
        m = cls.methods.get(name)
        if m is not None:
            deco = [norm(d) for d in m.node.decorator_list]
            ck.require(not any("cache" in d for d in deco), rule, m, m.node, f"{name}() reads the index every time", f"ObjectDBIndex.{name} is memoised ({deco}): it keeps answering from before the last update()/clear()", construct=f"{name} / not cached")


def status_exists_provenance(ck: Checker, rule: str) -> None:
    """status(): an oid enters the `exists` answer only as (an element of) the result of a query - of the
    store (oids_exist / list_oids_exists over the oids asked about) or of the validated index."""
    fn = ck.prog.func("hashfile.status", "status")
    g = ck.cfg(fn)
    n_u = 0
    ALLOWED = ("oids_exist", "list_oids_exists", "intersection", "_indexed_dir_hashes")

    def from_query(n, e, depth=3) -> bool:
        if isinstance(e, ast.Call):
            nm = call_name(e) or ""
            if nm in ALLOWED:
                return True
            if nm in ("set", "list", "frozenset", "tuple") and e.args:
                return from_query(n, e.args[0], depth)
        if isinstance(e, ast.BinOp) and isinstance(e.op, ast.BitAnd):
            return True  # same as .intersection(...): a subset of the ids asked about, filtered by the other operand
        if isinstance(e, ast.Name) and depth > 0:
            defs = reaching_defs(g, n.id, e.id)
            if not defs:
                return False
            oks = []
            for d in defs:
                if d.kind == "for":
                    oks.append(from_query(d, d.ast.iter, depth - 1))
                else:
                    v = getattr(d.ast, "value", None)
                    oks.append(v is not None and (from_query(d, v, depth - 1) or (isinstance(v, ast.Call) and call_name(v) == "set" and not v.args)))
            return all(oks)
        return False

    # the `exists` accumulator, whatever it is called: what the first field of the returned StatusResult ranges over
    ex_names = set()
    for r in walk_own(fn.node):
        if isinstance(r, ast.Call) and call_name(r) == "StatusResult":
            a0 = get_arg(r, None, "ok", 0) if get_arg(r, None, "ok", 0) is not None else get_arg(r, None, "exists", 0)
            if isinstance(a0, (ast.SetComp, ast.ListComp, ast.GeneratorExp)) and isinstance(a0.generators[0].iter, ast.Name):
                ex_names.add(a0.generators[0].iter.id)
            elif isinstance(a0, ast.Name):
                for b in collection_builds(g, fn.node, a0.id):
                    if isinstance(b.src, ast.Name):
                        ex_names.add(b.src.id)
    if not ex_names:
        ex_names = {"exists"}
    for n in g.nodes.values():
        a = n.ast
        if n.kind == "stmt" and isinstance(a, ast.AugAssign) and isinstance(a.op, ast.BitOr) and isinstance(a.target, ast.Name) and a.target.id in ex_names:
            n_u += 1
            ck.require(from_query(n, a.value), rule, fn, n, "what is added to `exists` is the answer of a store / index query",
                       f"`{norm(a)[:70]}` adds ids to the 'exists' answer that are not the result of querying the store or the validated index for them: a file lost from the store is reported as existing and never re-sent",
                       construct=f"{norm(a)[:60]} / provenance")
        for c in calls_at(n):
            if is_method_call(c, "update", "add") and isinstance(c.func.value, ast.Name) and c.func.value.id in ex_names and c.args:
                n_u += 1
                ck.require(from_query(n, c.args[0]), rule, fn, n, "what is added to `exists` is the answer of a store / index query",
                           f"`{norm(c)[:70]}` adds ids to the 'exists' answer that are not the result of querying the store or the validated index for them (e.g. 'all files of a directory whose .dir object is present'): a file lost from the store is reported as existing and never re-sent",
                           construct=f"{norm(c)[:60]} / provenance")
        a = n.ast
        if n.kind == "stmt" and isinstance(a, (ast.Assign, ast.AnnAssign)):
            tg = a.targets[0] if isinstance(a, ast.Assign) else a.target
            if isinstance(tg, ast.Name) and tg.id in ex_names and a.value is not None and not (isinstance(a.value, ast.Call) and call_name(a.value) == "set" and not a.value.args):
                n_u += 1
                ck.require(from_query(n, a.value), rule, fn, n, "`exists` is assigned the answer of a store / index query", f"`{norm(a)[:70]}` is not the result of a store / index query", construct=f"{norm(a)[:60]} / provenance")
    ck.floor(rule, n_u, 2, "contributions to the `exists` answer in status()")


def text_ratio_exact(ck: Checker, rule: str) -> None:
    fn = ck.prog.func("hashfile.istextfile", "istextblock")
    in_assert = {id(y) for a_ in walk_own(fn.node) if isinstance(a_, ast.Assert) for y in ast.walk(a_)}  # sanity assertions decide nothing
    cmps = [x for x in walk_own(fn.node) if isinstance(x, ast.Compare) and id(x) not in in_assert and len(x.ops) == 1 and isinstance(x.ops[0], (ast.LtE, ast.Lt, ast.Gt, ast.GtE)) and any(isinstance(y, ast.Call) and call_name(y) == "len" for y in ast.walk(x))]
    ck.floor(rule, len(cmps), 1, "threshold comparison in istextblock")
    for x in cmps:
        floor = any(isinstance(y, ast.BinOp) and isinstance(y.op, ast.FloorDiv) for y in ast.walk(x))
        consts = [y.value for y in ast.walk(x) if isinstance(y, ast.Constant) and isinstance(y.value, (int, float)) and not isinstance(y.value, bool)]
        # a module-level constant standing for the threshold (`MAX_NONTEXT_RATIO = 0.30`)
        for y in ast.walk(x):
            if isinstance(y, ast.Name) and y.id in fn.module.consts and isinstance(fn.module.consts[y.id], ast.Constant) and isinstance(fn.module.consts[y.id].value, (int, float)):
                consts.append(fn.module.consts[y.id].value)
        div = any(isinstance(y, ast.BinOp) and isinstance(y.op, ast.Div) for y in ast.walk(x))
        thr_ok = (isinstance(x.ops[0], ast.LtE) and div and any(abs(float(c) - 0.30) < 1e-12 for c in consts)) or (isinstance(x.ops[0], ast.Gt) and div and any(abs(float(c) - 0.30) < 1e-12 for c in consts))
        ck.require(not floor and thr_ok, rule, fn, x, "text means: non-text share <= 0.30, compared exactly (true division)",
                   f"`{norm(x)}` is not the exact test 'non-text bytes / block length <= 0.30' (integer/floor arithmetic or another threshold): blocks just above 30% are classed as text and get normalised before hashing",
                   construct=f"{norm(x)[:60]} / exact ratio")


def hash_file_digest_sources(ck: Checker, rule: str) -> None:
    """_hash_file: the digest it returns is the filesystem-provided checksum, the fs' own hashing method, or
    file_md5 over the content - never a constant / memoised value chosen from the metadata."""
    fn = ck.prog.func("hashfile.hash", "_hash_file")
    g = ck.cfg(fn)
    n_r = 0
    sources = []  # (node, digest expression): one per return, or per reaching definition of a single-exit result variable
    for r in g.nodes.values():
        if not (r.kind == "stmt" and isinstance(r.ast, ast.Return) and isinstance(r.ast.value, ast.Tuple) and r.ast.value.elts):
            continue
        d = r.ast.value.elts[0]
        defs = [x for x in reaching_defs(g, r.id, d.id) if isinstance(x.ast, (ast.Assign, ast.AnnAssign)) and getattr(x.ast, "value", None) is not None] if isinstance(d, ast.Name) else []
        if len(defs) > 1:
            sources += [(x, x.ast.value) for x in defs]
        else:
            sources.append((r, d))
    for r, d in sources:
        n_r += 1
        ok = False
        for alt in [d] + value_alts(g, r, d, depth=3) + expand1(ck.prog, fn, d, levels=2):
            for c in ast.walk(alt):
                if isinstance(c, ast.Call) and call_name(c) in ("file_md5", "fobj_md5", "getattr"):
                    ok = True
                if isinstance(c, ast.Call) and isinstance(c.func, ast.Name):
                    # func(path) where func = getattr(fs, name)
                    for dd in reaching_defs(g, r.id, c.func.id):
                        v = getattr(dd.ast, "value", None)
                        if isinstance(v, ast.Call) and call_name(v) == "getattr":
                            ok = True
        ck.require(ok, rule, fn, r, "the returned digest comes from the content (file_md5), the filesystem's own checksum or its hashing method",
                   f"_hash_file returns `{norm(d)[:50]}` as the digest without reading the content or asking the filesystem (e.g. a shortcut for size 0): a file whose reported size is wrong gets the digest of other bytes",
                   construct=f"{r.text()[:50]} / digest source")
    ck.floor(rule, n_r, 2, "(digest, meta) returns of _hash_file")


def save_every_entry(ck: Checker, rule: str) -> None:
    """index.save.save: every hashed file entry is queued for its own cache (no de-duplication across caches)."""
    fn = ck.prog.func("index.save", "save")
    g = ck.cfg(fn)
    loops = [h for h in g.nodes.values() if h.kind == "for" and isinstance(h.ast.iter, ast.Call) and is_method_call(h.ast.iter, "iteritems", "items") and len(h.loops) == 1]
    ck.floor(rule, len(loops), 1, "entry loop in index.save.save")
    h = loops[0]
    queue = [n for n in g.nodes.values() if h.id in n.loops for c in calls_at(n) if is_method_call(c, "append", "add") and c.args and isinstance(c.args[0], ast.Tuple)]
    qids = {n.id for n in queue}

    def skip(a, lab, b):
        if lab == "exc":
            return True
        if a.kind != "test":
            return False
        t = norm(a.ast)
        if t.endswith(".isdir") and lab == "T":
            return True
        if t.endswith(".meta") and lab == "F":
            return False
        if t.endswith(".hash_info") and lab == "F":
            return True
        return False

    r = g.reach([d for lab, d in h.succ if lab == "T"], skip_node=lambda x: x.id in qids or x.kind == "handler", skip_edge=skip)
    ck.require(bool(queue) and h.id not in r, rule, fn, h, "every hashed file entry with a source is queued for its cache",
               "a hashed file entry can pass through save() without being queued for its cache (e.g. de-duplicated by oid across different caches): the directory object written for that cache lists a file the cache does not hold",
               witness=g.fmt_path(g.path_to(r, h.id)) if h.id in r else None, construct="for key, entry in index.iteritems() / every entry queued")


def load_fallback_broad(ck: Checker, rule: str) -> None:
    fn = ck.prog.func("index.index", "_load_from_storage")
    g = ck.cfg(fn)
    hs = [h for h in g.nodes.values() if h.kind == "handler" and h.loops]
    ck.floor(rule, len(hs), 1, "per-storage handler in _load_from_storage")
    for h in hs:
        t = h.ast.type
        types = [norm(x).split(".")[-1] for x in (t.elts if isinstance(t, ast.Tuple) else [t])] if t is not None else ["<bare>"]
        ck.require(bool({"Exception", "BaseException", "<bare>"} & set(types)), rule, fn, h, "any failure of one storage falls through to the next storage",
                   f"only {types} from one storage fall through to the next: a directory object that is unreadable for another reason (schema-broken listing, backend error) aborts the load although the next storage holds a good copy, and the error bypasses onerror",
                   construct="except Exception / try next storage")


def storage_prefix_default(ck: Checker, rule: str) -> None:
    """FileStorage / ObjectStorage: an explicitly given empty prefix () is a value, not 'missing'."""
    n = 0
    for cname in ("FileStorage",):
        cls = ck.prog.cls("index.index", cname)
        init = cls.methods.get("__init__")
        if init is None:
            continue
        for x in walk_own(init.node):
            if isinstance(x, ast.Assign) and any(norm(t) == "self.prefix" for t in x.targets):
                n += 1
                v = x.value
                ok = isinstance(v, ast.Name) or (isinstance(v, ast.IfExp) and isinstance(v.test, ast.Compare) and isinstance(v.test.ops[0], (ast.Is, ast.IsNot)))
                ck.require(ok, rule, init, x, "the prefix defaults to the key only when none was given (`is None`)",
                           f"`{norm(x)}` replaces an explicitly given empty prefix () by the key (truthiness test): paths below the storage are then resolved against the wrong root",
                           construct=f"{norm(x)[:50]} / is None")
    ck.floor(rule, n, 1, "prefix defaulting in FileStorage.__init__")


def merge_loads_strict(ck: Checker, rule: str) -> None:
    """tree.merge(): the three inputs are loaded with load(odb, <info>) - a missing or corrupt input must fail
    the merge, not be replaced by an empty tree (only an absent ancestor_info means 'empty ancestor')."""
    fn = ck.prog.func("hashfile.tree", "merge")
    g = ck.cfg(fn)
    bad = [c for c in walk_own(fn.node) if isinstance(c, ast.Call) and call_name(c) in ("_try_load", "find_tree_by_obj_id")]
    for c in bad:
        ck.fail(rule, fn, c, f"merge() loads an input with `{norm(c)[:50]}`, which swallows a missing / corrupt object: the merge then runs against an empty tree and resurrects or drops entries instead of failing",
                construct=f"{norm(c)[:40]} / tolerant load")
    loads = [c for c in ast.walk(fn.node) if isinstance(c, ast.Call) and call_name(c) == "load" and len(c.args) >= 2]
    if bad:
        return
    ck.floor(rule, len(loads), 1, "load(odb, <info>) calls in tree.merge")
    # Tree() stands in for the ancestor only when no ancestor id was given
    for n in g.nodes.values():
        a = n.ast
        if n.kind == "stmt" and isinstance(a, ast.Assign) and isinstance(a.value, ast.Call) and call_name(a.value) == "Tree" and not a.value.args and isinstance(a.targets[0], ast.Name) and "ancestor" in a.targets[0].id:
            w = cut(g, [n.id], lambda t, lab: t.kind == "test" and norm(t.ast) == "ancestor_info" and lab == "F")
            ck.require(w is None, rule, fn, n, "an empty ancestor is used only when no ancestor id was given", "an empty tree can stand in for the ancestor although an ancestor id was given (its object missing or unreadable)", witness=g.fmt_path(w) if w else None)
    for h in [x for x in g.nodes.values() if x.kind == "handler"]:
        t = norm(h.ast.type) if h.ast.type is not None else "<bare>"
        swallow = g.exit in g.reach([h.id], skip_edge=lambda a, lab, b: lab == "exc")
        ck.require(not swallow, rule, fn, h, "load errors are not swallowed in merge()", f"merge() swallows {t} while loading its inputs", construct=f"except {t} / swallowed")


def tree_load_rejects_only_nonlist(ck: Checker, rule: str) -> None:
    fn = ck.prog.func("hashfile.tree", "Tree.load")
    g = ck.cfg(fn)
    raises = [n for n in g.nodes.values() if n.kind == "stmt" and isinstance(n.ast, ast.Raise) and n.ast.exc is not None and "ObjectFormatError" in norm(n.ast.exc) and not any(h.kind == "handler" and n.id in g.reach([h.id], skip_edge=lambda a, lab, b: lab == "exc") for h in g.nodes.values())]
    for n in raises:
        w = cut(g, [n.id], lambda t, lab: t.kind == "test" and isinstance(t.ast, ast.Call) and call_name(t.ast) == "isinstance" and "list" in norm(t.ast) and lab == "F")
        ck.require(w is None, rule, fn, n, "a parsed listing is rejected only when it is not a list", "a well-formed listing can be rejected as corrupted without failing the `isinstance(raw, list)` test (e.g. the empty listing [] of an empty directory treated as falsy)",
                   witness=g.fmt_path(w) if w else None, construct=f"{n.text()[:50]} / only non-list")


def trie_setitem_always_writes(ck: Checker, rule: str) -> None:
    cls = ck.prog.cls("index.index", "DataIndexTrie")
    m = cls.methods.get("__setitem__")
    if m is None:
        return
    g = ck.cfg(m)
    dele = {n.id for n in g.nodes.values() for c in calls_at(n) if isinstance(c.func, ast.Attribute) and norm(c.func.value).startswith("super(") and c.func.attr == "__setitem__"}
    r = g.reach([g.entry], skip_node=lambda x: x.id in dele, skip_edge=lambda a, lab, b: lab == "exc")
    ck.require(bool(dele) and g.exit not in r, rule, m, m.node, "every assignment into the trie is written through to the backing store",
               "DataIndexTrie.__setitem__ can return without delegating the write (e.g. a fast path when the cached entry compares equal): fields excluded from equality, or an entry mutated in place, never reach the SQLite store",
               witness=g.fmt_path(g.path_to(r, g.exit)) if g.exit in r else None, construct="__setitem__ / always writes")
