"""C04 - Transfer keeps the destination closed: a directory object implies its files."""
from __future__ import annotations

import ast
from typing import List, Optional, Set

from ..an import avoiding_path, cut, is_method_call
from ..cfg import calls_at
from ..core import Checker
from ..loader import Func, norm, walk_expr, walk_own
from ..prov import refers_to_call, call_name, expand, expand1, get_arg, scope_of
from .transfer_common import TransferModel, build_model, check_oneshot, is_dir_ident


def names(e: ast.AST) -> Set[str]:
    return {x.id for x in walk_expr(e) if isinstance(x, ast.Name)}


def _set_meet(e: ast.expr, a: str, b: str) -> bool:
    """e is  a & b,  b & a,  a.intersection(b)  or  b.intersection(a)."""
    if isinstance(e, ast.BinOp) and isinstance(e.op, ast.BitAnd):
        return {norm(e.left), norm(e.right)} == {a, b}
    if isinstance(e, ast.Call) and is_method_call(e, "intersection") and len(e.args) == 1:
        return {norm(e.func.value), norm(e.args[0])} == {a, b}
    return False


def _contains_meet(e: ast.AST, a: str, b: str) -> bool:
    return any(isinstance(x, ast.expr) and _set_meet(x, a, b) for x in walk_expr(e))


def check(ck: Checker) -> None:
    prog, res = ck.prog, ck.res
    ck.decided = [
        "C04.order: inside one directory's iteration the directory object is added only after that directory's files were added, never before",
        "C04.guard: the directory add is unreachable unless 'files add reported no failure' AND 'no listed file is missing on both sides' (each alone is a cut)",
        "C04.allfiles: the failure test covers every listed file, including files claimed (and failed) under an earlier directory",
        "C04.reported: an iteration that does not successfully add the directory object records it in the failure set",
        "C04.onerror: every destination add reports failures into the set the helper returns, on every path of the error callback",
        "C04.index: the remote index is updated only when nothing failed, only for directories appended on the success edge, with that directory's own listing; the source index is cleared on failure",
        "C04.push: index push/fetch request every hashed entry of the index (closed request)",
    ]
    ck.not_decided = [
        "atomicity of a single upload and kill points inside it (dvc_objects)",
        "that dest.add has completed when it returns",
        "that a retry completes the destination (needs execution)",
    ]
    ck.trusted = ["ObjectDB.add reports each failed oid through on_error", "dest.add is synchronous"]
    m = build_model(ck)
    g, move = m.g, m.move
    ck.floor("C04.order", len(m.dir_add), 1, "directory-object add sites")
    ck.floor("C04.order", len(m.files_add), 1, "per-directory files add sites")
    f_ids = {x.id for x, _ in m.files_add}

    # --------------------------------------------------------------- order
    for d, c in m.dir_add:
        wit = avoiding_path(g, d.id, lambda n: n.id in f_ids, start=m.head.id)
        ck.require(wit is None, "C04.order", move, d,
                   "the directory object is sent only after this directory's files were sent",
                   "the directory object can be sent before (or without) sending this directory's files",
                   witness=g.fmt_path(wit) if wit else None)
        r = g.reach([d.id], skip_node=lambda n: n.id == m.head.id, include_start=True)
        back = [f for f in f_ids if f in r and f != d.id]
        ck.require(not back, "C04.order", move, d,
                   "no path inside the iteration leads from the directory add back to the files add",
                   "files of the directory can still be sent after its directory object",
                   construct=f"{d.text()} / no-path-back")

    # ------------------------------------------------------ guard literals
    def is_files_result(e: ast.expr) -> bool:
        return refers_to_call(move, e, [c for _n, c in m.files_add])

    def lit_no_fail(t, lab) -> bool:
        return t.kind == "test" and lab == "F" and is_files_result(t.ast) and not _is_missing_atom(t.ast)

    def _is_missing_atom(e: ast.expr) -> bool:
        return "missing_ids" in names(e)

    def lit_no_missing(t, lab) -> bool:
        if t.kind != "test":
            return False
        e = t.ast
        alts = [e] + expand(prog, move, e)
        for alt in alts:
            nm = names(alt)
            if "missing_ids" in nm and (m.entry_ids in nm or m.dir_obj in nm):
                if not _whole_listing_vs_missing(alt):
                    continue
                if isinstance(alt, ast.Call) and is_method_call(alt, "isdisjoint"):
                    return lab == "T"
                return lab == "F"
        return False

    def _whole_listing_vs_missing(alt: ast.expr) -> bool:
        """the operand met with missing_ids is the directory's complete listing, not a subset of it"""
        ops = []
        if isinstance(alt, ast.Call) and is_method_call(alt, "intersection", "isdisjoint") and len(alt.args) == 1:
            ops = [alt.func.value, alt.args[0]]
        elif isinstance(alt, ast.BinOp) and isinstance(alt.op, ast.BitAnd):
            ops = [alt.left, alt.right]
        else:
            return True  # some other spelling: keep the old (weaker) reading
        other = [o for o in ops if "missing_ids" not in names(o)]
        if len(other) != 1:
            return True
        allowed = {m.entry_ids, m.dir_obj, "_"}
        for o in [other[0]] + expand(prog, move, other[0]):
            bound = {x.id for c_ in walk_expr(o) if isinstance(c_, ast.comprehension) for x in walk_expr(c_.target) if isinstance(x, ast.Name)}
            if names(o) - bound <= allowed and names(o) & {m.entry_ids, m.dir_obj}:
                return True
        return False

    def covers_earlier_failures(t) -> Optional[str]:
        """Does the no-failure test also cover failed_ids & entry_ids?"""
        e = t.ast
        if m.entry_ids is None:
            return None
        for alt in [e] + expand(prog, move, e):
            if _contains_meet(alt, m.failed, m.entry_ids):
                return "tested value includes (failed & entry_ids)"
        if isinstance(e, ast.Name):
            for d in scope_of(move).get(e.id):
                if d.kind == "aug" and isinstance(d.node.op, ast.BitOr) and _contains_meet(d.value, m.failed, m.entry_ids):
                    aug_nodes = [x for x in g.nodes.values() if x.ast is d.node]
                    # the merge may be skipped only when nothing has failed so far (`if failed_ids:` around it)
                    def nothing_failed(a, lab, b):
                        e_ = a.ast
                        if a.kind != "test":
                            return False
                        return (isinstance(e_, ast.Name) and e_.id == m.failed and lab == "F") or (norm(e_) == f"not {m.failed}" and lab == "T")

                    if aug_nodes and avoiding_path(g, t.id, lambda n: n.id == aug_nodes[0].id, start=m.head.id, stop_edge=nothing_failed) is None:
                        return "earlier failures are merged into the tested set before the test"
            # v.update(failed & entry_ids) dominating the test
            for x in m.body:
                for c in calls_at(x):
                    if is_method_call(c, "update") and norm(c.func.value) == e.id and c.args and _contains_meet(c.args[0], m.failed, m.entry_ids):
                        if avoiding_path(g, t.id, lambda n: n.id == x.id, start=m.head.id) is None:
                            return "earlier failures are merged into the tested set before the test"
        return None

    def lit_no_earlier_fail(t, lab) -> bool:
        if t.kind != "test" or lab != "F":
            return False
        if m.entry_ids and any(_contains_meet(alt, m.failed, m.entry_ids) for alt in [t.ast] + expand(prog, move, t.ast)):
            return True
        return bool(is_files_result(t.ast) and covers_earlier_failures(t))

    for d, c in m.dir_add:
        for rule, name, lit in (
            ("C04.guard", "this directory's files were added without failure", lit_no_fail),
            ("C04.guard", "no listed file is missing on both sides", lit_no_missing),
            ("C04.allfiles", "no listed file failed under an earlier directory (failed_ids & entry_ids empty)", lit_no_earlier_fail),
        ):
            wit = cut(g, [d.id], lit, start=m.head.id)
            ck.require(wit is None, rule, move, d,
                       f"directory add lies across '{name}'",
                       f"the directory object can be sent without '{name}'",
                       witness=g.fmt_path(wit) if wit else None,
                       construct=f"{d.text()} / {name}")

    check_oneshot(ck, "C04.guard", [move])
    success_edge = reported_rule(ck, m, "C04.reported")

    # -------------------------------------------------------------- onerror
    _check_adder(ck, m, "C04.onerror")
    from .C11 import _verify_reported

    _verify_reported(ck, "C04.onerror")

    # ---------------------------------------------------------------- index
    _check_index(ck, m, success_edge)

    # ----------------------------------------------------------------- push
    _check_closed_requests(ck, "C04.push")
    from .generic_lints import run_all as _lints

    _lints(ck, "C04.aliasing", "hashfile.transfer")
    from .transfer_common import check_claimed_attempted, check_missing_readonly

    n_claim = check_claimed_attempted(ck, m, "C04.allfiles")
    if any(m.head.id in x.loops for x, _c in m.files_add):
        # (when the per-directory body lives in a helper that was not inlined there is nothing to anchor on here)
        ck.floor("C04.allfiles", n_claim, 1, "pool-claiming statements in the per-directory loop")
    check_missing_readonly(ck, m, "C04.guard")
    from . import round7 as _r7

    _r7.collect_every_entry(ck, "C04.push")
    _r7.on_error_names_oid(ck, "C04.onerror")
    from . import round4 as _r4

    _r4.hashinfo_identity(ck, "C04.guard")



def reported_rule(ck: Checker, m: TransferModel, rule: str):
    """An iteration that does not successfully send the directory object records it as failed."""
    prog = ck.prog
    g, move = m.g, m.move
    # ------------------------------------------------------------- reported
    loopvar = m.head.ast.target.id if isinstance(m.head.ast.target, ast.Name) else "?"
    rec_nodes = set()
    for x in m.body:
        for c in calls_at(x):
            if is_method_call(c, "add", "update") and norm(c.func.value) == m.failed and c.args:
                if is_dir_ident(ck, m, c.args[0]):
                    rec_nodes.add(x.id)
    dir_calls = [norm(c) for _n, c in m.dir_add]

    def success_edge(n, lab, dn) -> bool:
        if lab == "exc":
            return True
        if n.kind == "test" and lab == "F":
            return refers_to_call(move, n.ast, [c for _n, c in m.dir_add])
        return False

    starts = [dd for lab, dd in m.head.succ if lab == "T"]
    reached = g.reach(starts, skip_node=lambda n: n.id in rec_nodes, skip_edge=success_edge)
    bad = m.head.id in reached
    ck.require(not bad, rule, move, m.head,
               "every iteration that does not successfully send the directory object records it as failed",
               "an iteration can end with the directory object neither sent nor recorded in the failure set (it would be reported as transferred)",
               witness=g.fmt_path(g.path_to(reached, m.head.id)) if bad else None,
               construct=f"for {loopvar} in ... / withheld => failed")

    return success_edge


def _check_adder(ck: Checker, m: TransferModel, rule: str) -> None:
    prog, res = ck.prog, ck.res
    adder = m.adder
    ga = ck.cfg(adder)
    rets = {norm(r.value) for r in walk_own(adder.node) if isinstance(r, ast.Return) and r.value is not None}
    dest_adds = [(x, c) for x in ga.nodes.values() for c in calls_at(x) if is_method_call(c, "add") and isinstance(c.func.value, ast.Name) and adder.has_param(c.func.value.id) and "HashFileDB" in (adder.param_annotation(c.func.value.id) or "")]
    ck.floor(rule, len(dest_adds), 1, "destination add calls in the adding helper")
    for x, c in dest_adds:
        oe = next((k.value for k in c.keywords if k.arg == "on_error"), None)
        cb = None
        self_map = {}  # `self.<attr>` inside a callable-class callback  ->  `<var>.<attr>` in the helper
        if isinstance(oe, ast.Name):
            ent = prog.lookup_name(adder, oe.id)
            if isinstance(ent, Func):
                cb = ent
            else:
                # an instance of a small callable class:  on_error = _Collector(src)
                ds = [d for d in scope_of(adder).get(oe.id) if d.kind in ("assign", "annassign") and isinstance(d.value, ast.Call) and isinstance(d.value.func, ast.Name)]
                if len(ds) == 1:
                    ci = adder.module.classes.get(ds[0].value.func.id)
                    if ci is not None and "__call__" in ci.methods:
                        cb = ci.methods["__call__"]
                        self_map = {"self": oe.id}
        if cb is None:
            ck.fail(rule, adder, x, "destination add is called without an on_error callback that records failures; a failed upload would go unnoticed")
            continue
        gc_ = ck.cfg(cb)
        def outer_name(e) -> str:
            t = norm(e)
            for k_, v_ in self_map.items():
                if t == k_ or t.startswith(k_ + "."):
                    return v_ + t[len(k_):]
            return t

        rec = [n.id for n in gc_.nodes.values() for c2 in calls_at(n) if is_method_call(c2, "add", "update") and outer_name(c2.func.value) in rets]
        reached = gc_.reach([gc_.entry], skip_node=lambda n: n.id in rec, skip_edge=lambda a, l, b: l == "exc")
        bad = gc_.exit in reached
        ck.require(bool(rec) and not bad, rule, cb, cb.node,
                   "the error callback records the failed object in the returned failure set on every normal path",
                   "the error callback can return without recording the failed object (the upload failure would be silently dropped and the directory object sent)",
                   witness=gc_.fmt_path(gc_.path_to(reached, gc_.exit)) if bad else None,
                   construct=f"def {cb.name} / records failure")
        # recorded value is built from the callback's oid parameter
        for n in gc_.nodes.values():
            for c2 in calls_at(n):
                if is_method_call(c2, "add") and outer_name(c2.func.value) in rets and c2.args:
                    nm = names(c2.args[0])
                    okv = any(cb.has_param(p) for p in nm)
                    ck.require(okv, rule, cb, n, "recorded failure names the failing oid", "recorded failure is not derived from the failing oid")
                    # ... in the identity the caller asked with: HashInfo(<source store>.hash_name, oid) (the requested
                    # ids are compared with the failures by equality, which includes the algorithm name)
                    dparam = c.func.value.id
                    v = c2.args[0]
                    alts = [v] + expand1(prog, cb, v, levels=2)
                    okid = False
                    for alt in alts:
                        if isinstance(alt, ast.Call) and call_name(alt) == "HashInfo":
                            a_n, a_v = get_arg(alt, None, "name", 0), get_arg(alt, None, "value", 1)
                            if a_n is not None and a_v is not None and isinstance(a_v, ast.Name) and cb.has_param(a_v.id):
                                nn = norm(a_n)
                                okid = okid or (nn.endswith(".hash_name") and dparam not in names(a_n))
                        if isinstance(alt, ast.Subscript) and isinstance(alt.slice, ast.Name) and cb.has_param(alt.slice.id) and isinstance(alt.value, ast.Name):
                            okid = True  # looked up in a table of the requested ids
                    ck.require(okid, rule, cb, n, "a failure is recorded under the requested identity HashInfo(source.hash_name, oid)",
                               f"the failure is recorded as `{norm(v)[:60]}`, not as HashInfo(<source>.hash_name, oid): when source and destination use different algorithm names (md5-dos2unix -> md5) the recorded id equals none of the requested ids, so objects that never arrived are reported as transferred",
                               construct=f"{norm(c2)[:60]} / identity")
    # the failure set returned is the one the callback fills, and adds happen for every fs group
    nonempty = {r for r in rets if r not in ("set()", "frozenset()")}
    ck.require(len(nonempty) == 1, rule, adder, adder.node, "helper returns one failure set (or a fresh empty set when there is nothing to do)", f"helper returns several different values: {sorted(rets)}", construct="returns")


def _check_index(ck: Checker, m: TransferModel, success_edge) -> None:
    prog = ck.prog
    g, move = m.g, m.move
    ups = [(x, c) for x in g.nodes.values() for c in calls_at(x) if is_method_call(c, "update") and norm(c.func.value) == "dest_index"]
    ck.floor("C04.index", len(ups), 1, "dest_index.update sites")

    def nothing_failed(t, lab):
        return t.kind == "test" and isinstance(t.ast, ast.Name) and t.ast.id == m.failed and lab == "F"

    for x, c in ups:
        wit = cut(g, [x.id], nothing_failed)
        ck.require(wit is None, "C04.index", move, x,
                   "remote index is updated only when the failure set is empty",
                   "remote index can be updated although some object failed to transfer",
                   witness=g.fmt_path(wit) if wit else None)
        # first arg: [<d>.hash_info.value] for d drawn from the success list; second: d's own listing
        a0 = c.args[0] if c.args else None
        a1 = c.args[1] if len(c.args) > 1 else None
        ok = False
        if a0 is not None and a1 is not None and x.loops:
            h = g.nodes[x.loops[-1]]
            if h.kind == "for" and isinstance(h.ast.target, ast.Name) and isinstance(h.ast.iter, ast.Name) and h.ast.iter.id == m.success_list:
                lv = h.ast.target.id
                a0ok = any(norm(z) in (f"[{lv}.hash_info.value]", f"[{lv}.oid]") for z in [a0] + expand1(prog, move, a0, levels=3))
                a1ok = False
                for alt in expand(prog, move, a1):
                    if isinstance(alt, (ast.SetComp, ast.ListComp, ast.GeneratorExp)):
                        gen = alt.generators[0]
                        if norm(gen.iter) == lv and not gen.ifs and norm(alt.elt).endswith(".value"):
                            a1ok = True
                if isinstance(a1, ast.Name):
                    from ..an import collection_builds

                    for b in collection_builds(g, move.node, a1.id):
                        if norm(b.src) == lv and b.unconditional and norm(b.elt).endswith(".value") and h.id in b.node.loops:
                            a1ok = True
                ok = a0ok and a1ok
            elif h.kind == "for" and isinstance(h.ast.target, ast.Tuple) and len(h.ast.target.elts) == 2 and all(isinstance(e_, ast.Name) for e_ in h.ast.target.elts) \
                    and isinstance(h.ast.iter, ast.Name) and h.ast.iter.id == m.success_list:
                # the success list holds pairs (directory, its entry ids computed once): `for d, ids in done: update([d...], {i.value for i in ids})`
                from ..prov import scope_of as _scope_of

                lv, idsv = h.ast.target.elts[0].id, h.ast.target.elts[1].id
                apps = [c2 for n_ in g.nodes.values() for c2 in calls_at(n_) if is_method_call(c2, "append") and norm(c2.func.value) == m.success_list]
                pair_ok = bool(apps)
                for c2 in apps:
                    v = c2.args[0] if c2.args else None
                    if not (isinstance(v, ast.Tuple) and len(v.elts) == 2 and isinstance(v.elts[1], ast.Name)):
                        pair_ok = False
                        continue
                    ds_ = [d_ for d_ in _scope_of(move).get(v.elts[1].id) if d_.kind in ("assign", "annassign")]
                    sc = ds_[0].value if len(ds_) == 1 else None
                    pair_ok = pair_ok and isinstance(sc, ast.SetComp) and len(sc.generators) == 1 and not sc.generators[0].ifs and norm(sc.generators[0].iter) == norm(v.elts[0]) \
                        and isinstance(sc.generators[0].target, ast.Tuple) and isinstance(sc.elt, ast.Name) and norm(sc.generators[0].target.elts[-1]) == sc.elt.id
                a0ok = any(norm(z) in (f"[{lv}.hash_info.value]", f"[{lv}.oid]") for z in [a0] + expand1(prog, move, a0, levels=3))
                a1ok = False
                for alt in expand(prog, move, a1):
                    if isinstance(alt, (ast.SetComp, ast.ListComp, ast.GeneratorExp)):
                        gen = alt.generators[0]
                        if norm(gen.iter) == idsv and not gen.ifs and len(alt.generators) == 1 and norm(alt.elt) == f"{norm(gen.target)}.value":
                            a1ok = True
                ok = pair_ok and a0ok and a1ok
        ck.require(ok, "C04.index", move, x,
                   "indexed directory comes from the success list and the indexed files are that same directory's listing",
                   f"dest_index.update({norm(a0) if a0 is not None else ''}, {norm(a1) if a1 is not None else ''}) does not pair a successfully sent directory with its own complete listing",
                   construct=f"{x.text()} / pairing")
    # success list appended only on the success edge of the directory add
    apps = [(x, c) for x in m.body for c in calls_at(x) if m.success_list and is_method_call(c, "append") and norm(c.func.value) == m.success_list]
    ck.floor("C04.index", len(apps), 1, "success-list append sites")
    for x, c in apps:
        def only_success(t, lab):
            return success_edge(t, lab, None) and lab != "exc"

        wit = cut(g, [x.id], only_success, start=m.head.id)
        ck.require(wit is None, "C04.index", move, x,
                   "a directory enters the success list only after its object was sent without failure",
                   "a directory can enter the success list (and later the remote index) without its object having been sent successfully",
                   witness=g.fmt_path(wit) if wit else None)
    # failure path clears the source index
    clears = [x.id for x in g.nodes.values() for c in calls_at(x) if is_method_call(c, "clear") and norm(c.func.value) == "src_index"]
    tests = [t for t in g.nodes.values() if t.kind == "test" and isinstance(t.ast, ast.Name) and t.ast.id == m.failed and not t.loops]
    ck.floor("C04.index", len(tests), 1, "tests of the cumulative failure set after the loop")
    for t in tests:
        starts = [d for lab, d in t.succ if lab == "T"]

        def skip(n, lab, d):
            return lab == "exc" or (n.kind == "test" and isinstance(n.ast, ast.Name) and n.ast.id == "src_index" and lab == "F")

        reached = g.reach(starts, skip_node=lambda n: n.id in clears, skip_edge=skip)
        bad = g.exit in reached
        ck.require(not bad, "C04.index", move, t,
                   "when something failed and a source index is in use it is cleared before returning",
                   "a failed transfer can return without clearing the (now unreliable) source index",
                   witness=g.fmt_path(g.path_to(reached, g.exit)) if bad else None,
                   construct=f"if {m.failed}: ... src_index.clear()")


def _request_builds(ck: Checker, fn: Func, g, at, arg: ast.expr, depth: int = 2):
    """How is the request list built?  -> [(Build, owner function, {helper param: caller expression})]"""
    from ..an import collection_builds, comp_build

    out = []
    for alt in [arg] + expand(ck.prog, fn, arg):
        b = comp_build(alt, at)
        if b is not None:
            out.append((b, fn, {}))
        elif isinstance(alt, ast.Name):
            out += [(b2, fn, {}) for b2 in collection_builds(g, fn.node, alt.id)]
        elif isinstance(alt, ast.Call) and depth > 0:
            for cal in ck.res.resolve(fn, alt):
                if cal.module.trusted or cal.is_method:
                    continue
                gh = ck.cfg(cal)
                binding = {p_: a_ for p_ in cal.params for a_ in [get_arg(alt, cal, p_)] if a_ is not None}
                for r in walk_own(cal.node):
                    if isinstance(r, ast.Return) and r.value is not None:
                        rn = next((n_ for n_ in gh.nodes.values() if n_.ast is r), None)
                        for b2, owner, _bind in _request_builds(ck, cal, gh, rn, r.value, depth - 1):
                            out.append((b2, owner, binding))
    return out


def _check_closed_requests(ck: Checker, rule: str) -> None:
    prog, res = ck.prog, ck.res
    n = 0
    for modname, fname in (("index.push", "push"), ("index.fetch", "fetch")):
        fn = ck.func(modname, fname)
        g = ck.cfg(fn)
        for c, callees in res.calls_in(fn):
            if not any(cal.fq.endswith("hashfile.transfer:transfer") for cal in callees):
                continue
            n += 1
            arg = get_arg(c, callees[0], "obj_ids", pos=2)
            ok, why = False, "no obj_ids argument"
            if arg is not None:
                at = next((x for x in g.nodes.values() if any(c2 is c for c2 in calls_at(x))), None)
                builds = _request_builds(ck, fn, g, at, arg)
                why = norm(arg) if not builds else why
                for b, owner, binding in builds:
                    it = b.src
                    elt = norm(b.elt)
                    why = f"{elt} for ... in {norm(it)}" + (f" if {[norm(i) for i in b.ifs]}" if b.ifs else "")
                    whole = isinstance(it, ast.Call) and is_method_call(it, "iteritems", "items") and not it.args and not it.keywords and isinstance(it.func.value, ast.Name)
                    if whole:
                        idx = it.func.value.id
                        if owner is fn:
                            # the iterated index must be the loop variable of `for fs_index in idxs`
                            whole = any(d.kind == "for" for d in scope_of(fn).get(idx))
                        else:
                            src_arg = binding.get(idx)
                            whole = src_arg is not None and isinstance(src_arg, ast.Name) and any(d.kind == "for" for d in scope_of(fn).get(src_arg.id))
                    filt_ok = all(norm(i) == elt for i in b.ifs)
                    if whole and elt.endswith(".hash_info") and filt_ok:
                        ok = True
                        break
            ck.require(ok, rule, fn, c,
                       "the request lists the hash of every hashed entry of the whole index",
                       f"the transfer request is not the complete list of hashed entries of the index ({why}); files missing from the request are never checked, so their directory object can be sent without them",
                       construct=f"transfer(..., obj_ids=...) in {fname}")
    ck.floor(rule, n, 2, "transfer() call sites in index push/fetch")
