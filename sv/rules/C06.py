"""C06 - Garbage collection removes exactly the unused objects and never a used one."""
from __future__ import annotations

import ast
from typing import List, Optional, Set

from ..an import avoiding_path, cut, flows_from_calls, is_method_call
from ..cfg import calls_at, node_exprs
from ..core import Checker
from ..effects import destructive_kind
from ..loader import AnalysisError, Func, norm, parent, walk_expr, walk_own
from ..prov import ELEM, ITEM, attr_chain, call_name, expand, get_arg, is_marker, scope_of
from .generic_lints import run_all as _lints


def tree_iter_arity(ck: Checker) -> int:
    """Arity of the tuples yielded by Tree.__iter__, read from its source."""
    tree = ck.prog.cls("hashfile.tree", "Tree")
    it = tree.methods.get("__iter__")
    if it is None:
        raise AnalysisError("Tree.__iter__ vanished")
    ar: Set[int] = set()
    for n in walk_own(it.node):
        if isinstance(n, ast.YieldFrom) and isinstance(n.value, (ast.GeneratorExp, ast.ListComp)):
            if isinstance(n.value.elt, ast.Tuple):
                ar.add(len(n.value.elt.elts))
        elif isinstance(n, ast.Yield) and isinstance(n.value, ast.Tuple):
            ar.add(len(n.value.elts))
    if len(ar) != 1:
        raise AnalysisError(f"cannot read the arity of Tree.__iter__ (found {sorted(ar)})")
    return ar.pop()


def is_tree_ctor(v: ast.AST) -> bool:
    if isinstance(v, ast.Call) and isinstance(v.func, ast.Attribute):
        if isinstance(v.func.value, ast.Name) and v.func.value.id == "Tree" and v.func.attr in ("load", "from_list", "from_trie"):
            return True
    return isinstance(v, ast.Call) and isinstance(v.func, ast.Name) and v.func.id == "Tree"


def is_tree_expr(e: ast.AST, tnames) -> bool:
    return (isinstance(e, ast.Name) and e.id in tnames) or is_tree_ctor(e)


def tree_typed_names(ck: Checker, fn: Func) -> Set[str]:
    out = set()
    for name, defs in scope_of(fn).defs.items():
        for d in defs:
            if d.kind in ("assign", "walrus") and d.value is not None and is_tree_ctor(d.value):
                out.add(name)
    for p in fn.params:
        ann = fn.param_annotation(p) or ""
        if ann.strip('"') in ("Tree", "Optional[Tree]"):
            out.add(p)
    return out


def iteration_sites(fn: Func):
    """(target, iter expr, node) for every for-loop and comprehension generator in fn."""
    for n in walk_own(fn.node):
        if isinstance(n, (ast.For, ast.AsyncFor)):
            yield n.target, n.iter, n
        elif isinstance(n, (ast.ListComp, ast.SetComp, ast.GeneratorExp, ast.DictComp)):
            for g in n.generators:
                yield g.target, g.iter, n


def check_arity(ck: Checker, fns: List[Func], rule: str, floor_min: int) -> int:
    ar = tree_iter_arity(ck)
    n_sites = 0
    for fn in fns:
        tnames = tree_typed_names(ck, fn)
        for target, it, node in iteration_sites(fn):
            if is_tree_expr(it, tnames):
                n_sites += 1
                if isinstance(target, (ast.Tuple, ast.List)):
                    k = len(target.elts)
                    starred = any(isinstance(e, ast.Starred) for e in target.elts)
                    ck.require(k == ar or (starred and k - 1 <= ar), rule, fn, node,
                               f"iteration over Tree `{norm(it)}` unpacks {k} values = arity of Tree.__iter__",
                               f"iteration over Tree `{norm(it)}` unpacks {k} values but Tree.__iter__ yields {ar}-tuples (ValueError at run time)",
                               construct=f"for {norm(target)} in {norm(it)}")
                else:
                    ck.ok(rule, fn, node, f"iteration over Tree `{norm(it)}` binds the whole {ar}-tuple", construct=f"for {norm(target)} in {norm(it)}")
    return n_sites


def _param_unassigned(fn: Func, name: str) -> bool:
    return fn.has_param(name) and not [d for d in scope_of(fn).get(name) if d.kind != "param"]


def check(ck: Checker) -> None:
    _lints(ck, "C06.aliasing", "hashfile.gc")
    prog, res = ck.prog, ck.res
    ck.decided = [
        "C06.arity: every iteration over a Tree in gc unpacks as many values as Tree.__iter__ yields",
        "C06.used: paths are queued for removal only across 'hash not in used set'; the used set receives every element of `used` with the store's hash name, and (expanding) every file of every used directory; `used` is consumed once",
        "C06.dry: every filesystem-destructive effect reachable from gc lies across 'dry is false'",
        "C06.readonly: the read_only test on the collected store dominates listing, tree loading and removal, and its true edge only raises",
        "C06.count: the returned count accumulates len() of exactly the lists handed to removal, independent of dry",
    ]
    ck.not_decided = ["that odb.all() enumerates every object", "that fs.remove removes what it is given", "equality of the removed set with the set difference at run time"]
    ck.trusted = ["HashFileDB.all lists the store", "fs.remove(list) removes exactly the listed paths"]

    gc = ck.func("hashfile.gc", "gc")
    g = ck.cfg(gc)
    slice_ = [gc] + list(gc.children.values())

    # ---------------------------------------------------------------- arity
    n = check_arity(ck, slice_, "C06.arity", 1)
    # the listing of a used directory comes from the strict loader (a directory that cannot be read must stop gc:
    # treating it as "lists nothing" would delete every file it protects)
    loads = [c for f in slice_ for c in walk_own(f.node) if isinstance(c, ast.Call) and norm(c.func) in ("Tree.load",)]
    tolerant = [c for f in slice_ for c in walk_own(f.node) if isinstance(c, ast.Call) and (call_name(c) or "").lstrip("_") in ("try_load",)]
    for c in tolerant:
        ck.fail("C06.used", gc, c, f"`{norm(c)[:60]}` loads a used directory with the tolerant loader (None on a missing / corrupt object): the directory then protects none of its files and gc deletes them all instead of stopping", construct=f"{norm(c)[:50]} / strict load")
    if not tolerant:
        ck.floor("C06.arity", n, 1, "Tree iteration sites in gc")
    ck.floor("C06.used", len(loads) + len(tolerant), 1, "tree loads in gc")

    # ------------------------------------------------------- removal sinks
    # direct destructive calls + calls into repository methods that destroy
    destr = []  # (node, call, description)
    for nd in g.nodes.values():
        for c in calls_at(nd):
            k = destructive_kind(prog, gc, c)
            if k:
                destr.append((nd, c, k))
                continue
            for cal in res.resolve_loose(gc, c):
                if cal.module.trusted or cal.fq == gc.fq:
                    continue
                inner = [destructive_kind(prog, cal, c2) for c2, _ in res.calls_in(cal)]
                inner = [x for x in inner if x]
                if inner:
                    destr.append((nd, c, f"{norm(c.func)} -> {cal.qual} -> {inner[0]}"))
                    break
    ck.floor("C06.dry", len(destr), 1, "destructive effects reachable from gc")

    def dry_false(t, lab):
        return t.kind == "test" and lab == "F" and isinstance(t.ast, ast.Name) and t.ast.id == "dry" and _param_unassigned(gc, "dry")

    for nd, c, k in destr:
        wit = cut(g, [nd.id], dry_false)
        ck.require(wit is None, "C06.dry", gc, nd,
                   f"destructive effect {k} lies across 'dry is false'",
                   f"destructive effect {k} is reachable in a dry run",
                   witness=g.fmt_path(wit) if wit else None)

    # ------------------------------------------------------------ readonly
    ro_tests = [t for t in g.nodes.values() if t.kind == "test" and isinstance(t.ast, ast.Attribute) and t.ast.attr == "read_only"]
    # the store whose objects are removed: root name of the removal receivers / listing
    store_roots = set()
    for nd, c, k in destr:
        ch = attr_chain(c.func)
        if ch:
            store_roots.add(ch[0])
    listing = [(nd, c) for nd in g.nodes.values() for c in calls_at(nd) if is_method_call(c, "all", "_list_oids", "list_oids", "_list_paths")]
    for nd, c in listing:
        ch = attr_chain(c.func)
        if ch:
            store_roots.add(ch[0])
    good_tests = [t for t in ro_tests if isinstance(t.ast.value, ast.Name) and t.ast.value.id in store_roots and _param_unassigned(gc, t.ast.value.id)]
    if not good_tests:
        ck.fail("C06.readonly", gc, ro_tests[0] if ro_tests else gc.node,
                f"gc does not test read_only on the store it collects ({', '.join(sorted(store_roots)) or '?'})"
                + (f"; it tests {norm(ro_tests[0].ast)} instead" if ro_tests else ""))
    else:
        t = good_tests[0]
        # true edge reaches only raise
        reached = g.reach([d for lab, d in t.succ if lab == "T"])
        ck.require(g.exit not in reached, "C06.readonly", gc, t,
                   "read-only store: every continuation raises",
                   "a read-only store can pass the refusal and reach a normal return / the collection code")
        effect_nodes = [nd for nd, _c, _k in destr] + [nd for nd, _c in listing]
        for nd in g.nodes.values():
            for c in calls_at(nd):
                if isinstance(c.func, ast.Attribute) and norm(c.func) in ("Tree.load",):
                    effect_nodes.append(nd)
        for nd in {e.id: e for e in effect_nodes}.values():
            wit = avoiding_path(g, nd.id, lambda x: x.id == t.id)
            wit2 = None
            if wit is None:
                # must come through the F edge: T edge must not reach it
                r = g.reach([d for lab, d in t.succ if lab == "T"])
                wit2 = nd.id in r
            ck.require(wit is None and not wit2, "C06.readonly", gc, nd,
                       "dominated by the read-only refusal",
                       "effectful statement can run before / despite the read-only refusal",
                       witness=g.fmt_path(wit) if wit else None, construct=f"{nd.text()} / after read_only test")

    # the listing and the removal concern the same store object
    rm_roots = {attr_chain(c.func)[0] for nd, c, k in destr if attr_chain(c.func)}
    for nd, c in listing:
        ch = attr_chain(c.func)
        ck.require(bool(ch) and ch[0] in rm_roots and _param_unassigned(gc, ch[0]), "C06.used", gc, nd,
                   "the objects listed are those of the store that is collected",
                   f"the store that is listed ({ch[0] if ch else '?'}) is not the (un-reassigned) store whose objects are removed ({sorted(rm_roots)}): unused objects of the collected store are never seen", construct=f"{norm(c)} / listed store")
    # read_only reaches the base class
    init = ck.prog.func("hashfile.db", "HashFileDB.__init__")
    sup = [c for c in walk_own(init.node) if isinstance(c, ast.Call) and isinstance(c.func, ast.Attribute) and c.func.attr == "__init__" and norm(c.func.value).startswith("super(")]
    okro = any(any(k.arg == "read_only" and norm(k.value) == "read_only" for k in c.keywords) or (len(c.args) >= 3 and norm(c.args[2]) == "read_only") for c in sup)
    ck.require(okro and init.has_param("read_only"), "C06.readonly", init, sup[0] if sup else init.node,
               "the read_only constructor argument is forwarded to the object store base class",
               "HashFileDB.__init__ does not forward read_only to ObjectDB: a store opened read-only reports read_only=False and gc accepts it")
    from . import round10 as _r10

    _r10.local_init_forwards_options(ck, "C06.readonly")

    # ---------------------------------------------------------------- used
    # lists handed to removal
    removal_lists: Set[str] = set()
    for nd, c, k in destr:
        for a in c.args:
            for alt in expand(prog, gc, a):
                for x in walk_expr(alt):
                    if isinstance(x, ast.Name):
                        removal_lists.add(x.id)
    listing_calls = [x for x in walk_own(gc.node) if isinstance(x, ast.Call) and is_method_call(x, "all", "_list_oids", "list_oids")]
    listing_loops = [h for h in g.nodes.values() if h.kind == "for" and flows_from_calls(g, h, h.ast.iter, listing_calls)]
    ck.floor("C06.used", len(listing_loops), 1, "loops over the store listing")
    for head in listing_loops:
        lv = head.ast.target.id if isinstance(head.ast.target, ast.Name) else None
        body = [x for x in g.nodes.values() if head.id in x.loops and x.id != head.id]
        # used-set name: right operand of the membership test on the loop variable
        used_sets = set()
        for t in body:
            e = t.ast
            if t.kind == "test" and isinstance(e, ast.Compare) and len(e.ops) == 1 and isinstance(e.ops[0], (ast.In, ast.NotIn)):
                if isinstance(e.left, ast.Name) and e.left.id == lv and isinstance(e.comparators[0], ast.Name):
                    used_sets.add(e.comparators[0].id)

        def not_used(t, lab):
            e = t.ast
            if not (t.kind == "test" and isinstance(e, ast.Compare) and len(e.ops) == 1):
                return False
            if not (isinstance(e.left, ast.Name) and e.left.id == lv and isinstance(e.comparators[0], ast.Name) and e.comparators[0].id in used_sets):
                return False
            return (isinstance(e.ops[0], ast.In) and lab == "F") or (isinstance(e.ops[0], ast.NotIn) and lab == "T")

        sinks = []
        for x in body:
            for c in calls_at(x):
                if is_method_call(c, "append", "add", "extend", "insert") and isinstance(c.func.value, ast.Name) and c.func.value.id in removal_lists:
                    sinks.append((x, c))
                elif destructive_kind(prog, gc, c) or any(nd.id == x.id for nd, _c, _k in destr):
                    sinks.append((x, c))
        ck.floor("C06.used", len([s for s in sinks if is_method_call(s[1], "append", "add", "extend", "insert")]), 1, "queue-for-removal sites")
        seen_ids = set()
        for x, c in sinks:
            if (x.id, norm(c)) in seen_ids:
                continue
            seen_ids.add((x.id, norm(c)))
            wit = cut(g, [x.id], not_used, start=head.id)
            ck.require(wit is None, "C06.used", gc, x,
                       "reached only for hashes that are not in the used set",
                       "an object can be queued for removal / removed without having been tested against the used set",
                       witness=g.fmt_path(wit) if wit else None, construct=f"{norm(c)} / not-used guard")
            # path queued derives from the listed hash itself
            if is_method_call(c, "append", "add") and c.args:
                okp = False
                for alt in expand(prog, gc, c.args[0]):
                    if isinstance(alt, ast.Call) and is_method_call(alt, "oid_to_path") and alt.args:
                        for a2 in expand(prog, gc, alt.args[0]):
                            if is_marker(a2, ELEM):
                                okp = True
                ck.require(okp, "C06.used", gc, x,
                           "queued path is odb.oid_to_path(<listed hash>)",
                           f"queued path {norm(c.args[0])} is not the store path of the hash that was tested",
                           construct=f"{norm(c)} / provenance")
        # the used set is filled from `used`
        for us in used_sets:
            _check_used_fill(ck, gc, g, us)
        if not used_sets:
            ck.fail("C06.used", gc, head, "no membership test of the listed hash against a used set inside the collection loop")

    # ---------------------------------------------------- single consumption
    loads = [x for x in walk_own(gc.node) if isinstance(x, ast.Name) and x.id == "used" and isinstance(x.ctx, ast.Load)]
    rebind = [d for d in scope_of(gc).get("used") if d.kind == "assign" and isinstance(d.value, ast.Call) and call_name(d.value) in ("list", "set", "tuple", "frozenset", "sorted")]
    ck.require(len(loads) <= 1 or bool(rebind), "C06.used", gc, loads[1] if len(loads) > 1 else gc.node,
               "`used` (an Iterable, possibly one-shot) is consumed once",
               f"`used` is an Iterable and is consumed {len(loads)} times: with a generator the second pass sees nothing, so used entries are not protected",
               construct="consumptions of parameter `used`")

    # ---------------------------------------------------------------- count
    _check_count(ck, gc, g, destr)
    from . import round4 as _r4

    _r4.hashinfo_from_dict_strict(ck, "C06.used")



def _name_mismatch_edge(n, lab) -> bool:
    """Edge taken when the element's hash algorithm is not the store's."""
    e = n.ast
    if n.kind == "test" and isinstance(e, ast.Compare) and len(e.ops) == 1:
        txt = norm(e)
        if ".name" in txt and "hash_name" in txt:
            return (isinstance(e.ops[0], ast.NotEq) and lab == "T") or (isinstance(e.ops[0], ast.Eq) and lab == "F")
    return False


def _check_used_fill(ck: Checker, gc: Func, g, us: str) -> None:
    prog = ck.prog
    from ..prov import alias_names

    al = alias_names(gc, us)
    loops = [h for h in g.nodes.values() if h.kind == "for" and isinstance(h.ast.iter, ast.Name) and h.ast.iter.id == "used"]
    filled = False
    # form B: us = {x.value for x in used if x.name == odb.hash_name}
    for d in [d0 for a_ in sorted(al) for d0 in scope_of(gc).get(a_)]:
        v = d.value
        if d.kind == "assign" and isinstance(v, ast.Call) and call_name(v) in ("set", "frozenset") and v.args:
            v = v.args[0]
        if d.kind == "assign" and isinstance(v, (ast.SetComp, ast.GeneratorExp, ast.ListComp)) and len(v.generators) == 1:
            gen = v.generators[0]
            if isinstance(gen.iter, ast.Name) and gen.iter.id == "used" and isinstance(gen.target, ast.Name):
                t = gen.target.id
                okf = norm(v.elt) == f"{t}.value" and all(
                    isinstance(i, ast.Compare) and ".name" in norm(i) and "hash_name" in norm(i) and isinstance(i.ops[0], ast.Eq) for i in gen.ifs)
                ck.require(okf, "C06.used", gc, d.node,
                           "used set is built from every element of `used` with the store's hash name",
                           f"used set comprehension drops or rewrites elements of `used`: {norm(v)}",
                           construct=f"{us} = <comprehension over used>")
                filled = True
    head = None
    adds = []
    for h in loops:
        lv = h.ast.target.id if isinstance(h.ast.target, ast.Name) else None
        body = [x for x in g.nodes.values() if h.id in x.loops and x.id != h.id]
        for x in body:
            for c in calls_at(x):
                if is_method_call(c, "add") and isinstance(c.func.value, ast.Name) and c.func.value.id in al and c.args and norm(c.args[0]) == f"{lv}.value":
                    adds.append(x)
                    head = h
    if adds:
        must = {a.id for a in adds}
        wit = None
        for lab, d in head.succ:
            if lab == "T":
                reached = g.reach([d], skip_node=lambda x: x.id in must, skip_edge=lambda n, l, dd: l == "exc" or _name_mismatch_edge(n, l))
                if head.id in reached and d not in must:
                    wit = g.path_to(reached, head.id)
        ck.require(wit is None, "C06.used", gc, head,
                   "every element of `used` with the store's hash name is added to the used set",
                   "an element of `used` can be skipped without being added to the used set",
                   witness=g.fmt_path(wit) if wit else None, construct="for hash_info in used / NODROP")
        filled = True
    if not filled:
        ck.fail("C06.used", gc, gc.node, f"cannot establish that the used set `{us}` receives every element of the `used` argument (neither an add-loop nor a set comprehension over `used`)")
        return

    # expansion: on the isdir & not shallow path the listed files are added
    tnames = tree_typed_names(ck, gc)
    ups = []  # (must-node, description, outer loop head)
    for x in g.nodes.values():
        if not x.loops:
            continue
        h = g.nodes[x.loops[0]]
        if not (h.kind == "for" and isinstance(h.ast.iter, ast.Name) and h.ast.iter.id == "used"):
            continue
        for c in calls_at(x):
            if is_method_call(c, "update") and isinstance(c.func.value, ast.Name) and c.func.value.id in al and c.args:
                arg = c.args[0]
                okv = False
                if isinstance(arg, (ast.GeneratorExp, ast.ListComp, ast.SetComp)) and is_tree_expr(arg.generators[0].iter, tnames):
                    tgt = arg.generators[0].target
                    if isinstance(tgt, ast.Tuple) and len(tgt.elts) >= 3 and isinstance(tgt.elts[-1], ast.Name):
                        okv = norm(arg.elt) == f"{tgt.elts[-1].id}.value" and not any(
                            g2.ifs and any(norm(i) != tgt.elts[-1].id for i in g2.ifs) for g2 in arg.generators)
                ck.require(okv, "C06.used", gc, x, "adds <hash_info>.value of every listed entry", f"expanding mode does not add `.value` of each listed entry's hash: {norm(arg)}", construct=f"{norm(c)} / values")
                ups.append((x, norm(c), h))
        if x.kind == "for" and len(x.loops) == 2 and is_tree_expr(x.ast.iter, tnames) and isinstance(x.ast.target, ast.Tuple) and len(x.ast.target.elts) >= 3:
            third = norm(x.ast.target.elts[-1])
            inner_adds = {y.id for y in g.nodes.values() if x.id in y.loops for c in calls_at(y)
                          if is_method_call(c, "add") and norm(c.func.value) in al and c.args and norm(c.args[0]) == f"{third}.value"}
            if inner_adds:
                rr = g.reach([d for lab, d in x.succ if lab == "T"], skip_node=lambda y: y.id in inner_adds,
                             skip_edge=lambda a, l, b, third=third: l == "exc" or (a.kind == "test" and norm(a.ast) == third and l == "F"))
                ck.require(x.id not in rr, "C06.used", gc, x, "every listed entry with a hash is added to the used set", "a listed entry can be skipped without being added to the used set", construct=f"for ... in {norm(x.ast.iter)} / NODROP")
                ups.append((x, f"for ... in {norm(x.ast.iter)}: {us}.add({third}.value)", h))
    if not ups:
        ck.fail("C06.used", gc, gc.node, "expanding mode: files listed by a used directory are never added to the used set")
        return
    for x, desc, h in ups:
        def skip(n, lab, d):
            if lab == "exc" or _name_mismatch_edge(n, lab):
                return True
            if n.kind == "test" and norm(n.ast).endswith(".isdir") and lab == "F":
                return True
            if n.kind == "test" and isinstance(n.ast, ast.Name) and n.ast.id == "shallow" and lab == "T":
                return True
            e = n.ast
            if n.kind == "test" and isinstance(e, ast.Compare) and len(e.ops) == 1 and isinstance(e.ops[0], ast.In) and norm(e.comparators[0]) in al and lab == "F":
                return True
            return False

        starts = [d for lab, d in h.succ if lab == "T"]
        reached = g.reach(starts, skip_node=lambda y: y.id == x.id, skip_edge=skip)
        bad = h.id in reached and x.id not in starts
        ck.require(not bad, "C06.used", gc, x,
                   "for a used directory in expanding mode the listed files always reach the used set",
                   "a used directory can pass through expanding mode without its files being added to the used set",
                   witness=g.fmt_path(g.path_to(reached, h.id)) if bad else None,
                   construct=f"{desc} / FOLLOW(isdir & not shallow)")


def _check_count(ck: Checker, gc: Func, g, destr) -> None:
    """The number gc returns is the total length of the lists it hands to removal, whatever `dry` says.

    precision     every contribution to the returned counter is `len(L)` of a list handed to removal (or 0)
    completeness  from where a removal list is known (function entry / its loop head) no path reaches the exit (the next
                  iteration) without len(L) having been computed *and then* added - except across "L is empty"
    overwrite     a plain assignment to the counter never follows another contribution
    Return idioms: a counter variable; `len(A) + len(B)`; `sum(len(x) for x in COLL)` with every removal inside
    `for x in COLL`."""
    from ..an import reaches, reaching_defs as _rd

    rets = [x for x in walk_own(gc.node) if isinstance(x, ast.Return) and x.value is not None]
    appended = {norm(x.func.value) for x in walk_own(gc.node) if isinstance(x, ast.Call) and is_method_call(x, "append", "extend")}

    def lists_of(nd, name: str):
        """the list(s) a name stands for: a loop variable over a literal tuple of lists stands for each of them"""
        for hid in nd.loops:
            h_ = g.nodes[hid]
            if h_.kind == "for" and isinstance(h_.ast.target, ast.Name) and h_.ast.target.id == name and isinstance(h_.ast.iter, (ast.Tuple, ast.List)) and all(isinstance(e_, ast.Name) for e_ in h_.ast.iter.elts):
                return {e_.id for e_ in h_.ast.iter.elts}
        return {name}

    # removal sites of whole lists: (node, name of the removed list as written there)
    rm_sites = []
    for nd, c, _k in destr:
        if c.args and isinstance(c.args[0], ast.Name):
            nm = c.args[0].id
            co = _coll_of(g, nd, nm)
            co_lists = co is not None and any(isinstance(getattr(d, "value", None), (ast.Tuple, ast.List, ast.ListComp, ast.GeneratorExp)) and {x.id for x in walk_expr(d.value) if isinstance(x, ast.Name)} & appended for d in scope_of(gc).get(co))
            if lists_of(nd, nm) & appended or co_lists:
                rm_sites.append((nd, nm))

    # ---- idiom S: return sum(len(x) for x in COLL), removals inside `for x in COLL`
    def _sum_coll(e):
        if isinstance(e, ast.Call) and call_name(e) == "sum" and len(e.args) == 1 and isinstance(e.args[0], (ast.GeneratorExp, ast.ListComp)) and len(e.args[0].generators) == 1:
            ge = e.args[0].generators[0]
            if isinstance(ge.target, ast.Name) and norm(e.args[0].elt) == f"len({ge.target.id})" and isinstance(ge.iter, ast.Name) and all(norm(i_) == ge.target.id for i_ in ge.ifs):
                return ge.iter.id
        if isinstance(e, ast.Call) and call_name(e) == "sum" and len(e.args) == 1 and isinstance(e.args[0], ast.Call) and call_name(e.args[0]) == "map" and len(e.args[0].args) == 2 and norm(e.args[0].args[0]) == "len" and isinstance(e.args[0].args[1], ast.Name):
            return e.args[0].args[1].id
        return None

    names = {x.value.id for x in rets if isinstance(x.value, ast.Name)}
    sum_expr = None
    if len(rets) == 1 and not names:
        sum_expr = rets[0].value
    elif len(rets) == 1 and len(names) == 1:
        ds_ = [d for d in scope_of(gc).get(next(iter(names)))]
        if len(ds_) == 1 and ds_[0].kind == "assign" and _sum_coll(ds_[0].value) is not None:
            sum_expr = ds_[0].value
    if sum_expr is not None:
        coll = _sum_coll(sum_expr)
        if coll is not None:
            one_def = len([d for d in scope_of(gc).get(coll)]) == 1 and coll not in appended
            oks = bool(rm_sites) and one_def and all(_coll_of(g, nd, nm) == coll for nd, nm in rm_sites)
            # the collection holds every list that received paths (an empty one adds nothing)
            holds = set()
            for d in scope_of(gc).get(coll):
                v = getattr(d, "value", None)
                if isinstance(v, (ast.ListComp, ast.GeneratorExp)) and len(v.generators) == 1 and isinstance(v.generators[0].iter, (ast.Tuple, ast.List)) and isinstance(v.elt, ast.Name) and norm(v.elt) == norm(v.generators[0].target) and all(norm(i_) == norm(v.elt) for i_ in v.generators[0].ifs):
                    holds = {norm(e_) for e_ in v.generators[0].iter.elts}
                elif isinstance(v, (ast.Tuple, ast.List)):
                    holds = {norm(e_) for e_ in v.elts}
            ck.require(oks and holds == {a_ for a_ in appended if a_ != coll}, "C06.count", gc, rets[0],
                       "the count is the summed length of the very collection of lists that is iterated for removal",
                       f"`{norm(sum_expr)}` is not the summed length of exactly the lists handed to removal (collection `{coll}` holds {sorted(holds)}, lists filled: {sorted(appended)})")
            return
    if len(names) != 1 or len(rets) != len([r for r in rets if isinstance(r.value, ast.Name)]):
        ck.fail("C06.count", gc, rets[0] if rets else gc.node, "gc does not return a single accumulated counter")
        return
    cnt = names.pop()

    def _is_cnt(t):
        return isinstance(t, ast.Name) and t.id == cnt

    augs = [nd for nd in g.nodes.values() if nd.kind == "stmt" and isinstance(nd.ast, ast.AugAssign) and _is_cnt(nd.ast.target)]
    asgs = [nd for nd in g.nodes.values() if nd.kind == "stmt" and isinstance(nd.ast, ast.Assign) and len(nd.ast.targets) == 1 and _is_cnt(nd.ast.targets[0])]
    if not augs and len(asgs) == 1 and isinstance(asgs[0].ast.value, ast.BinOp):
        # alternative idiom: cnt = len(A) + len(B) over exactly the removal lists
        removed_all = set()
        for _nd, c, _k in destr:
            if c.args:
                removed_all |= {l_ for l_ in lists_of(_nd, norm(c.args[0])) if l_ in appended}
        lens = {norm(x.args[0]) for x in walk_expr(asgs[0].ast.value) if isinstance(x, ast.Call) and call_name(x) == "len" and x.args}
        if lens and lens == removed_all:
            ck.ok("C06.count", gc, asgs[0], "count is the sum of len() over exactly the lists handed to removal")
        else:
            ck.fail("C06.count", gc, gc.node, f"cannot establish that `{cnt}` counts exactly the lists handed to removal")
        return
    if not augs and not asgs:
        ck.fail("C06.count", gc, gc.node, f"cannot establish that `{cnt}` counts exactly the lists handed to removal")
        return

    def leaves(nd, e, depth=4):
        """[(defining node, non-name value)] for everything `e` can stand for at nd"""
        if not isinstance(e, ast.Name) or depth == 0:
            return [(nd, e)]
        out = []
        for d in _rd(g, nd.id, e.id):
            a = d.ast
            v = a.value if isinstance(a, (ast.Assign, ast.AnnAssign)) and getattr(a, "value", None) is not None else None
            if v is None:
                out.append((d, e))
            else:
                out += leaves(d, v, depth - 1)
        return out or [(nd, e)]

    def _len_of(v):
        return v.args[0].id if isinstance(v, ast.Call) and call_name(v) == "len" and len(v.args) == 1 and isinstance(v.args[0], ast.Name) else None

    contribs = augs + asgs
    len_defs = {}  # list name as written -> [(def node, contribution node)]
    for a in contribs:
        is_aug = isinstance(a.ast, ast.AugAssign)
        lvs = leaves(a, a.ast.value)
        removed = {nm for nd, nm in rm_sites if nd.loops[: len(a.loops)] == a.loops}
        okp = (not is_aug) or isinstance(a.ast.op, ast.Add)
        bad = None
        for d, v in lvs:
            ln = _len_of(v)
            if ln is not None:
                if ln in removed:
                    len_defs.setdefault(ln, []).append((d, a))
                else:
                    bad = v
            elif not (isinstance(v, ast.Constant) and v.value == 0 and not isinstance(v.value, bool)):
                bad = v
        shown = next((norm(v) for _d, v in lvs if _len_of(v)), norm(a.ast.value))
        ck.require(bool(okp and bad is None), "C06.count", gc, a,
                   f"counter grows by {shown} of the very list handed to removal",
                   f"counter update `{a.text()}` is not len() of the list that is removed ({', '.join(sorted(removed)) or 'none'}): contributes `{norm(bad) if bad is not None else a.text()}`")
    # overwrite: a plain assignment never follows another contribution
    for a in asgs:
        prior = [c_ for c_ in contribs if c_.id != a.id and reaches(g, c_.id, a.id, ignore_exc=True)]
        ck.require(not prior, "C06.count", gc, a, "the counter is (re)set only before anything was counted",
                   f"`{a.text()}` overwrites what `{prior[0].text() if prior else ''}` has counted", construct=f"{a.text()} / overwrite")
    # completeness, per removal site
    ck.floor("C06.count", len(rm_sites), 1, "removals of whole lists in gc")
    for nd, nm in rm_sites:
        pairs = len_defs.get(nm, [])
        loop = None
        for hid in reversed(nd.loops):
            if any(hid in a.loops for _d, a in pairs):
                loop = hid
                break
        if loop is not None:
            starts, target = [d for lab, d in g.nodes[loop].succ if lab == "T"], loop
        else:
            starts, target = [g.entry], g.exit

        def skip(a_, lab, b_, nm=nm):
            if lab == "exc":
                return True
            t = norm(a_.ast) if a_.kind == "test" and a_.ast is not None else None
            return (t == nm and lab == "F") or (t == f"not {nm}" and lab == "T")

        dn = {d.id for d, _a in pairs}
        an = {a.id for _d, a in pairs}
        r1 = g.reach(starts, skip_node=lambda x: x.id in dn, skip_edge=skip)
        miss = target in r1
        if not miss:
            for d, a in pairs:
                if d.id == a.id:
                    continue
                r2 = g.reach([x for _l, x in d.succ if _l != "exc"], skip_node=lambda x: x.id in an, skip_edge=skip)
                if target in r2:
                    miss = True
        ck.require(bool(pairs) and not miss, "C06.count", gc, nd,
                   f"whenever `{nm}` is handed to removal (or would be, in a dry run) its length has been added to the count",
                   f"the count can miss len({nm}): a path reaches {'the next iteration' if loop is not None else 'the return'} without adding it (the count must not depend on `dry` or on anything but the list being empty)",
                   construct=f"{nd.text()[:50]} / counted")
    for a in augs:
        # independent of dry: reachable with dry true and with dry false
        for pol, lab_cut in (("true", "F"), ("false", "T")):
            def cutedge(t, lab, lab_cut=lab_cut):
                return t.kind == "test" and isinstance(t.ast, ast.Name) and t.ast.id == "dry" and lab == lab_cut

            wit = cut(g, [a.id], cutedge)
            ck.require(wit is not None, "C06.count", gc, a,
                       f"count is accumulated when dry is {pol}",
                       f"count is not accumulated when dry is {pol}",
                       construct=f"{a.text()} / dry={pol}")


def _coll_of(g, nd, name: str):
    """`for name in COLL:` around nd, COLL a plain name -> COLL"""
    for hid in nd.loops:
        h_ = g.nodes[hid]
        if h_.kind == "for" and isinstance(h_.ast.target, ast.Name) and h_.ast.target.id == name:
            it = h_.ast.iter
            if isinstance(it, ast.Call) and isinstance(it.func, ast.Name) and it.func.id == "filter" and len(it.args) == 2 and isinstance(it.args[0], ast.Constant) and it.args[0].value is None:
                it = it.args[1]  # filter(None, COLL): the non-empty members of COLL
            if isinstance(it, ast.Name):
                return it.id
    return None
