"""Rules added after the eleventh round of independent seeded changes (see DESIGN.md 12.1l)."""
from __future__ import annotations

import ast

from ..an import is_method_call, node_defines, with_flags
from ..cfg import calls_at
from ..core import Checker
from ..loader import norm, walk_expr, walk_own
from ..prov import call_name, get_arg


def queried_dirs_registered_for_validation(ck: Checker, rule: str) -> None:
    """hashfile.status.status: when an index is given, EVERY queried directory id - shallow or not - is entered into the
    table that `_indexed_dir_hashes` validates against the store.  That generator is the only place where a stale remote
    index is noticed and cleared; an id that is not in the table is answered straight from `index.intersection`."""
    fn = ck.prog.func("hashfile.status", "status")
    gi = ck.prog.func("hashfile.status", "_indexed_dir_hashes")
    g = ck.cfg(fn)
    tables = set()
    for c in walk_own(fn.node):
        if isinstance(c, ast.Call) and call_name(c) == "_indexed_dir_hashes":
            a = get_arg(c, gi, gi.pos_params[2] if len(gi.pos_params) > 2 else "dir_objs", pos=2)
            if isinstance(a, ast.Name):
                tables.add(a.id)
    for _ in range(3):
        # the table may have been filled under another name: `a = b`, `x, y = (p, q)` or `x, y = Record(p, q)` (positional)
        for a in walk_own(fn.node):
            if not (isinstance(a, ast.Assign) and len(a.targets) == 1):
                continue
            t, v = a.targets[0], a.value
            if isinstance(t, ast.Name) and t.id in tables and isinstance(v, ast.Name):
                tables.add(v.id)
            if isinstance(t, ast.Tuple):
                vs = v.elts if isinstance(v, ast.Tuple) else (v.args if isinstance(v, ast.Call) and not v.keywords else None)
                if vs is not None and len(vs) == len(t.elts):
                    for te, ve in zip(t.elts, vs):
                        if isinstance(te, ast.Name) and te.id in tables and isinstance(ve, ast.Name):
                            tables.add(ve.id)
    ck.floor(rule, len(tables), 1, "directory table handed to _indexed_dir_hashes in status()")
    idx = "index" if fn.has_param("index") else None
    src = fn.pos_params[1] if len(fn.pos_params) > 1 else "obj_ids"
    heads = [h for h in g.nodes.values() if h.kind == "for" and len(h.loops) == 1 and isinstance(h.ast.iter, ast.Name) and h.ast.iter.id == src]
    ck.floor(rule, len(heads), 1, "loop over the queried ids in status()")
    for h in heads:
        stores = {n.id for n in g.nodes.values() if h.id in n.loops and n.kind == "stmt" and isinstance(n.ast, ast.Assign)
                  and any(isinstance(t, ast.Subscript) and isinstance(t.value, ast.Name) and t.value.id in tables for t in n.ast.targets)}
        stores |= {n.id for n in g.nodes.values() if h.id in n.loops for c in calls_at(n) if is_method_call(c, "setdefault", "__setitem__") and isinstance(c.func.value, ast.Name) and c.func.value.id in tables}

        def irrelevant(t, lab):
            # a file id, or no index at all: nothing to register
            if t.kind != "test":
                return False
            s = norm(t.ast)
            if s.endswith(".isdir"):
                return lab == "F"
            if idx is not None and s == idx:
                return lab == "F"
            if idx is not None and s in (f"{idx} is not None", f"{idx} is None"):
                return lab == ("F" if "not" in s else "T")
            return False

        lifted = with_flags(g, irrelevant, start=h.id)
        dirtests = [t for t in g.nodes.values() if h.id in t.loops and t.kind == "test" and norm(t.ast).endswith(".isdir")]
        ck.floor(rule, len(dirtests), 1, "is-directory tests in the loop over the queried ids")
        for t in dirtests:
            starts = [d for lab, d in t.succ if lab == "T"]
            r = g.reach(starts, skip_node=lambda x: x.id in stores, skip_edge=lambda a, lab, b: lab == "exc" or irrelevant(a, lab) or lifted(a, lab))
            bad = h.id in r
            ck.require(bool(stores) and not bad, rule, fn, t, "with an index, every queried directory id is registered for validation against the store",
                       "a queried directory id can go unregistered in the table _indexed_dir_hashes validates (e.g. for shallow queries): the remote index is then never compared with the store, a directory deleted from the remote is still answered 'exists' from the stale index and nothing is re-sent",
                       witness=g.fmt_path(g.path_to(r, h.id)) if bad else None, construct=f"{norm(t.ast)[:40]} / registered for validation")


def removed_hashes_stay_in_exists(ck: Checker, rule: str) -> None:
    """hashfile.status.status: a set that was taken out of the pending hashes (`hashes.difference_update(found)`) is
    accumulated into the answer, never replaced: once its ids are no longer pending, re-binding the name to another set
    drops them from both 'exists' and 'missing'."""
    fn = ck.prog.func("hashfile.status", "status")
    g = ck.cfg(fn)
    sites = []
    for n in g.nodes.values():
        for c in calls_at(n):
            if is_method_call(c, "difference_update") and c.args and isinstance(c.args[0], ast.Name) and isinstance(c.func.value, ast.Name):
                sites.append((n, c.args[0].id))
        if n.kind == "stmt" and isinstance(n.ast, ast.AugAssign) and isinstance(n.ast.op, ast.Sub) and isinstance(n.ast.target, ast.Name) and isinstance(n.ast.value, ast.Name):
            sites.append((n, n.ast.value.id))
    ck.floor(rule, len(sites), 1, "sites in status() that take answered ids out of the pending set")
    for n, name in sites:
        r = g.reach([d for lab, d in n.succ if lab != "exc"], skip_edge=lambda a, lab, b: lab == "exc")
        rebinds = [x for x in g.nodes.values() if x.id in r and x.id != n.id and x.kind == "stmt" and isinstance(x.ast, (ast.Assign, ast.AnnAssign)) and node_defines(x, name)
                   and getattr(x.ast, "value", None) is not None and not any(isinstance(y, ast.Name) and y.id == name for y in walk_expr(x.ast.value))]
        rebinds = [x for x in rebinds if g.exit in g.reach([x.id], skip_edge=lambda a, lab, b: lab == "exc")]
        ck.require(not rebinds, rule, fn, rebinds[0] if rebinds else n, "ids taken out of the pending set stay in the set they were answered into",
                   f"`{name}` is re-bound (`{rebinds[0].text()[:50] if rebinds else ''}`) after its ids were removed from the pending hashes: ids answered from the validated directories are then neither reported as existing nor as missing - the objects are silently sent again, or a requested object is never fetched and never reported",
                   construct=f"{n.text()[:50]} / not re-bound afterwards")


def canonical_json_encoding(ck: Checker, rule: str) -> None:
    """Tree.as_bytes: the canonical bytes of a listing are `json.dumps(rows, sort_keys=True)` in JSON's default (ASCII,
    default separators) encoding, UTF-8 encoded.  Any further keyword (ensure_ascii, separators, indent, default, cls)
    changes the bytes - and with them the identifier - of some listings (non-ASCII names) but not of others."""
    ab = ck.prog.func("hashfile.tree", "Tree.as_bytes")
    dumps = [c for c in walk_own(ab.node) if isinstance(c, ast.Call) and call_name(c) == "dumps"]
    ck.floor(rule, len(dumps), 1, "json.dumps calls in Tree.as_bytes")
    for c in dumps:
        kws = {k.arg: k.value for k in c.keywords}
        extra = sorted(k for k in kws if k not in ("sort_keys",) and k is not None)
        sk = kws.get("sort_keys")
        ok = isinstance(sk, ast.Constant) and sk.value is True and not extra and None not in kws and len(c.args) == 1
        ck.require(ok, rule, ab, c, "the listing is serialised with json.dumps(rows, sort_keys=True) and nothing else",
                   f"`{norm(c)[:80]}` is not the canonical encoding json.dumps(rows, sort_keys=True){' (extra: ' + ', '.join(extra) + ')' if extra else ''}: listings with e.g. non-ASCII names get different bytes, hence a different identifier than the one every other writer computes for the same content",
                   construct="as_bytes / canonical JSON")
    encs = [c for c in walk_own(ab.node) if isinstance(c, ast.Call) and is_method_call(c, "encode")]
    for c in encs:
        arg = c.args[0] if c.args else next((k.value for k in c.keywords if k.arg == "encoding"), None)
        ok = arg is None or (isinstance(arg, ast.Constant) and str(arg.value).lower().replace("_", "-") in ("utf-8", "utf8")) and not any(k.arg == "errors" for k in c.keywords)
        ck.require(ok, rule, ab, c, "the serialised listing is UTF-8 encoded", f"`{norm(c)[:60]}` does not encode the listing as UTF-8", construct="as_bytes / utf-8")


def _fold_bytes(e: ast.expr, consts, depth: int = 0):
    """constant-fold a bytes expression made of literals, bytes(range(a, b)), bytes([..]) and + ; None if not of that form"""
    if depth > 4:
        return None
    if isinstance(e, ast.Constant) and isinstance(e.value, bytes):
        return e.value
    if isinstance(e, ast.Name) and e.id in consts:
        return _fold_bytes(consts[e.id], consts, depth + 1)
    if isinstance(e, ast.BinOp) and isinstance(e.op, ast.Add):
        l_, r_ = _fold_bytes(e.left, consts, depth + 1), _fold_bytes(e.right, consts, depth + 1)
        return None if l_ is None or r_ is None else l_ + r_
    if isinstance(e, ast.Call) and isinstance(e.func, ast.Name) and e.func.id in ("bytes", "bytearray") and len(e.args) == 1 and not e.keywords:
        a = e.args[0]
        if isinstance(a, ast.Call) and isinstance(a.func, ast.Name) and a.func.id == "range" and 1 <= len(a.args) <= 3 and all(isinstance(x, ast.Constant) and isinstance(x.value, int) for x in a.args):
            try:
                return bytes(range(*[x.value for x in a.args]))
            except ValueError:
                return None
        if isinstance(a, (ast.List, ast.Tuple)) and all(isinstance(x, ast.Constant) and isinstance(x.value, int) and 0 <= x.value < 256 for x in a.elts):
            return bytes(x.value for x in a.elts)
        if isinstance(a, (ast.BinOp, ast.Constant, ast.Name)):
            return _fold_bytes(a, consts, depth + 1)
    return None


def text_chars_exact(ck: Checker, rule: str) -> None:
    """hashfile.istextfile: the byte values that count as text are printable ASCII plus \\n \\r \\t \\f \\b - the set the
    md5-dos2unix digest is defined with.  A larger set (e.g. all bytes >= 0x80) makes NUL-free binary content text, so its
    CRLF pairs are rewritten before hashing; a smaller one changes the digest of text files the other way."""
    fn = ck.prog.func("hashfile.istextfile", "istextblock")
    consts = {}
    for st in fn.module.tree.body:
        tg = st.targets[0] if isinstance(st, ast.Assign) and len(st.targets) == 1 else (st.target if isinstance(st, ast.AnnAssign) else None)
        if isinstance(tg, ast.Name) and getattr(st, "value", None) is not None:
            consts[tg.id] = st.value
    # the table handed to translate() as the characters to delete
    tabs = []
    for c in walk_own(fn.node):
        if isinstance(c, ast.Call) and is_method_call(c, "translate") and len(c.args) == 2:
            tabs.append(c.args[1])
        if isinstance(c, ast.Call) and is_method_call(c, "translate") and any(k.arg == "delete" for k in c.keywords):
            tabs.append(next(k.value for k in c.keywords if k.arg == "delete"))
    ck.floor(rule, len(tabs), 1, "text-character tables used by istextblock (translate(None, TABLE))")
    want = set(range(32, 127)) | {8, 9, 10, 12, 13}
    for t in tabs:
        alts = [t]
        if isinstance(t, ast.Name) and t.id not in consts:
            alts = [d.value for d in __import__("sv.prov", fromlist=["scope_of"]).scope_of(fn).get(t.id) if d.value is not None]
        for alt in alts:
            val = _fold_bytes(alt, consts)
            ck.floor(rule, 0 if val is None else 1, 1, f"constant value of the text-character table `{norm(t)[:40]}`")
            got = set(val)
            ck.require(got == want, rule, fn, t, "the text-character table is printable ASCII plus \\n \\r \\t \\f \\b",
                       f"the text-character table differs from printable ASCII + \\n\\r\\t\\f\\b (extra bytes: {sorted(got - want)[:8]}{'...' if len(got - want) > 8 else ''}, missing: {sorted(want - got)[:8]}): NUL-free binary content with such bytes is now treated as text and CRLF-normalised before hashing (or text is no longer normalised), so md5-dos2unix digests change",
                       construct=f"{norm(t)[:40]} / text characters")


def link_destination_is_link_text(ck: Checker, rule: str) -> None:
    """fsutils._localfs_info: the `destination` of a symlink is what the link itself says (readlink), not a resolved path:
    the relink test compares it verbatim with the cache object's path, and a resolved path equals it neither when the cache
    is reached through a symlinked directory (every checkout re-creates every link) nor only when the link is direct
    (a chain of links ending in the object is accepted as up to date)."""
    fn = ck.prog.func("fsutils", "_localfs_info")
    vals = []
    for x in walk_own(fn.node):
        if isinstance(x, ast.Assign) and any(isinstance(t, ast.Subscript) and isinstance(t.slice, ast.Constant) and t.slice.value == "destination" for t in x.targets):
            vals.append(x.value)
        if isinstance(x, ast.Dict):
            for k, v in zip(x.keys, x.values):
                if isinstance(k, ast.Constant) and k.value == "destination":
                    vals.append(v)
    ck.floor(rule, len(vals), 1, "`destination` field of the local stat record")
    path = fn.pos_params[0] if fn.pos_params else "path"
    from ..prov import expand1

    for v in vals:
        alts = [v] + expand1(ck.prog, fn, v, levels=2)
        ok = any(isinstance(a, ast.Call) and (call_name(a) or "").split(".")[-1] == "readlink" and ((a.args and norm(a.args[0]) == path) or (isinstance(a.func, ast.Attribute) and path in norm(a.func.value))) for a in alts)
        ck.require(ok, rule, fn, v, "a symlink's destination is the link's own text (readlink)",
                   f"the recorded destination is `{norm(v)[:60]}`, not readlink({path}): a resolved or rewritten path no longer compares equal to the cache object's path the way the link was written, so relinking checkouts either re-create every link each time or accept an indirect link as up to date",
                   construct="destination / readlink")
