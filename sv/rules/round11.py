"""Rules added after the eleventh round of independent seeded changes (see DESIGN.md 12.1l)."""
from __future__ import annotations

import ast

from ..an import is_method_call, node_defines, with_flags
from ..cfg import calls_at
from ..core import Checker
from ..loader import norm, walk_expr, walk_own
from ..prov import call_name, get_arg


def queried_dirs_registered_for_validation(ck: Checker, rule: str) -> None:
    """hashfile.status.status: when an index is given, EVERY queried directory id - shallow or not - is entered into the
    table that `_indexed_dir_hashes` validates against the store.  That generator is the only place where a stale remote
    index is noticed and cleared; an id that is not in the table is answered straight from `index.intersection`."""
    fn = ck.prog.func("hashfile.status", "status")
    gi = ck.prog.func("hashfile.status", "_indexed_dir_hashes")
    g = ck.cfg(fn)
    tables = set()
    for c in walk_own(fn.node):
        if isinstance(c, ast.Call) and call_name(c) == "_indexed_dir_hashes":
            a = get_arg(c, gi, gi.pos_params[2] if len(gi.pos_params) > 2 else "dir_objs", pos=2)
            if isinstance(a, ast.Name):
                tables.add(a.id)
    ck.floor(rule, len(tables), 1, "directory table handed to _indexed_dir_hashes in status()")
    idx = "index" if fn.has_param("index") else None
    src = fn.pos_params[1] if len(fn.pos_params) > 1 else "obj_ids"
    heads = [h for h in g.nodes.values() if h.kind == "for" and len(h.loops) == 1 and isinstance(h.ast.iter, ast.Name) and h.ast.iter.id == src]
    ck.floor(rule, len(heads), 1, "loop over the queried ids in status()")
    for h in heads:
        stores = {n.id for n in g.nodes.values() if h.id in n.loops and n.kind == "stmt" and isinstance(n.ast, ast.Assign)
                  and any(isinstance(t, ast.Subscript) and isinstance(t.value, ast.Name) and t.value.id in tables for t in n.ast.targets)}
        stores |= {n.id for n in g.nodes.values() if h.id in n.loops for c in calls_at(n) if is_method_call(c, "setdefault", "__setitem__") and isinstance(c.func.value, ast.Name) and c.func.value.id in tables}

        def irrelevant(t, lab):
            # a file id, or no index at all: nothing to register
            if t.kind != "test":
                return False
            s = norm(t.ast)
            if s.endswith(".isdir"):
                return lab == "F"
            if idx is not None and s == idx:
                return lab == "F"
            if idx is not None and s in (f"{idx} is not None", f"{idx} is None"):
                return lab == ("F" if "not" in s else "T")
            return False

        lifted = with_flags(g, irrelevant, start=h.id)
        dirtests = [t for t in g.nodes.values() if h.id in t.loops and t.kind == "test" and norm(t.ast).endswith(".isdir")]
        ck.floor(rule, len(dirtests), 1, "is-directory tests in the loop over the queried ids")
        for t in dirtests:
            starts = [d for lab, d in t.succ if lab == "T"]
            r = g.reach(starts, skip_node=lambda x: x.id in stores, skip_edge=lambda a, lab, b: lab == "exc" or irrelevant(a, lab) or lifted(a, lab))
            bad = h.id in r
            ck.require(bool(stores) and not bad, rule, fn, t, "with an index, every queried directory id is registered for validation against the store",
                       "a queried directory id can go unregistered in the table _indexed_dir_hashes validates (e.g. for shallow queries): the remote index is then never compared with the store, a directory deleted from the remote is still answered 'exists' from the stale index and nothing is re-sent",
                       witness=g.fmt_path(g.path_to(r, h.id)) if bad else None, construct=f"{norm(t.ast)[:40]} / registered for validation")


def removed_hashes_stay_in_exists(ck: Checker, rule: str) -> None:
    """hashfile.status.status: a set that was taken out of the pending hashes (`hashes.difference_update(found)`) is
    accumulated into the answer, never replaced: once its ids are no longer pending, re-binding the name to another set
    drops them from both 'exists' and 'missing'."""
    fn = ck.prog.func("hashfile.status", "status")
    g = ck.cfg(fn)
    sites = []
    for n in g.nodes.values():
        for c in calls_at(n):
            if is_method_call(c, "difference_update") and c.args and isinstance(c.args[0], ast.Name) and isinstance(c.func.value, ast.Name):
                sites.append((n, c.args[0].id))
        if n.kind == "stmt" and isinstance(n.ast, ast.AugAssign) and isinstance(n.ast.op, ast.Sub) and isinstance(n.ast.target, ast.Name) and isinstance(n.ast.value, ast.Name):
            sites.append((n, n.ast.value.id))
    ck.floor(rule, len(sites), 1, "sites in status() that take answered ids out of the pending set")
    for n, name in sites:
        r = g.reach([d for lab, d in n.succ if lab != "exc"], skip_edge=lambda a, lab, b: lab == "exc")
        rebinds = [x for x in g.nodes.values() if x.id in r and x.id != n.id and x.kind == "stmt" and isinstance(x.ast, (ast.Assign, ast.AnnAssign)) and node_defines(x, name)
                   and getattr(x.ast, "value", None) is not None and not any(isinstance(y, ast.Name) and y.id == name for y in walk_expr(x.ast.value))]
        rebinds = [x for x in rebinds if g.exit in g.reach([x.id], skip_edge=lambda a, lab, b: lab == "exc")]
        ck.require(not rebinds, rule, fn, rebinds[0] if rebinds else n, "ids taken out of the pending set stay in the set they were answered into",
                   f"`{name}` is re-bound (`{rebinds[0].text()[:50] if rebinds else ''}`) after its ids were removed from the pending hashes: ids answered from the validated directories are then neither reported as existing nor as missing - the objects are silently sent again, or a requested object is never fetched and never reported",
                   construct=f"{n.text()[:50]} / not re-bound afterwards")
