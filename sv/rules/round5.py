"""Structural clauses added in the fifth round (two more genuine defects, F10 and F11)."""
from __future__ import annotations

import ast

from ..an import avoiding_path, is_method_call, reaching_defs
from ..cfg import calls_at
from ..core import Checker
from ..loader import norm, walk_expr, walk_own
from ..prov import call_name, scope_of


def hardlink_excludes_symlink(ck: Checker, rule: str, f_sym: str, f_hard: str) -> None:
    """_needs_relink: the 'already a hard link to the cache object' decision (the inode comparison) is never taken
    for a symbolic link.  The stat of a symlink describes its *target* (fsspec's LocalFileSystem.info follows the
    link for ino / nlink), so for a workspace symlink into the cache the inode always equals the cache object's and
    the link count is the object's: without the exclusion such a file is taken for a hard link and kept."""
    fn = ck.prog.func("hashfile.checkout", "_needs_relink")
    g = ck.cfg(fn)
    # the inode comparison, returned directly or kept as the verdict of this link type
    rets = [n for n in g.nodes.values() if n.kind == "stmt" and isinstance(n.ast, (ast.Return, ast.Assign)) and n.ast.value is not None
            and sum(1 for a in walk_expr(n.ast.value) if isinstance(a, ast.Attribute) and a.attr == "inode") >= 2]
    ck.floor(rule, len(rets), 1, "inode comparisons in _needs_relink")

    depth_ = [0]

    def single_defs(nm):
        ds_ = scope_of(fn).get(nm)
        if len(ds_) == 1 and ds_[0].kind in ("assign", "annassign") and getattr(ds_[0], "value", None) is not None and not fn.has_param(nm):
            return ds_[0].value
        return None

    # names that are plain copies of the symlink flag (`file_is_symlink = is_symlink`) stand for it
    sym_cls = {f_sym} if f_sym else set()
    for _ in range(4):
        for nm_ in list(scope_of(fn).defs):
            v_ = single_defs(nm_)
            if isinstance(v_, ast.Name) and (v_.id in sym_cls) != (nm_ in sym_cls):
                sym_cls |= {nm_, v_.id}

    # (a) by definition: is_hardlink is false whenever is_symlink is true
    def tri(e, env):
        """three-valued evaluation: True / False / None (unknown)"""
        if isinstance(e, ast.Name) and e.id in env:
            return env[e.id]
        if isinstance(e, ast.Name) and depth_[0] < 6:
            ds_ = single_defs(e.id)
            if ds_ is not None:
                depth_[0] += 1
                try:
                    return tri(ds_, env)
                finally:
                    depth_[0] -= 1
        if isinstance(e, ast.UnaryOp) and isinstance(e.op, ast.Not):
            v = tri(e.operand, env)
            return None if v is None else (not v)
        if isinstance(e, ast.BoolOp):
            vals = [tri(v, env) for v in e.values]
            if isinstance(e.op, ast.And):
                return False if any(v is False for v in vals) else (None if any(v is None for v in vals) else True)
            return True if any(v is True for v in vals) else (None if any(v is None for v in vals) else False)
        return None

    defs = [d for d in scope_of(fn).get(f_hard or "") if d.kind == "assign"]
    by_def = bool(defs) and all(tri(d.value, {n_: True for n_ in sym_cls}) is False for d in defs)
    for r in rets:
        # (b) or by test: every path to the inode comparison crosses "not a symlink"
        def not_sym(a, lab):
            if a.kind != "test":
                return False
            t = norm(a.ast)
            return any((t == s_ and lab == "F") or (t == f"not {s_}" and lab == "T") for s_ in sym_cls)

        by_test = avoiding_path(g, r.id, lambda x: False, stop_edge=lambda a, lab, b: not_sym(a, lab)) is None if f_sym else False
        ck.require(by_def or by_test, rule, fn, r, "the hard-link identity test is never applied to a symbolic link",
                   f"`{norm(r.ast)}` can be reached for a workspace file that is a symbolic link (`{f_hard}` = {norm(defs[0].value) if defs else '?'} does not exclude `{f_sym}`): a symlink's stat is its target's, so a symlink to a cache object that has another hard link compares equal and is kept although hard links were configured",
                   construct=f"{norm(r.ast)} / not for symlinks")


def local_add_rechecks_unprotected(ck: Checker, rule: str) -> None:
    """LocalHashFileDB: before the delegated add can skip an oid as 'already there' (ObjectDB.add, check_exists),
    a file under that object's name which is not write-protected is re-hashed (check with hashing on) - whatever
    the verify setting.  An unprotected file was never vouched for by a completed add (an interrupted one leaves
    such residue); skipping it and then protecting it makes a mismatching object trusted for good."""
    prog = ck.prog
    cls = prog.cls("hashfile.db.local", "LocalHashFileDB")
    base = prog.func("hashfile.db", "HashFileDB.add")
    cands = [m for m in (cls.methods.get("add"), base) if m is not None]
    ok, why, site_fn, site = False, "no re-check of unprotected files before the delegated add", base, base.node
    for fn in cands:
        g = ck.cfg(fn)
        sup = [n for n in g.nodes.values() for c in calls_at(n) if isinstance(c.func, ast.Attribute) and c.func.attr == "add" and norm(c.func.value).startswith("super(")]
        if not sup:
            continue
        for h in [x for x in g.nodes.values() if x.kind == "for" and len(x.loops) == 1]:
            lv = norm(h.ast.target)
            def is_check(c, lv=lv, depth=1) -> bool:
                if not (isinstance(c.func, ast.Attribute) and norm(c.func.value) == "self" and c.args and norm(c.args[0]) == lv):
                    return False
                if c.func.attr == "check":
                    return not any(k.arg == "check_hash" and isinstance(k.value, ast.Constant) and k.value.value is False for k in c.keywords)
                # a helper method of the class (possibly inherited) that runs self.check(<its parameter>) on every path
                m_ = prog.find_method(cls, c.func.attr) if depth > 0 else None
                if m_ is None or len(m_.pos_params) < 2:
                    return False
                gm = ck.cfg(m_)
                p0 = m_.pos_params[1]
                inner = {x.id for x in gm.nodes.values() for c2 in calls_at(x) if is_method_call(c2, "check") and norm(c2.func.value) == "self" and c2.args and norm(c2.args[0]) == p0
                         and not any(k.arg == "check_hash" and isinstance(k.value, ast.Constant) and k.value.value is False for k in c2.keywords)}
                return bool(inner) and gm.exit not in gm.reach([gm.entry], skip_node=lambda x: x.id in inner, skip_edge=lambda a, l, b: l == "exc")

            chk = [n for n in g.nodes.values() if h.id in n.loops for c in calls_at(n) if is_check(c)]
            if not chk:
                continue
            # the loop runs before the delegated add
            if any(avoiding_path(g, s.id, lambda x, h=h: x.id == h.id) is not None for s in sup):
                continue
            cids = {n.id for n in chk}

            def protected_edge(a, lab, lv=lv):
                # the only way round the check inside the loop body: the file is already write-protected
                if a.kind != "test":
                    return False
                t = norm(a.ast)
                if "is_protected(" in t and lv in t:
                    return (lab == "T") != t.startswith("not ")
                return False

            r = g.reach([d for lab, d in h.succ if lab == "T"], skip_node=lambda x: x.id in cids, skip_edge=lambda a, lab, b: lab == "exc" or protected_edge(a, lab))
            # the loop must range over the oids being added
            it_ok = any(fn.has_param(x.id) for x in walk_expr(h.ast.iter) if isinstance(x, ast.Name)) or any(
                fn.has_param(y.id) for x in walk_expr(h.ast.iter) if isinstance(x, ast.Name) for d in reaching_defs(g, h.id, x.id) for y in walk_expr(getattr(d.ast, "value", None) or ast.Constant(value=None)) if isinstance(y, ast.Name))
            if h.id not in r and it_ok:
                ok = True
            else:
                why = f"the re-check loop in {fn.name} can be bypassed for an unprotected file (e.g. it runs only when verify is on)"
                site_fn, site = fn, h
    ck.require(ok, rule, site_fn, site, "an unprotected file under an object name is re-hashed before add may skip it as existing",
               f"{why}: ObjectDB.add skips an oid whose file exists, and the post-copy loop then write-protects it - an empty / partial file left under the object's name by an interrupted add (dvc_objects' reflink creates the final name before cloning into it) becomes a trusted object that no later integrity check re-hashes",
               construct="LocalHashFileDB.add / unprotected residue re-checked")


def deleted_files_before_dirs(ck: Checker, rule: str) -> None:
    """hashfile.checkout._checkout: in the loop that removes the entries the target no longer has, file entries are
    handled before directory entries.  Removing a directory entry (its .dir object may well be in the cache, so the
    guard lets it pass) takes every file below it along - including one whose own object is *not* in the cache and
    whose own guarded removal would have refused."""
    fn = ck.prog.func("hashfile.checkout", "_checkout")
    g = ck.cfg(fn)
    rem = [(n, c) for n in g.nodes.values() for c in calls_at(n) if call_name(c) == "_remove" and n.loops]
    ck.floor(rule, len(rem), 1, "guarded removals inside loops of _checkout")
    n_del = 0
    # the partition form: vanished entries are first split into a files list and a directories list, then removed
    # by one loop each - fine as long as no removal of the directories list precedes one of the files list
    part = {}  # list name -> "dirs" | "files"
    for t in g.nodes.values():
        if t.kind == "test" and "isdir" in norm(t.ast) and t.loops and ".deleted" in norm(g.nodes[t.loops[-1]].ast.iter if g.nodes[t.loops[-1]].kind == "for" else ast.Constant(value=0)):
            for lab, kind in (("T", "dirs"), ("F", "files")):
                if norm(t.ast).startswith("not "):
                    kind = "files" if kind == "dirs" else "dirs"
                sub = g.reach([d for l_, d in t.succ if l_ == lab], skip_node=lambda x, t=t: x.id == t.loops[-1])
                for i in sub:
                    for c2 in calls_at(g.nodes[i]):
                        if is_method_call(c2, "append") and isinstance(c2.func.value, ast.Name):
                            # appended on exactly one side of the isdir test
                            other = g.reach([d for l_, d in t.succ if l_ != lab and l_ in ("T", "F")], skip_node=lambda x, t=t: x.id == t.loops[-1])
                            if i not in other:
                                part[c2.func.value.id] = kind
    part_loops = [(g.nodes[n.loops[-1]], part.get(norm(g.nodes[n.loops[-1]].ast.iter))) for n, c in rem if g.nodes[n.loops[-1]].kind == "for" and part.get(norm(g.nodes[n.loops[-1]].ast.iter))]
    if part_loops:
        files_l = [h_ for h_, k_ in part_loops if k_ == "files"]
        dirs_l = [h_ for h_, k_ in part_loops if k_ == "dirs"]
        from ..an import reaches

        okp = bool(files_l) and bool(dirs_l) and not any(reaches(g, hd.id, hf.id) for hd in dirs_l for hf in files_l)
        ck.require(okp, rule, fn, (dirs_l or files_l)[0], "vanished files are removed before vanished directories (partitioned form)",
                   "the removal of the directory entries can run before the removal of the file entries: a directory's removal passes its guard (the .dir object is cached) and takes along files whose own objects are not in the cache",
                   construct="removal loops over the files / directories partition of diff.deleted")
        n_del += 1
    for n, c in rem:
        h = g.nodes[n.loops[-1]]
        if h.kind != "for":
            continue
        it = h.ast.iter
        alts = [it] + [getattr(d.ast, "value", None) for x in walk_expr(it) if isinstance(x, ast.Name) for d in reaching_defs(g, h.id, x.id) if getattr(d.ast, "value", None) is not None]
        if not any(".deleted" in norm(a) for a in alts):
            continue
        n_del += 1
        ok, why = False, f"the removal loop iterates `{norm(it)}` in diff order"
        for a in alts:
            if isinstance(a, ast.Call) and call_name(a) == "sorted" and a.args and ".deleted" in norm(a.args[0]):
                key = next((k.value for k in a.keywords if k.arg == "key"), None)
                rev = next((k.value for k in a.keywords if k.arg == "reverse"), None)
                ktxt = ""
                if isinstance(key, ast.Lambda):
                    ktxt = norm(key.body)
                elif isinstance(key, ast.Name):
                    ent = ck.prog.lookup_name(fn, key.id)
                    ktxt = " ".join(norm(r.value) for r in ast.walk(ent.node) if isinstance(r, ast.Return) and r.value is not None) if hasattr(ent, "node") else ""
                dirs_last = "isdir" in ktxt and not ktxt.startswith("not ") and not (isinstance(rev, ast.Constant) and rev.value is True)
                depth_first = "len(" in ktxt and ".key" in ktxt and isinstance(rev, ast.Constant) and rev.value is True
                if dirs_last or depth_first:
                    ok = True
                else:
                    why = f"the removal loop is sorted by `{ktxt}`, which does not put directory entries last"
        if not ok:
            # or: directory entries are deferred inside the loop body (skipped here, handled by a later loop)
            dir_tests = [t for t in g.nodes.values() if t.kind == "test" and h.id in t.loops and "isdir" in norm(t.ast)]
            for t in dir_tests:
                r = g.reach([d for lab, d in t.succ if lab == "T"], skip_node=lambda x: x.id == h.id, skip_edge=lambda p, l, q: l == "exc")
                if n.id not in r:
                    ok = True
        ck.require(ok, rule, fn, h, "entries that disappear are removed files-first (directory entries last)",
                   f"{why}: when the directory entry comes first its guarded removal passes (the .dir object is in the cache) and deletes the whole directory, including a file whose own object is not in the cache - without force, prompt or error",
                   construct=f"for {norm(h.ast.target)} in {norm(it)[:40]} / files before directories")
    ck.floor(rule, n_del, 1, "removal loops over diff.deleted in _checkout")
