"""C20 - Index and entry serialisation round-trips (writer/reader table agreement)."""
from __future__ import annotations

import ast
from typing import Dict, List, Optional, Set

from ..an import avoiding_path, is_method_call
from ..cfg import calls_at
from ..core import Checker
from ..loader import AnalysisError, Func, norm, walk_expr, walk_own
from ..prov import call_name, expand1
from .tree_common import check_from_list_rows, check_sep, resolve_const


def check(ck: Checker) -> None:
    ck.decided = [
        "C20.entry: DataIndexEntry.to_dict writes exactly the keys from_dict reads (meta, hash_info, loaded), each through the matching converter; loaded is written unconditionally",
        "C20.meta: every field Meta.to_dict emits is stored under its own attrs field name, guarded by a test of the same attribute; Optional[int] fields are guarded by `is not None` (0 survives); from_dict reads by field name",
        "C20.hashinfo: HashInfo.to_dict emits {name: value} and from_dict binds the single item as (name, value)",
        "C20.keys: JSON/db forms join and split keys with the same separator, assign entry.key from the split key and add every item",
        "C20.trie: the SQLite-backed trie dumps value.to_dict(), loads with DataIndexEntry.from_dict + key, and every mutator invalidates the identity cache before delegating",
        "C20.listing: Tree listings: same path field and separator on both sides; each parsed row comes from its own entry only",
    ]
    ck.not_decided = ["JSON/SQLite fidelity for arbitrary strings (e.g. '/' inside a key part)", "commit/close/reopen behaviour of sqltrie", "value equality after a real round trip"]
    ck.trusted = ["json, diskcache and sqltrie store what they are given", "attrs generates __init__ from the declared fields"]
    _entry(ck)
    _meta(ck)
    _hashinfo(ck)
    _keys(ck)
    from . import round8 as _r8

    _r8.db_writer_overwrites(ck, "C20.keys")
    from . import round9 as _r9

    _r9.listing_entry_parsed_per_path(ck, "C20.listing")
    _trie(ck)
    from .C17 import _loadonce

    _loadonce(ck, rule="C20.trie")
    check_sep(ck, "C20.listing")
    check_from_list_rows(ck, "C20.listing")
    _listing_meta(ck)
    from . import round4 as _r4

    _r4.tree_load_rejects_only_nonlist(ck, "C20.listing")
    _r4.trie_setitem_always_writes(ck, "C20.trie")
    _r4.hashinfo_from_dict_strict(ck, "C20.hashinfo")
    from . import round7 as _r7

    _r7.from_list_splits_raw_relpath(ck, "C20.listing")



def _ret_name(fn: Func) -> Optional[str]:
    names = {r.value.id for r in walk_own(fn.node) if isinstance(r, ast.Return) and isinstance(r.value, ast.Name)}
    return names.pop() if len(names) == 1 else None


def _written_keys(fn: Func, var: Optional[str] = None) -> Dict[str, ast.Assign]:
    var = var or _ret_name(fn) or "ret"
    out = {}
    for s in walk_own(fn.node):
        if isinstance(s, ast.Assign) and isinstance(s.targets[0], ast.Subscript) and norm(s.targets[0].value) == var:
            k = s.targets[0].slice
            if isinstance(k, ast.Constant):
                out[k.value] = s
    return out


def _entry(ck: Checker) -> None:
    prog = ck.prog
    td = prog.func("index.index", "DataIndexEntry.to_dict")
    fd = prog.func("index.index", "DataIndexEntry.from_dict")
    w = _written_keys(td)
    dparam = fd.pos_params[-1]
    obj = _ret_name(fd)
    gfd = ck.cfg(fd)
    reads: Dict[str, ast.AST] = {}
    for c in walk_own(fd.node):
        if isinstance(c, ast.Call) and is_method_call(c, "get") and norm(c.func.value) == dparam and c.args and isinstance(c.args[0], ast.Constant):
            reads[c.args[0].value] = c
        if isinstance(c, ast.Subscript) and norm(c.value) == dparam and isinstance(c.slice, ast.Constant):
            reads[c.slice.value] = c
    ck.require(set(w) == set(reads) == {"meta", "hash_info", "loaded"}, "C20.entry", td, td.node, f"keys written {sorted(w)} = keys read {sorted(reads)}", f"entry dict keys disagree: written {sorted(w)}, read {sorted(reads)}", construct="entry keys")
    # each key is restored into the attribute of the same name, through the matching converter
    conv = {"meta": ("self.meta.to_dict()", "Meta.from_dict"), "hash_info": ("self.hash_info.to_dict()", "HashInfo.from_dict"), "loaded": ("self.loaded", None)}
    for k, (wv, rv) in conv.items():
        from ..prov import expand_txt as _et

        okw = k in w and (norm(w[k].value) == wv or set(_et(prog, td, w[k].value)) == {wv})
        okr = False
        for n in gfd.nodes.values():
            a_ = n.ast
            if n.kind == "stmt" and isinstance(a_, ast.Assign) and obj and norm(a_.targets[0]) == f"{obj}.{k}" and k in reads:
                from ..an import flows_from_calls

                src_ok = flows_from_calls(gfd, n, a_.value, [reads[k]], depth=3) if isinstance(reads[k], ast.Call) else any(x is reads[k] for x in walk_expr(a_.value))
                conv_ok = rv is None or (isinstance(a_.value, ast.Call) and norm(a_.value.func) == rv)
                okr = okr or (src_ok and conv_ok)
        ck.require(okw and okr, "C20.entry", td, w.get(k, td.node), f"'{k}' is written from self.{k} and restored into .{k} through the matching converter", f"'{k}' is not converted symmetrically (writer {norm(w[k].value) if k in w else None}; reader restores .{k}: {okr})", construct=f"entry.{k} converters")
    g = ck.cfg(td)
    ln = [n for n in g.nodes.values() if n.ast is w.get("loaded")]
    if ln:
        wpath = avoiding_path(g, g.exit, lambda x: x.id == ln[0].id)
        ck.require(wpath is None, "C20.entry", td, ln[0], "loaded flag is always written", "the loaded flag is not written on every path")


def _meta(ck: Checker) -> None:
    prog = ck.prog
    cls = prog.cls("hashfile.meta", "Meta")
    td = cls.methods["to_dict"]
    fd = cls.methods["from_dict"]
    fields: Dict[str, str] = {}
    for s in cls.node.body:
        if isinstance(s, ast.AnnAssign) and isinstance(s.target, ast.Name) and "ClassVar" not in norm(s.annotation):
            fields[s.target.id] = norm(s.annotation)
    n = 0
    for st in walk_own(td.node):
        if not isinstance(st, ast.If):
            continue
        for b in st.body:
            if isinstance(b, ast.Assign) and isinstance(b.targets[0], ast.Subscript) and norm(b.targets[0].value) == (_ret_name(td) or "ret"):
                n += 1
                key = resolve_const(ck, td, b.targets[0].slice)
                val = norm(b.value)
                attr = val[len("self."):] if val.startswith("self.") else None
                ck.require(key is not None and attr is not None and key == attr and attr in fields, "C20.meta", td, b,
                           f"field {attr} is stored under its own name", f"Meta.to_dict stores {val} under key {key!r}: from_dict (which reads by field name) will not find it", construct=f"ret[{norm(b.targets[0].slice)}] = {val}")
                t = st.test
                tested = norm(t)
                ck.require(attr is not None and (tested == f"self.{attr}" or tested == f"self.{attr} is not None"), "C20.meta", td, st,
                           "the emit guard tests the emitted attribute", f"the guard `{tested}` does not test the attribute it emits ({val})", construct=f"if {tested}: ret[...] = {val}")
                if attr in fields and fields[attr] in ("Optional[int]", "Optional[float]", "int", "float"):
                    ck.require(tested.endswith("is not None"), "C20.meta", td, st, f"numeric field {attr} is emitted whenever it is not None (0 survives)",
                               f"numeric field `{attr}` is guarded by truthiness (`if {tested}`): a value of 0 is dropped and reads back as None", construct=f"if {tested} / numeric")
    ck.floor("C20.meta", n, 8, "fields emitted by Meta.to_dict")
    from ..an import collection_builds

    gfd = ck.cfg(fd)
    dpar = fd.pos_params[-1]
    okf, why = False, "no field-by-field copy found"
    cands = {x.targets[0].id for x in walk_own(fd.node) if isinstance(x, ast.Assign) and isinstance(x.targets[0], ast.Name)} | {x.target.id for x in walk_own(fd.node) if isinstance(x, ast.AnnAssign) and isinstance(x.target, ast.Name)}
    from ..an import comp_build

    builds = [b for nm in sorted(cands) for b in collection_builds(gfd, fd.node, nm)]
    # a comprehension handed straight to the constructor: cls(**{f: d[f] for f in cls.fields if f in d})
    builds += [b for x in walk_own(fd.node) if isinstance(x, ast.DictComp) for b in [comp_build(x, None)] if b is not None]
    for _once in (1,):
        for b in builds:
            if b.key is None or norm(b.src) not in ("cls.fields", "Meta.fields"):
                continue
            fv = b.target_names()[0] if b.target_names() else None
            val_ok = norm(b.elt) == f"{dpar}[{fv}]" and norm(b.key) == fv
            member = [i for i in b.ifs if isinstance(i, ast.Compare) and len(i.ops) == 1 and isinstance(i.ops[0], ast.In) and norm(i.left) == fv and norm(i.comparators[0]) == dpar]
            other = [i for i in b.ifs if i not in member]
            okf = val_ok and bool(member) and not other
            if other:
                why = f"fields are filtered by {[norm(i) for i in other]} instead of plain membership: a stored 0 / False is dropped when reading back"
            elif not member:
                why = "fields are copied without a membership test"
    ck.require(okf, "C20.meta", fd, fd.node, "from_dict copies every declared field that is present in the dict (membership, not truthiness)", f"Meta.from_dict: {why}")
    mod = prog.module("hashfile.meta")
    tail = " ".join(norm(s) for s in mod.tree.body if isinstance(s, ast.Assign))
    ck.require("Meta.fields = list(fields_dict(Meta))" in tail, "C20.meta", fd, fd.node, "Meta.fields is the list of attrs fields", "Meta.fields is no longer derived from the attrs field table", construct="Meta.fields")


def _hashinfo(ck: Checker) -> None:
    prog = ck.prog
    td = prog.func("hashfile.hash_info", "HashInfo.to_dict")
    fd = prog.func("hashfile.hash_info", "HashInfo.from_dict")
    rets = [norm(r.value) for r in walk_own(td.node) if isinstance(r, ast.Return) and r.value is not None]
    ck.require("{self.name: self.value}" in rets and set(rets) <= {"{self.name: self.value}", "{}"}, "C20.hashinfo", td, td.node, "to_dict emits {name: value}", f"HashInfo.to_dict returns {rets}")
    names = None
    for x in walk_own(fd.node):
        if isinstance(x, ast.Assign) and isinstance(x.value, ast.Call) and is_method_call(x.value, "items") and norm(x.value.func.value) == fd.pos_params[-1]:
            t = x.targets[0]
            if isinstance(t, (ast.Tuple, ast.List)) and len(t.elts) == 1 and isinstance(t.elts[0], (ast.Tuple, ast.List)) and len(t.elts[0].elts) == 2:
                names = [norm(e) for e in t.elts[0].elts]
    ok = False
    if names:
        for r in walk_own(fd.node):
            if isinstance(r, ast.Return) and isinstance(r.value, ast.Call) and (r.value.args or r.value.keywords):
                kw_ = {k.arg: k.value for k in r.value.keywords}
                a_name = r.value.args[0] if len(r.value.args) > 0 else kw_.get("name")
                a_val = r.value.args[1] if len(r.value.args) > 1 else kw_.get("value")
                ok = ok or (a_name is not None and a_val is not None and [norm(a_name), norm(a_val)] == names)
    ck.require(ok, "C20.hashinfo", fd, fd.node, "from_dict binds the single item as (name, value) and rebuilds HashInfo(name, value)", "HashInfo.from_dict does not rebuild (name, value) from the single dict item in that order")


def _keys(ck: Checker) -> None:
    prog = ck.prog
    pairs = [("write_db", "read_db"), ("write_json", "read_json")]
    for wn, rn in pairs:
        w = prog.func("index.serialize", wn)
        r = prog.func("index.serialize", rn)
        wj = [c for c in walk_own(w.node) if isinstance(c, ast.Call) and is_method_call(c, "join")]
        rs = [c for c in walk_own(r.node) if isinstance(c, ast.Call) and is_method_call(c, "split", "rsplit")]
        ws = {resolve_const(ck, w, c.func.value) for c in wj}
        rsep = {resolve_const(ck, r, c.args[0]) if c.args else None for c in rs}
        ck.require(len(ws) == 1 and ws == rsep and None not in ws, "C20.keys", w, w.node, f"{wn}/{rn} join and split keys with the same separator {ws}", f"{wn} joins keys with {ws} but {rn} splits on {rsep}", construct=f"{wn}/{rn} separator")
        ck.require(all(len(c.args) == 1 and not c.keywords and c.func.attr == "split" for c in rs), "C20.keys", r, r.node, "keys are split completely", f"{rn} splits keys with a limit", construct=f"{rn} split unbounded")
        wv = [c for c in walk_own(w.node) if isinstance(c, ast.Call) and is_method_call(c, "to_dict")]
        rv = [c for c in walk_own(r.node) if isinstance(c, ast.Call) and norm(c.func) == "DataIndexEntry.from_dict"]
        ck.require(bool(wv) and bool(rv), "C20.keys", w, w.node, "values go through entry.to_dict / DataIndexEntry.from_dict", f"{wn}/{rn} do not use the entry converters", construct=f"{wn}/{rn} converters")
        g = ck.cfg(r)
        loops = [h for h in g.nodes.values() if h.kind == "for"]
        for h in loops:
            ad = [n for n in g.nodes.values() if h.id in n.loops for c in calls_at(n) if is_method_call(c, "add") and norm(c.func.value) == "index"]
            added = {norm(c.args[0]) for n in ad for c in calls_at(n) if is_method_call(c, "add") and c.args}
            ks = [n for n in g.nodes.values() if h.id in n.loops and n.kind == "stmt" and isinstance(n.ast, ast.Assign) and isinstance(n.ast.targets[0], ast.Attribute) and n.ast.targets[0].attr == "key" and norm(n.ast.targets[0].value) in added]
            ok = bool(ks) and bool(ad) and all("split(" in norm(k.ast.value) and norm(k.ast.value).startswith("tuple(") for k in ks)
            if ok:
                rr = g.reach([d for lab, d in h.succ if lab == "T"], skip_node=lambda x: x.id in {a.id for a in ad}, skip_edge=lambda a, l, b: l == "exc")
                ok = h.id not in rr
            ck.require(ok, "C20.keys", r, h, "every stored item is restored with its split key and added to the index", f"{rn} does not restore every item with entry.key = tuple(split key)")
        # writer iterates the whole index
        its = [norm(x.iter) for x in walk_own(w.node) if isinstance(x, (ast.For, ast.comprehension))]
        ck.require(any(i == "index.iteritems()" for i in its), "C20.keys", w, w.node, "writer iterates the whole index", f"{wn} iterates {its}", construct=f"{wn} / all items")


def _trie(ck: Checker) -> None:
    prog = ck.prog
    cls = prog.cls("index.index", "DataIndexTrie")
    dump = cls.methods.get("_dump")
    load = cls.methods.get("_load")
    if dump is None or load is None:
        raise AnalysisError("DataIndexTrie._dump/_load vanished")
    from ..an import result_sites

    d_src = [norm(st.value) for st in result_sites(ck.cfg(dump))]
    ck.require(any("value.to_dict()" in s and s.startswith("super()._dump(key") for s in d_src), "C20.trie", dump, dump.node, "_dump serialises value.to_dict()", f"_dump returns {d_src}")
    gl = ck.cfg(load)
    from ..an import flows_from_calls, reaching_defs

    fdc = [c for c in walk_own(load.node) if isinstance(c, ast.Call) and norm(c.func) == "DataIndexEntry.from_dict"]
    sup = [c for c in walk_own(load.node) if isinstance(c, ast.Call) and isinstance(c.func, ast.Attribute) and c.func.attr == "_load" and norm(c.func.value).startswith("super(")]
    okl = bool(fdc) and bool(sup)
    # the rebuilt entry: the local bound to from_dict(...); it must get `.key = key` before it can be returned
    built = [n for n in gl.nodes.values() if n.kind == "stmt" and isinstance(n.ast, ast.Assign) and isinstance(n.ast.targets[0], ast.Name) and any(n.ast.value is c for c in fdc)]
    okl = okl and bool(built)
    for bn in built:
        nm = bn.ast.targets[0].id
        keyset = {n.id for n in gl.nodes.values() if n.kind == "stmt" and isinstance(n.ast, ast.Assign) and norm(n.ast.targets[0]) == f"{nm}.key" and norm(n.ast.value) == load.pos_params[1]}
        r = gl.reach([d for lab, d in bn.succ if lab != "exc"], skip_node=lambda x: x.id in keyset, skip_edge=lambda a, l, b: l == "exc")
        okl = okl and bool(keyset) and gl.exit not in r
        # and it is what the method hands out
        okl = okl and any(flows_from_calls(gl, st.node, st.value, fdc) or (isinstance(st.value, ast.Name) and st.value.id == nm) for st in result_sites(gl))
    for c in fdc:
        okl = okl and bool(c.args) and flows_from_calls(gl, next(n for n in gl.nodes.values() if any(x is c for x in calls_at(n))), c.args[0], sup)
    ck.require(okl, "C20.trie", load, load.node, "_load rebuilds the entry with from_dict(super()._load(...)) and restores its key", "_load does not rebuild DataIndexEntry.from_dict(<decoded dict>) with entry.key = key")
    for name in ("__setitem__", "__delitem__", "delete_node"):
        m = cls.methods.get(name)
        if m is None:
            ck.fail("C20.trie", None, None, f"DataIndexTrie.{name} override vanished: the identity cache is no longer invalidated on {name}", construct=f"DataIndexTrie.{name}")
            continue
        g = ck.cfg(m)
        inv = {n.id for n in g.nodes.values() for c in calls_at(n) if is_method_call(c, "pop") and norm(c.func.value) == "self._cache" and c.args and norm(c.args[0]) == "key"}
        dele = [n for n in g.nodes.values() for c in calls_at(n) if isinstance(c.func, ast.Attribute) and norm(c.func.value).startswith("super(")]
        for dn in dele:
            w = avoiding_path(g, dn.id, lambda x: x.id in inv)
            ck.require(bool(inv) and w is None, "C20.trie", m, dn, "identity cache entry is dropped before the stored value changes", f"DataIndexTrie.{name} changes the stored value without invalidating the cached object: a stale entry is served after the change")
        ck.require(bool(dele), "C20.trie", m, m.node, "delegates to the JSON trie", f"DataIndexTrie.{name} does not delegate", construct=f"{name} / delegates")
    cl = cls.methods.get("close")
    if cl is not None:
        src = " ".join(norm(x) for x in walk_own(cl.node))
        ck.require("self._cache = {}" in src or "self._cache.clear()" in src, "C20.trie", cl, cl.node, "close() empties the identity cache", "close() keeps cached objects: after reopen stale objects are served")


def _listing_meta(ck: Checker) -> None:
    prog = ck.prog
    al = prog.func("hashfile.tree", "Tree.as_list")
    g = ck.cfg(al)
    ok = False
    # form A: one dict display  {**meta-part, **hash-part, PATH: join}
    dicts = [d for d in walk_own(al.node) if isinstance(d, ast.Dict) and any(k is None for k in d.keys)]
    for d in dicts:
        spreads = [norm(v) for k, v in zip(d.keys, d.values) if k is None]
        ok = any("meta.to_dict() if with_meta else {}" in s_ for s_ in spreads) and len(spreads) >= 2 and d.keys[-1] is not None
    # form B: row dict filled step by step:  row.update(meta.to_dict()) [if with_meta]; row.update(hash); row[PATH] = join
    if not ok:
        stores = [n for n in g.nodes.values() if n.kind == "stmt" and isinstance(n.ast, ast.Assign) and isinstance(n.ast.targets[0], ast.Subscript)
                  and isinstance(n.ast.value, ast.Call) and is_method_call(n.ast.value, "join")]
        for p_ in stores:
            row = norm(p_.ast.targets[0].value)
            ups = [(n, c) for n in g.nodes.values() for c in calls_at(n) if is_method_call(c, "update") and norm(c.func.value) == row]
            meta_up = [n for n, c in ups if c.args and norm(c.args[0]).endswith("meta.to_dict()")]
            hash_up = [n for n, c in ups if n not in meta_up]
            # form C: the row starts as the meta part:  row = meta.to_dict() if with_meta else {}
            for n in g.nodes.values():
                if n.kind == "stmt" and isinstance(n.ast, (ast.Assign, ast.AnnAssign)) and getattr(n.ast, "value", None) is not None \
                        and norm(n.ast.targets[0] if isinstance(n.ast, ast.Assign) else n.ast.target) == row:
                    v = n.ast.value
                    if norm(v).endswith("meta.to_dict()"):
                        meta_up.append(n)
                    elif isinstance(v, ast.IfExp) and norm(v.test) == "with_meta" and norm(v.body).endswith("meta.to_dict()") and norm(v.orelse) == "{}":
                        meta_up.append(None)
            if None in meta_up:
                meta_up = [n for n in meta_up if n is not None]
                if not meta_up and hash_up:
                    before = all(avoiding_path(g, p_.id, lambda x, h=h: x.id == h.id, start=p_.loops[-1] if p_.loops else None) is None for h in hash_up)
                    ok = before
                    continue
            if meta_up and hash_up:
                from ..an import cut

                guarded = all(cut(g, [n.id], lambda t, lab: t.kind == "test" and norm(t.ast) == "with_meta" and lab == "T") is None for n in meta_up)
                before = all(avoiding_path(g, p_.id, lambda x, h=h: x.id == h.id, start=p_.loops[-1] if p_.loops else None) is None for h in hash_up)
                ok = guarded and before
    ck.require(ok, "C20.listing", al, al.node, "with-meta listing merges meta.to_dict() (only when with_meta), the hash field and the path (path last)", "as_list does not merge meta.to_dict() (when with_meta), the hash field and the relpath in that order", construct="as_list row dict")
