"""Structural clauses added after the tenth round (again breaking changes disguised as refactorings)."""
from __future__ import annotations

import ast

from ..an import avoiding_path, is_method_call, node_defines, reaching_defs, yields_at
from ..cfg import calls_at
from ..core import Checker
from ..loader import norm, walk_expr, walk_own
from ..prov import call_name


def batch_lookup_yields_current(ck: Checker, rule: str) -> None:
    """State.get_many: what is yielded for a path was computed for *that path* - every local the yield reads is assigned
    in the same iteration on every path to it (a value left over from the previous path, e.g. after a swallowed
    FileNotFoundError, would be served as a hit for a file that is gone)."""
    fn = ck.prog.func("hashfile.state", "State.get_many")
    g = ck.cfg(fn)
    n = 0
    for y in g.nodes.values():
        if not (yields_at(y) and y.loops):
            continue
        head = y.loops[-1]
        hn = g.nodes[head]
        loopvars = {x.id for x in ast.walk(hn.ast.target) if isinstance(x, ast.Name)} if hn.kind == "for" else set()
        exprs = [x for x in ast.walk(y.ast) if isinstance(x, (ast.Yield, ast.YieldFrom)) and x.value is not None]
        names = {nm.id for e in exprs for nm in walk_expr(e.value) if isinstance(nm, ast.Name)} - loopvars
        names = {nm for nm in names if not fn.has_param(nm) and nm not in ("self", "None")}
        for nm in sorted(names):
            defs_in = {d.id for d in g.nodes.values() if head in d.loops and node_defines(d, nm)}
            if not defs_in:
                continue  # a global / builtin, or a loop invariant computed once before the loop
            n += 1
            # a statement that raises has not assigned: the exception edge out of a defining node still counts as "unassigned"
            starts = [d for lab, d in g.nodes[head].succ if lab == "T"]
            r = g.reach(starts, skip_edge=lambda a, lab, b: a.id in defs_in and lab != "exc")
            w = g.path_to(r, y.id) if y.id in r and y.id not in defs_in else None
            ck.require(bool(defs_in) and w is None, rule, fn, y, f"`{nm}` yielded for a path is computed in the same iteration on every path",
                       f"`{nm}` can reach the yield without having been assigned in this iteration: the previous path's value (a cached hash and its metadata) is served for the current path - e.g. for a file that has been deleted, where the single lookup reports a miss",
                       witness=g.fmt_path(w) if w else None, construct=f"{y.text()[:40]} / {nm} per iteration")
    ck.floor(rule, n, 1, "locals yielded per path in State.get_many")


def save_always_writes_dirs(ck: Checker, rule: str) -> None:
    """index.save.save: after the file objects were added every normal path goes on to the loop that builds and stores the
    directory objects - also when no file had to be copied (a re-run after an interrupted save must still write them)."""
    fn = ck.prog.func("index.save", "save")
    g = ck.cfg(fn)
    adds = [n for n in g.nodes.values() for c in calls_at(n) if is_method_call(c, "add") and len(c.args) >= 3 and n.loops]
    dirs = [n for n in g.nodes.values() for c in calls_at(n) if call_name(c) == "_save_dir_entry" and n.loops]
    ck.floor(rule, len(adds), 1, "file adds in index.save.save")
    ck.floor(rule, len(dirs), 1, "directory-entry saves in index.save.save")
    dir_heads = {d.loops[0] for d in dirs}
    outer = {a.loops[0] for a in adds}
    for h in outer:
        exits = [d for lab, d in g.nodes[h].succ if lab == "F"]
        r = g.reach(exits, skip_node=lambda x: x.id in dir_heads, skip_edge=lambda a, lab, b: lab == "exc", include_start=True)
        ok = g.exit not in r
        ck.require(ok, rule, fn, g.nodes[h], "once the files are added, the directory objects are always built and stored",
                   "save() can return after adding the file objects without building the directory objects (e.g. when nothing had to be copied): after an interrupted save the re-run never writes the .dir objects and the directory entries keep no hash",
                   witness=g.fmt_path(g.path_to(r, g.exit)) if not ok else None, construct="save / directory objects always written")


def local_init_forwards_options(ck: Checker, rule: str) -> None:
    """LocalHashFileDB.__init__: options the base classes act on (read_only above all) reach `super().__init__` - either
    through `**config`, or by name when the subclass names them in its own signature."""
    cls = ck.prog.cls("hashfile.db.local", "LocalHashFileDB")
    fn = cls.methods.get("__init__")
    if fn is None:
        ck.ok(rule, ck.prog.func("hashfile.db", "HashFileDB.__init__"), cls.node, "LocalHashFileDB inherits __init__", construct="LocalHashFileDB.__init__ / forwards options")
        return
    base = ck.prog.func("hashfile.db", "HashFileDB.__init__")
    sup = [c for c in walk_own(fn.node) if isinstance(c, ast.Call) and isinstance(c.func, ast.Attribute) and c.func.attr == "__init__" and norm(c.func.value).startswith("super(")]
    ck.floor(rule, len(sup), 1, "super().__init__ calls in LocalHashFileDB.__init__")
    a = fn.node.args
    named = [x.arg for x in a.posonlyargs + a.args + a.kwonlyargs][1:]
    base_named = set(base.pos_params[1:]) | set(base.kwonly_params)
    for c in sup:
        passed_kw = {k.arg for k in c.keywords if k.arg is not None}
        splat = [norm(k.value) for k in c.keywords if k.arg is None]
        n_pos = len(c.args)
        for i, p in enumerate(named):
            if p not in base_named:
                continue
            ok = p in passed_kw or any(isinstance(x, ast.Name) and x.id == p for x in c.args)
            ck.require(ok, rule, fn, c, f"`{p}` named in the subclass signature is forwarded to the base initialiser",
                       f"LocalHashFileDB.__init__ takes `{p}` by name but does not pass it on to super().__init__ (it no longer travels in **config either): every local store is created with the default, so e.g. a store opened read-only accepts gc / writes",
                       construct=f"super().__init__ / {p}")
        if a.kwarg is not None:
            ck.require(a.kwarg.arg in splat, rule, fn, c, "remaining options travel on through **config", f"**{a.kwarg.arg} is not forwarded to super().__init__", construct="super().__init__ / **config")


def state_rows_upserted_atomically(ck: Checker, rule: str) -> None:
    """HashesCache.set_many: every row is written by ONE statement that inserts or overwrites (an upsert / INSERT OR
    REPLACE) - never "look whether the key exists, then INSERT or UPDATE": between the look-up and the write another
    writer sharing the database can insert the same key, and the loser fails with a UNIQUE constraint error."""
    fn = ck.prog.func("hashfile.cache", "HashesCache.set_many")
    texts = [x.value for x in ast.walk(fn.node) if isinstance(x, ast.Constant) and isinstance(x.value, str)]
    joined = []
    for x in ast.walk(fn.node):
        if isinstance(x, (ast.Assign, ast.AnnAssign)) and getattr(x, "value", None) is not None:
            parts = [c.value for c in ast.walk(x.value) if isinstance(c, ast.Constant) and isinstance(c.value, str)]
            if parts:
                joined.append(" ".join(parts).upper())
    # statements kept as class-level constants and used here (`self._INSERT`)
    cls = fn.cls
    used_attrs = {a.attr for a in ast.walk(fn.node) if isinstance(a, ast.Attribute) and isinstance(a.value, ast.Name) and a.value.id in ("self", "cls")}
    if cls is not None:
        for st in cls.node.body:
            tg = st.targets[0] if isinstance(st, ast.Assign) and len(st.targets) == 1 else (st.target if isinstance(st, ast.AnnAssign) else None)
            if isinstance(tg, ast.Name) and tg.id in used_attrs and getattr(st, "value", None) is not None:
                parts = [c.value for c in ast.walk(st.value) if isinstance(c, ast.Constant) and isinstance(c.value, str)]
                if parts:
                    joined.append(" ".join(parts).upper())
    # ... or as module-level constants (possibly assembled from other module-level pieces with an f-string)
    mod_consts = {}
    for st in fn.module.tree.body:
        tg = st.targets[0] if isinstance(st, ast.Assign) and len(st.targets) == 1 else (st.target if isinstance(st, ast.AnnAssign) else None)
        if isinstance(tg, ast.Name) and getattr(st, "value", None) is not None:
            mod_consts[tg.id] = st.value

    def const_text(e, depth=0):
        out = []
        for c in ast.walk(e):
            if isinstance(c, ast.Constant) and isinstance(c.value, str):
                out.append(c.value)
            elif isinstance(c, ast.Name) and c.id in mod_consts and depth < 3:
                out.append(const_text(mod_consts[c.id], depth + 1))
        return " ".join(out)

    for nm in {x.id for x in ast.walk(fn.node) if isinstance(x, ast.Name) and isinstance(x.ctx, ast.Load) and x.id in mod_consts}:
        t_ = const_text(mod_consts[nm]).upper()
        if t_.strip():
            joined.append(t_)
    reads = [c for c in ast.walk(fn.node) if isinstance(c, ast.Call) and isinstance(c.func, ast.Attribute) and c.func.attr in ("get_many", "get", "fetchall", "fetchone")]
    sel = [t for t in joined if t.lstrip().startswith("SELECT")]
    ck.require(not reads and not sel, rule, fn, reads[0] if reads else fn.node, "set_many does not read the table before writing", "set_many reads the current rows before writing (check-then-insert): between the look-up and the write another writer sharing the database can insert the same key", construct="set_many / no read-before-write")
    writes = [t for t in joined if "INSERT" in t or "UPDATE " in t or "REPLACE" in t]
    ck.floor(rule, len(writes), 1, "SQL write statements in HashesCache.set_many")
    for t in writes:
        atomic = ("ON CONFLICT" in t and "DO UPDATE" in t) or "INSERT OR REPLACE" in t or t.lstrip().startswith("REPLACE")
        ck.require(atomic, rule, fn, fn.node, "rows are written by a single insert-or-overwrite statement",
                   f"`{t[:70]}...` is not an insert-or-overwrite: whether the key is new is decided by a separate look-up, so two writers recording the same new key race and one of them fails with a UNIQUE constraint error",
                   construct=f"set_many / {t[:30]}")
