"""Aliasing / one-shot lints shared by several properties.

Each is a repository-agnostic *necessary condition* for the per-call, per-iteration independence that the
properties take for granted; each reports a concrete construct.  They are run only over the functions of
the modules a property is anchored in, and every one has a positive control in /verif/seeded."""
from __future__ import annotations

import ast
from typing import Iterable, List

from ..an import node_defines, reaching_defs
from ..cfg import calls_at, node_exprs
from ..core import Checker
from ..loader import Func, norm, walk_expr, walk_own

_ONESHOT_CALLS = {"iter", "map", "filter", "zip", "reversed", "enumerate", "filterfalse", "takewhile", "dropwhile", "starmap", "chain", "islice", "compress", "accumulate"}


def _gen_callee(ck, fn, v) -> bool:
    """v is a call that some repository *generator* function / method may answer (its result is a one-shot iterator)"""
    if not isinstance(v, ast.Call):
        return False
    try:
        cands = ck.res.resolve(fn, v)
    except Exception:  # noqa: BLE001
        return False
    for cal in cands:
        if getattr(cal.module, "trusted", False):
            continue
        if any(isinstance(y, (ast.Yield, ast.YieldFrom)) for y in walk_own(cal.node)):
            return True
    return False
_MUTATORS = {"append", "extend", "add", "update", "insert", "setdefault", "pop", "remove", "clear", "appendleft", "discard", "popitem", "sort"}


def _is_fresh_mutable(v: ast.AST) -> bool:
    if isinstance(v, (ast.List, ast.Dict, ast.Set, ast.ListComp, ast.DictComp, ast.SetComp)):
        return True
    return isinstance(v, ast.Call) and isinstance(v.func, ast.Name) and v.func.id in ("list", "dict", "set", "defaultdict", "deque", "OrderedDict", "Counter") 


def module_funcs(ck: Checker, *mods: str) -> List[Func]:
    out = []
    for m in mods:
        out += [f for f in ck.prog.module(m).funcs.values()]
    # one Func may be registered under two names (renamed baseline functions)
    seen, uniq = set(), []
    for f in out:
        if id(f.node) not in seen:
            seen.add(id(f.node))
            uniq.append(f)
    return uniq


def check_oneshot(ck: Checker, rule: str, fns: Iterable[Func]) -> int:
    """A generator expression / iterator bound to a local must not be consumed inside a loop that does
    not also (re)create it, nor consumed twice in a row: the second consumer silently sees nothing."""
    n_checked = 0
    for fn in fns:
        g = ck.cfg(fn)
        for d in g.nodes.values():
            a = d.ast
            if not (d.kind == "stmt" and isinstance(a, (ast.Assign, ast.AnnAssign))):
                continue
            tg = a.targets[0] if isinstance(a, ast.Assign) else a.target
            v = a.value
            if not isinstance(tg, ast.Name) or v is None:
                continue
            lazy = isinstance(v, ast.GeneratorExp) or (isinstance(v, ast.Call) and isinstance(v.func, ast.Name) and v.func.id in _ONESHOT_CALLS) or _gen_callee(ck, fn, v)
            if not lazy:
                continue
            n_checked += 1
            uses = []
            for x in g.nodes.values():
                if x.id == d.id:
                    continue
                for e in node_exprs(x):
                    for nm in walk_expr(e):
                        if isinstance(nm, ast.Name) and nm.id == tg.id and isinstance(nm.ctx, ast.Load) and d in reaching_defs(g, x.id, tg.id):
                            uses.append(x)
            def incremental(x) -> bool:
                # next(it) / islice(it, n) inside a loop is deliberate step-wise consumption
                for e in node_exprs(x):
                    for c in walk_expr(e):
                        if isinstance(c, ast.Call) and isinstance(c.func, (ast.Name, ast.Attribute)) and (getattr(c.func, "id", None) or getattr(c.func, "attr", None)) in ("next", "islice") and c.args and norm(c.args[0]) == tg.id:
                            return True
                return False

            uses = [x for x in uses if not incremental(x)]
            bad_loop = [x for x in uses if any(lp not in d.loops for lp in x.loops)]
            # a use inside a comprehension / generator in the same statement is a loop as well
            if not bad_loop:
                for x in uses:
                    for e in node_exprs(x):
                        for comp in walk_expr(e):
                            if isinstance(comp, (ast.ListComp, ast.SetComp, ast.DictComp, ast.GeneratorExp)):
                                inner = [p for p in ([comp.elt] if not isinstance(comp, ast.DictComp) else [comp.key, comp.value]) + [i for g_ in comp.generators for i in g_.ifs] + [g_.iter for g_ in comp.generators[1:]]]
                                if any(isinstance(nm, ast.Name) and nm.id == tg.id for p in inner for nm in walk_expr(p)):
                                    bad_loop.append(x)
            ck.require(not bad_loop, rule, fn, bad_loop[0] if bad_loop else d,
                       f"one-shot iterator `{tg.id}` is not consumed inside a loop",
                       f"`{tg.id}` is a one-shot iterator ({norm(v)[:50]}) but is consumed inside a loop: after the first consumer (a membership test consumes up to the match) later look-ups see nothing / miss elements",
                       construct=f"{tg.id} = {norm(v)[:40]} / consumed in loop")
            twice = False
            for x in uses:
                if node_defines(x, tg.id):
                    continue  # `it = wrap(it)`: the iterator is handed on, later readers see the new binding
                r = g.reach([x.id], skip_node=lambda y, d=d, x=x: y.id == d.id or (y.id != x.id and bool(node_defines(y, tg.id))))
                if any(y.id in r and y.id != x.id for y in uses):
                    twice = True
            if not bad_loop:
                ck.require(not twice, rule, fn, d, f"one-shot iterator `{tg.id}` is consumed once",
                           f"`{tg.id}` is a one-shot iterator ({norm(v)[:50]}) but is consumed more than once along a path", construct=f"{tg.id} = {norm(v)[:40]} / consumed twice")
    return n_checked


def _is_lazy(v) -> bool:
    return isinstance(v, ast.GeneratorExp) or (isinstance(v, ast.Call) and isinstance(v.func, ast.Name) and v.func.id in _ONESHOT_CALLS)


def check_oneshot_args(ck: Checker, rule: str, fns: Iterable[Func]) -> int:
    """A generator expression / iterator handed to an in-repo function must not be consumed by that function
    inside a loop, nor twice along a path (the callee was written for a re-iterable collection)."""
    n_checked = 0
    for fn in fns:
        g = ck.cfg(fn)
        for x in g.nodes.values():
            for c in calls_at(x):
                cands = [(i, None, a) for i, a in enumerate(c.args)] + [(None, k.arg, k.value) for k in c.keywords if k.arg is not None]
                lazy_args = []
                for i, kw, a in cands:
                    if _is_lazy(a):
                        lazy_args.append((i, kw, a, norm(a)))
                    elif isinstance(a, ast.Name):
                        defs = reaching_defs(g, x.id, a.id)
                        if defs and all(d.kind == "stmt" and isinstance(d.ast, (ast.Assign, ast.AnnAssign)) and _is_lazy(getattr(d.ast, "value", None)) for d in defs):
                            lazy_args.append((i, kw, a, norm(defs[0].ast.value)))
                if not lazy_args:
                    continue
                for callee in ck.res.resolve(fn, c):
                    if callee.module.trusted if hasattr(callee.module, "trusted") else False:
                        continue
                    pp = callee.pos_params
                    off = 1 if callee.is_method and pp and pp[0] in ("self", "cls") else 0
                    for i, kw, a, what in lazy_args:
                        pname = kw if kw is not None else (pp[i + off] if i + off < len(pp) else None)
                        if pname is None or not callee.has_param(pname):
                            continue
                        n_checked += 1
                        gc_ = ck.cfg(callee)
                        uses = []
                        for y in gc_.nodes.values():
                            for e in node_exprs(y):
                                for nm in walk_expr(e):
                                    if isinstance(nm, ast.Name) and nm.id == pname and isinstance(nm.ctx, ast.Load) and not reaching_defs(gc_, y.id, pname):
                                        uses.append(y)
                        def loops_of(y):
                            # the iterable of a `for` is evaluated once, before its own loop
                            return [lp for lp in y.loops if not (y.kind == "for" and lp == y.id)]
                        in_loop = [y for y in uses if loops_of(y)]
                        twice = any(z.id in gc_.reach([y.id]) and z.id != y.id for y in uses for z in uses)
                        bad = in_loop[0] if in_loop else (uses[0] if twice else None)
                        ck.require(bad is None, rule, fn, x, f"the one-shot iterator passed as `{pname}` is consumed once by {callee.name}",
                                   f"`{what[:60]}` is a one-shot iterator, but {callee.name} consumes its parameter `{pname}` " + ("inside a loop" if in_loop else "more than once") + f" (L{getattr(bad.ast, 'lineno', '?') if bad is not None else '?'}: {bad.text()[:50] if bad is not None else ''}): after the first pass it is empty, so later look-ups silently see nothing",
                                   construct=f"{norm(c)[:50]} / one-shot argument {pname}")
    return n_checked


def check_chained_mutable(ck: Checker, rule: str, fns: Iterable[Func]) -> int:
    """`a = b = []` binds two names to ONE container."""
    n = 0
    for fn in fns:
        for st in walk_own(fn.node):
            if isinstance(st, ast.Assign):
                n += 1
                if len(st.targets) >= 2 and _is_fresh_mutable(st.value):
                    names = [norm(t) for t in st.targets]
                    muts = [c for c in walk_own(fn.node) if isinstance(c, ast.Call) and isinstance(c.func, ast.Attribute) and c.func.attr in _MUTATORS and norm(c.func.value) in names]
                    ck.require(not muts, rule, fn, st, "accumulators are separate objects",
                               f"`{norm(st)}` binds {names} to one and the same container, and it is filled through {sorted({norm(c.func.value) for c in muts})}: what is added under one name shows up under the other (double counting / double removal)",
                               construct=f"{norm(st)} / shared container")
    return n


def check_shared_return(ck: Checker, rule: str, fns: Iterable[Func]) -> int:
    """A function must not hand out a module-level (or class-level) mutable container that callers annotate."""
    n = 0
    for fn in fns:
        consts = getattr(fn.module, "consts", {})
        for r in walk_own(fn.node):
            if isinstance(r, ast.Return) and isinstance(r.value, ast.Name):
                n += 1
                v = consts.get(r.value.id)
                local = any(isinstance(x, ast.Name) and x.id == r.value.id and isinstance(x.ctx, ast.Store) for x in walk_own(fn.node)) or fn.has_param(r.value.id)
                if v is not None and not local and _is_fresh_mutable(v):
                    ck.fail(rule, fn, r, f"`return {r.value.id}` hands every caller the same module-level {type(v).__name__.lower()} object: a caller that annotates the result (info['name'] = ...) changes what every other caller sees",
                            construct=f"return {r.value.id} / shared module-level container")
    return n


def check_fresh_per_iteration(ck: Checker, rule: str, fn: Func) -> int:
    """A container that is filled inside a loop iteration and then stored away (appended to a queue /
    result list) in that iteration must be created in that iteration, otherwise all stored items alias it."""
    g = ck.cfg(fn)
    n = 0
    for x in g.nodes.values():
        if not x.loops:
            continue
        for c in calls_at(x):
            if not (isinstance(c.func, ast.Attribute) and c.func.attr in ("append", "appendleft", "add", "put") and len(c.args) == 1):
                continue
            for nm in walk_expr(c.args[0]):
                if not (isinstance(nm, ast.Name) and isinstance(nm.ctx, ast.Load)):
                    continue
                defs = reaching_defs(g, x.id, nm.id)
                if len(defs) != 1:
                    continue
                d = defs[0]
                v = getattr(d.ast, "value", None)
                if not (d.kind == "stmt" and v is not None and _is_fresh_mutable(v) and not isinstance(v, (ast.ListComp, ast.DictComp, ast.SetComp))):
                    continue
                n += 1
                head = x.loops[-1]
                if head in d.loops:
                    continue  # created in this iteration
                # created outside: is it mutated inside the loop?
                mutated = False
                for y in g.nodes.values():
                    if head not in y.loops:
                        continue
                    for c2 in calls_at(y):
                        if isinstance(c2.func, ast.Attribute) and c2.func.attr in _MUTATORS and norm(c2.func.value) == nm.id:
                            mutated = True
                    a = y.ast
                    if y.kind == "stmt" and isinstance(a, (ast.Assign, ast.AugAssign)):
                        tgts = a.targets if isinstance(a, ast.Assign) else [a.target]
                        if any(isinstance(t, ast.Subscript) and norm(t.value) == nm.id for t in tgts):
                            mutated = True
                ck.require(not mutated, rule, fn, x, f"`{nm.id}` stored per iteration is created per iteration",
                           f"`{nm.id}` is created once outside the loop, filled inside each iteration and stored by `{norm(c)[:50]}`: every stored item is the same object, so each one sees the entries of all iterations",
                           construct=f"{norm(c)[:50]} / {nm.id} shared across iterations")
    return n


def check_leaked_loopvar(ck: Checker, rule: str, fns: Iterable[Func]) -> int:
    """The variable of a `for` loop must not be read, after that loop, inside another loop or a comprehension: it then
    stands for the *last* element only, while the surrounding code runs once per element (`[(p, change.new.oid, i) for
    p, i in infos.items()]` after `for change in ...` files every path under the last change's object id)."""
    n_checked = 0
    for fn in fns:
        g = ck.cfg(fn)
        for h in g.nodes.values():
            if h.kind != "for":
                continue
            tnames = {x.id for x in ast.walk(h.ast.target) if isinstance(x, ast.Name)}
            if not tnames:
                continue
            n_checked += 1
            after = g.reach([d for lab, d in h.succ if lab == "F"], skip_node=lambda y, h=h: y.id == h.id, include_start=True)
            for xid in after:
                x = g.nodes[xid]
                if h.id in x.loops or x.id == h.id:
                    continue
                for e in node_exprs(x):
                    for comp in walk_expr(e):
                        multi = isinstance(comp, (ast.ListComp, ast.SetComp, ast.DictComp, ast.GeneratorExp))
                        if not multi and not x.loops:
                            continue
                        scope = comp if multi else e
                        bound = {y.id for g_ in getattr(scope, "generators", []) for y in ast.walk(g_.target) if isinstance(y, ast.Name)}
                        for nm in walk_expr(scope):
                            if isinstance(nm, ast.Name) and isinstance(nm.ctx, ast.Load) and nm.id in tnames and nm.id not in bound:
                                defs = reaching_defs(g, x.id, nm.id)
                                if defs and all(d.id == h.id for d in defs):
                                    ck.fail(rule, fn, x, f"`{nm.id}` is the variable of the loop at line {getattr(h.ast, 'lineno', '?')} and is read here, after that loop, inside {'a comprehension' if multi else 'another loop'}: it stands for the last element only, so every element handled here is paired with the last one's value",
                                            construct=f"{x.text()[:40]} / loop variable {nm.id} after its loop")
                        if not multi:
                            break
    return n_checked


def run_all(ck: Checker, rule: str, *mods: str, fresh_in: Iterable[Func] = ()) -> None:
    fns = module_funcs(ck, *mods)
    n = check_oneshot(ck, rule, fns) + check_oneshot_args(ck, rule, fns) + check_chained_mutable(ck, rule, fns) + check_shared_return(ck, rule, fns) + check_leaked_loopvar(ck, rule, fns)
    for f in fresh_in:
        n += check_fresh_per_iteration(ck, rule, f)
    ck.extra_decided.append(f"{rule}: in {', '.join(mods)} no one-shot iterator is consumed in a loop or twice, no `a = b = []` shares an accumulator, no function hands out a module-level mutable container" + (", and containers stored per loop iteration are created per iteration" if list(fresh_in) else ""))
    ck.ok(rule, fns[0], fns[0].node, f"aliasing / one-shot lints examined {n} candidate constructs in {', '.join(mods)}", construct=f"lints over {', '.join(mods)}")
