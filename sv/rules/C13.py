"""C13 - Cached and carried-over hashes are never stale."""
from __future__ import annotations

import ast
from typing import List, Optional, Set

from ..an import reaching_defs, value_alts, flows_from_calls, count_on_paths, cut, is_method_call, yields_at
from ..cfg import calls_at, node_exprs
from ..core import Checker
from ..loader import AnalysisError, Func, norm, walk_expr, walk_own
from ..prov import ELEM, ITEM, call_name, expand, expand1, get_arg, is_marker, refers_to_call, scope_of
from .generic_lints import run_all as _lints

TOKEN_FIELDS = ("ino", "mtime", "size")
META_EQ_FALSE_OK = {"remote", "is_link", "destination", "nlink"}


def _resolve_int(ck: Checker, fn: Func, e: ast.expr) -> Optional[int]:
    if isinstance(e, ast.Constant) and isinstance(e.value, int):
        return e.value
    if isinstance(e, ast.Attribute) and isinstance(e.value, ast.Name) and e.value.id in ("self", "cls"):
        c = ck.res.enclosing_class(fn)
        if c is not None:
            v = ck.prog.class_const(c, e.attr)
            if isinstance(v, ast.Constant) and isinstance(v.value, int):
                return v.value
    return None


def check(ck: Checker) -> None:
    _lints(ck, "C13.aliasing", "hashfile.state", "hashfile.hash", "index.checkout")
    ck.decided = [
        "C13.token: one token function, hashing the raw inode, mtime and size of the stat record, is used by every writer of a hash row and by the reader",
        "C13.hit: State._get returns a hit only across 'stored token == fresh token' and 'version absent or not newer'; get/get_many turn every failure into a miss and get_many yields exactly one row per requested path",
        "C13.algo: a (meta, hash) obtained from the state is used only across 'stored algorithm name == requested name' (hash_file, _get_hashes)",
        "C13.local: every State method taking an fs touches the hash/link tables only across isinstance(fs, LocalFileSystem)",
        "C13.batch: batched lookup uses chunks bounded by a constant <= 999, one placeholder per key, one answer per key; upsert runs inside one transaction",
        "C13.update: index update copies a hash only for UNCHANGED changes of a meta_only diff with full Meta equality (no meta_cmp_key); Meta keeps size/mtime/inode/... inside equality",
        "C13.md5: index.save.md5 keeps an entry's recorded hash without re-hashing only when the filesystem confirms the stored checksum",
        "C13.savepair: rows saved by _get_hashes / save_many pair each path with its own hash and its own stat record",
    ]
    ck.not_decided = ["whether (inode, mtime, size) really changes for a given mutation history (timestamp granularity) - runtime", "SQL text semantics"]
    ck.trusted = ["fsspec.utils.tokenize is injective enough on (ino, mtime, size)", "diskcache/SQLite transaction semantics"]
    _token(ck)
    _hit(ck)
    _algo(ck)
    _local(ck)
    _batch(ck)
    _update(ck)
    _md5(ck)
    _savepair(ck)
    _failed_not_recorded(ck)
    _preexisting_not_recorded(ck)
    from .build_common import check_zip_alignment_all

    nz = check_zip_alignment_all(ck, "C13.savepair", prog_func(ck, "index.checkout", "_create_files"),
                                 "entries are paired positionally with the paths/stats of another list: hashes are recorded in the state (and metas in the index) under the wrong files")
    ck.floor("C13.savepair", nz, 1, "positional pairings (zip) in index.checkout._create_files")
    _statkeys(ck)
    from . import round7 as _r7

    _r7.meta_from_info_own_keys(ck, "C13.algo")
    from . import round8 as _r8

    _r8.fs_hash_by_requested_name(ck, "C13.algo")
    from . import round10 as _r10

    _r10.batch_lookup_yields_current(ck, "C13.batch")
    _r7.state_hit_full_meta(ck, "C13.hit")


def prog_func(ck: Checker, mod: str, qual: str) -> Func:
    return ck.prog.func(mod, qual)


def _statkeys(ck: Checker) -> None:
    """The stat record used for tokens / Meta: its identity fields come from ONE stat result, and the
    keys the producers write are the keys the consumers read."""
    prog = ck.prog
    li = prog.func("fsutils", "_localfs_info")
    g = ck.cfg(li)
    produced = {}
    for n in g.nodes.values():
        if n.kind == "stmt" and n.ast is not None:
            for dct in [x for x in walk_expr(n.ast) if isinstance(x, ast.Dict)]:
                if any(isinstance(k, ast.Constant) and k.value == "ino" for k in dct.keys):
                    for k, v in zip(dct.keys, dct.values):
                        if isinstance(k, ast.Constant):
                            produced[k.value] = (n, v)
    ck.floor("C13.statkeys", len([k for k in produced if k in ("ino", "mtime", "size", "mode")]), 4, "identity fields in the local stat record")
    srcs = {}
    for fld in ("ino", "mtime", "size", "mode"):
        n, v = produced[fld]
        base = v.value if isinstance(v, ast.Attribute) else None
        if isinstance(v, ast.Name):
            # `mtime = out.st_mtime` read into a local earlier: the stat result is the one `out` named THERE
            dn = [d for d in reaching_defs(g, n.id, v.id)]
            if len(dn) == 1 and dn[0].kind == "stmt" and isinstance(dn[0].ast, (ast.Assign, ast.AnnAssign)) and isinstance(getattr(dn[0].ast, "value", None), ast.Attribute) \
                    and isinstance(dn[0].ast.value.value, ast.Name):
                b_ = dn[0].ast.value.value
                srcs[fld] = (b_.id, tuple(sorted(d.id for d in reaching_defs(g, dn[0].id, b_.id))))
                continue
        if base is None:
            alts = [a for a in value_alts(g, n, v, depth=3) if isinstance(a, ast.Attribute)]
            base = alts[0].value if alts else None
        if isinstance(base, ast.Name):
            defs = tuple(sorted(d.id for d in reaching_defs(g, n.id, base.id)))
            srcs[fld] = (base.id, defs)
        else:
            srcs[fld] = (norm(v), ())
    ck.require(len(set(srcs.values())) == 1, "C13.statkeys", li, produced["ino"][0],
               "inode, mtime, size and mode of the stat record come from one and the same stat result",
               f"the stat record mixes different stat results ({ {k: v[0] + str(list(v[1])) for k, v in srcs.items()} }): for a symlink the validity token describes the link while the bytes hashed are the target's")
    # consumers read the keys the producer writes
    tok = None
    for f in prog.module("hashfile.state").funcs.values():
        if f.cls is None and f.parent is None and any(isinstance(x, ast.Call) and call_name(x) == "tokenize" for x in walk_own(f.node)):
            tok = f
    if tok is not None:
        used = {x.slice.value for x in walk_own(tok.node) if isinstance(x, ast.Subscript) and isinstance(x.slice, ast.Constant) and isinstance(x.slice.value, str)}
        ck.require(used <= set(produced), "C13.statkeys", tok, tok.node, "the token reads keys the stat record provides", f"the token reads keys {sorted(used - set(produced))} that the local stat record never provides", construct="token keys vs stat record")
    fi = prog.func("hashfile.meta", "Meta.from_info")
    meta = prog.cls("hashfile.meta", "Meta")
    fields = [s_.target.id for s_ in meta.node.body if isinstance(s_, ast.AnnAssign) and isinstance(s_.target, ast.Name) and "ClassVar" not in norm(s_.annotation)]
    from .tree_common import resolve_const

    ctor_rets = [x for x in walk_own(fi.node) if isinstance(x, ast.Return) and isinstance(x.value, ast.Call) and call_name(x.value) in ("Meta", "cls")]
    ck.floor("C13.statkeys", len(ctor_rets), 1, "Meta(...) constructions returned by Meta.from_info")
    for r in ctor_rets:
        bound = {}
        for i, a in enumerate(r.value.args):
            if i < len(fields):
                bound[fields[i]] = a
        for k in r.value.keywords:
            bound[k.arg] = k.value
        for fld, key in (("inode", "ino"), ("mtime", "mtime"), ("size", "size")):
            a = bound.get(fld)
            okk = False
            got = None
            if isinstance(a, ast.Call) and is_method_call(a, "get") and a.args:
                got = resolve_const(ck, fi, a.args[0])
                okk = got == key
            elif isinstance(a, ast.Subscript):
                got = resolve_const(ck, fi, a.slice)
                okk = got == key
            ck.require(okk, "C13.statkeys", fi, r, f"Meta.{fld} is read from the stat record's '{key}'",
                       f"Meta.{fld} is read from key {got!r} but stat records carry it under '{key}': the field is always None and drops out of the metadata comparison that guards carried-over hashes", construct=f"Meta.from_info / {fld}")


def _token_funcs(ck: Checker, fn: Func) -> List[Func]:
    """Functions called in fn to compute the value stored/compared under 'checksum'."""
    out = []
    for c, cals in ck.res.calls_in(fn):
        for cal in cals:
            if cal.module is fn.module and cal.cls is None and cal.parent is None:
                src = " ".join(norm(x) for x in walk_own(cal.node) if isinstance(x, ast.Return) and x.value is not None)
                if "tokenize" in src:
                    out.append(cal)
    return out


def _readers(ck: Checker) -> List[Func]:
    """State methods that validate a stored row: they compare the stored 'checksum' field."""
    cls = ck.prog.cls("hashfile.state", "State")
    out = []
    for m in cls.methods.values():
        for x in walk_own(m.node):
            if isinstance(x, ast.Compare) and any(isinstance(y, ast.Subscript) and isinstance(y.slice, ast.Constant) and y.slice.value == "checksum" for y in walk_expr(x)):
                out.append(m)
                break
    if not out:
        raise AnalysisError("no State method compares the stored 'checksum' token (reader vanished)")
    return out


def _token(ck: Checker) -> None:
    prog = ck.prog
    users = [prog.func("hashfile.state", q) for q in ("State.save", "State.save_many")] + _readers(ck)
    toks = {}
    for u in users:
        fs = _token_funcs(ck, u)
        ck.require(bool(fs), "C13.token", u, u.node, f"{u.qual} computes the validity token through the shared token function", f"{u.qual} does not call the token function", construct=f"{u.qual} / token call")
        for f in fs:
            toks[f.fq] = f
    ck.require(len(toks) == 1, "C13.token", users[0], users[0].node, "writers and reader share one token function", f"writers and reader use different token functions: {sorted(toks)}", construct="token function identity")
    for tf in toks.values():
        rets = [r for r in walk_own(tf.node) if isinstance(r, ast.Return) and r.value is not None]
        p0 = tf.pos_params[0] if tf.pos_params else "info"
        for r in rets:
            tz = [c for c in walk_expr(r.value) if isinstance(c, ast.Call) and call_name(c) == "tokenize"]
            elems = []
            for c in tz:
                for a in c.args:
                    for alt in expand1(prog, tf, a):
                        if isinstance(alt, (ast.List, ast.Tuple)):
                            elems += [norm(e) for e in alt.elts]
                        else:
                            elems.append(norm(alt))
            for fld in TOKEN_FIELDS:
                raw = f"{p0}['{fld}']"
                ck.require(raw in elems, "C13.token", tf, r,
                           f"token covers the raw {fld} of the stat record",
                           f"token does not hash the raw `{raw}` (dropped, rounded or truncated): a change of {fld} alone would not invalidate the cached hash; hashed elements: {elems}",
                           construct=f"{norm(r)} / {fld}")
    # the token is computed on the stat record that belongs to the row's path
    for q in ("State.save", "State.save_many"):
        fn = prog.func("hashfile.state", q)
        g = ck.cfg(fn)
        for n in g.nodes.values():
            for c in calls_at(n):
                if any(x.fq in toks for x in ck.res.resolve(fn, c)) and c.args:
                    alts = [norm(a) for a in value_alts(g, n, c.args[0], depth=3)] + [norm(a) for a in expand1(prog, fn, c.args[0], levels=2)]
                    ok = any(a in ("info or fs.info(path)", "fs.info(path)", "info") for a in alts)
                    ck.require(ok, "C13.token", fn, c, "token is computed from the stat record of the row's own path", f"token input {alts} is not the stat record of the saved path", construct=f"{q}: {norm(c)}")


def _hit(ck: Checker) -> None:
    prog = ck.prog
    readers = _readers(ck)
    for fn in readers:
        g = ck.cfg(fn)
        fd = [c for c in walk_own(fn.node) if isinstance(c, ast.Call) and norm(c.func) == "HashInfo.from_dict"]
        hits = []
        for n in g.nodes.values():
            if n.kind != "stmt" or n.ast is None:
                continue
            v = getattr(n.ast, "value", None)
            if isinstance(n.ast, (ast.Return, ast.Assign)) and isinstance(v, ast.Tuple) and len(v.elts) >= 2 and any(flows_from_calls(g, n, e, fd) for e in v.elts):
                hits.append(n)
        ck.floor("C13.hit", len(hits), 1, f"hit values built in {fn.qual}")
        tok_calls = [c for c, cals in ck.res.calls_in(fn) if any("tokenize" in " ".join(norm(x) for x in walk_own(cal.node)) for cal in cals if cal.module is fn.module)]

        def token_equal(t, lab, g=g, fn=fn, tok_calls=tok_calls):
            e = t.ast
            if not (t.kind == "test" and isinstance(e, ast.Compare) and len(e.ops) == 1 and isinstance(e.ops[0], (ast.Eq, ast.NotEq))):
                return False
            sides = [e.left, e.comparators[0]]
            stored = any("['checksum']" in norm(a) for s_ in sides for a in value_alts(g, t, s_, depth=2))
            fresh = any(flows_from_calls(g, t, s_, tok_calls) for s_ in sides)
            if not (stored and fresh):
                return False
            return (isinstance(e.ops[0], ast.NotEq) and lab == "F") or (isinstance(e.ops[0], ast.Eq) and lab == "T")

        def version_ok(t, lab, g=g):
            e = t.ast
            if not (t.kind == "test" and isinstance(e, ast.Compare) and len(e.ops) == 1):
                return False
            left = " ".join(norm(a) for a in value_alts(g, t, e.left, depth=2)) if t.id >= 0 else norm(e.left)
            if "version" not in left.lower():
                return False
            op, r = e.ops[0], e.comparators[0]
            if isinstance(op, ast.Is) and isinstance(r, ast.Constant) and r.value is None:
                return lab == "T"
            if isinstance(op, ast.IsNot) and isinstance(r, ast.Constant) and r.value is None:
                return lab == "F"
            if "HASH_VERSION" in norm(r):
                if isinstance(op, ast.Gt):
                    return lab == "F"
                if isinstance(op, ast.LtE):
                    return lab == "T"
            return False

        for h in hits:
            start = h.loops[-1] if h.loops else None
            w1 = cut(g, [h.id], token_equal, start=start)
            ck.require(w1 is None, "C13.hit", fn, h, "a hit requires stored token == token of the file's current stat record",
                       "a cached hash can be returned although the stored token was not compared equal to the current one", witness=g.fmt_path(w1) if w1 else None, construct=f"{h.text()} / token")
            from ..an import with_flags as _wf

            lifted_v = _wf(g, version_ok, start=start)
            w2 = cut(g, [h.id], lambda t, lab: version_ok(t, lab) or lifted_v(t, lab), start=start)
            ck.require(w2 is None, "C13.hit", fn, h, "a hit requires the row's version to be absent (legacy) or not newer than HASH_VERSION",
                       "a row written by a newer format version can be returned as a hit", witness=g.fmt_path(w2) if w2 else None, construct=f"{h.text()} / version")
    reader_names = {r.name for r in readers}
    # get(): every non-miss return is the reader's result
    get = prog.func("hashfile.state", "State.get")
    gg = ck.cfg(get)
    if get not in readers:
        for n in gg.nodes.values():
            if n.kind == "stmt" and isinstance(n.ast, ast.Return) and n.ast.value is not None:
                v = n.ast.value
                miss = isinstance(v, ast.Tuple) and all(isinstance(x, ast.Constant) and x.value is None for x in v.elts)
                if miss:
                    continue
                calls = [c for c, _ in ck.res.calls_in(get) if isinstance(c.func, ast.Attribute) and c.func.attr in reader_names]
                ck.require(flows_from_calls(gg, n, v, calls), "C13.hit", get, n, "State.get returns only what the validating reader returned", f"State.get returns {norm(v)} which is not the validating reader's answer")
    gm = prog.func("hashfile.state", "State.get_many")
    g3 = ck.cfg(gm)
    loops = [h for h in g3.nodes.values() if h.kind == "for" and len(h.loops) == 1]
    ck.floor("C13.hit", len(loops), 1, "row loop in State.get_many")
    for h in loops:
        lo, hi, wit = count_on_paths(g3, [(h.id, "T")], {h.id, g3.exit, g3.raise_exit}, yields_at)
        ck.require(lo == 1 and hi == 1, "C13.hit", gm, h, "exactly one row is yielded per requested path", f"get_many yields between {lo} and {hi} rows for one requested path (batch and single lookups would disagree)",
                   witness=g3.fmt_path(wit["min"] if lo != 1 else wit["max"]) if (lo, hi) != (1, 1) else None, construct="for path, raw in ... / one yield")
        body = [x for x in g3.nodes.values() if h.id in x.loops]
        lv = h.ast.target.elts[0].id if isinstance(h.ast.target, ast.Tuple) and isinstance(h.ast.target.elts[0], ast.Name) else None
        for x in body:
            for e in node_exprs(x):
                for y in walk_expr(e):
                    if isinstance(y, ast.Yield) and isinstance(y.value, ast.Tuple):
                        first = norm(y.value.elts[0])
                        ck.require(first == lv, "C13.hit", gm, x, "each row is keyed by the requested path", f"row is keyed by {first}, not by the requested path")
                        rest = y.value.elts[1:]
                        miss = all(isinstance(r, ast.Constant) and r.value is None for r in rest)
                        if not miss and gm not in readers:
                            calls = [c for c, _ in ck.res.calls_in(gm) if isinstance(c.func, ast.Attribute) and c.func.attr in reader_names]
                            ck.require(all(flows_from_calls(g3, x, r, calls) for r in rest), "C13.hit", gm, x, "non-miss rows carry the validating reader's answer", f"get_many yields {norm(y.value)} not taken from the validating reader")


def _algo(ck: Checker) -> None:
    prog = ck.prog
    n_sites = 0
    # hash_file
    hf = prog.func("hashfile.hash", "hash_file")
    g = ck.cfg(hf)
    sget = [c for c, _ in ck.res.calls_in(hf) if is_method_call(c, "get") and norm(c.func.value) == "state"]
    for n in g.nodes.values():
        if n.kind == "stmt" and isinstance(n.ast, ast.Return) and n.ast.value is not None and flows_from_calls(g, n, n.ast.value, sget):
            n_sites += 1
            _algo_cut(ck, hf, g, n, sget)
    gh = prog.func("hashfile.build", "_get_hashes")
    g2 = ck.cfg(gh)
    smany = [c for c, _ in ck.res.calls_in(gh) if is_method_call(c, "get_many") and "state" in norm(c.func.value)]
    for n in g2.nodes.values():
        a = n.ast
        if n.kind == "stmt" and isinstance(a, ast.Assign) and isinstance(a.targets[0], ast.Subscript):
            # values drawn from the get_many loop
            if flows_from_calls(g2, n, a.value, smany):
                n_sites += 1
                _algo_cut(ck, gh, g2, n, smany)
    ck.floor("C13.algo", n_sites, 2, "consumers of state.get / state.get_many")
    # an index entry's hash is advertised to fs consumers (hash.py trusts info[<algorithm>]) under its
    # own algorithm name, never re-labelled
    ie = prog.func("index.index", "BaseDataIndex._info_from_entry")
    gi = ck.cfg(ie)
    from ..an import value_alts

    n_adv = 0
    for n in gi.nodes.values():
        a = n.ast
        if n.kind == "stmt" and isinstance(a, ast.Assign) and isinstance(a.targets[0], ast.Subscript) and any(norm(v).endswith("hash_info.value") for v in value_alts(gi, n, a.value, depth=2)):
            n_adv += 1
            keys = [norm(k) for k in value_alts(gi, n, a.targets[0].slice, depth=3)]
            finals = [k for k in keys if not k.isidentifier()]
            ok = bool(finals) and all(k.endswith("hash_info.name") for k in finals)
            ck.require(ok, "C13.algo", ie, n, "an entry's hash value is advertised under its own algorithm name",
                       f"the entry's hash value is advertised under {keys}: a legacy md5-dos2unix digest exposed as `md5` is trusted by hash_file/_hash_file as the md5 of the file",
                       construct=f"{n.text()[:60]} / info key")
    ck.floor("C13.algo", n_adv, 1, "hash advertisement in BaseDataIndex._info_from_entry")


def _algo_cut(ck: Checker, fn: Func, g, sink, calls) -> None:
    def name_matches(t, lab):
        e = t.ast
        if not (t.kind == "test" and isinstance(e, ast.Compare) and len(e.ops) == 1):
            return False
        l, r = norm(e.left), norm(e.comparators[0])
        if not ((l.endswith(".name") and r == "name") or (r.endswith(".name") and l == "name")):
            return False
        return (isinstance(e.ops[0], ast.Eq) and lab == "T") or (isinstance(e.ops[0], ast.NotEq) and lab == "F")

    w = cut(g, [sink.id], name_matches)
    ck.require(w is None, "C13.algo", fn, sink, "a state hit is used only when it was recorded for the requested algorithm",
               "a hash recorded for another algorithm can be used as the answer (e.g. md5-dos2unix digest served as md5)", witness=g.fmt_path(w) if w else None)


def _local(ck: Checker) -> None:
    prog = ck.prog
    cls = prog.cls("hashfile.state", "State")
    n_m = 0
    for name, m in cls.methods.items():
        if not m.has_param("fs"):
            continue
        n_m += 1
        g = ck.cfg(m)
        sinks = []
        for n in g.nodes.values():
            for e in node_exprs(n):
                txt = [norm(x) for x in walk_expr(e) if isinstance(x, ast.Attribute)]
                if any(t in ("self.hashes", "self.links") or t.startswith("self.hashes.") or t.startswith("self.links.") for t in txt) or any(
                    isinstance(c, ast.Call) and is_method_call(c, "set_link", "_get") and norm(c.func.value) == "self" for c in calls_at(n)):
                    sinks.append(n)

        def is_local(t, lab):
            e = t.ast
            if not (t.kind == "test" and isinstance(e, ast.Call) and call_name(e) == "isinstance" and len(e.args) == 2):
                return False
            return norm(e.args[0]) == "fs" and "LocalFileSystem" in norm(e.args[1]) and lab == "T"

        for s in {x.id: x for x in sinks}.values():
            w = cut(g, [s.id], is_local)
            ck.require(w is None, "C13.local", m, s, "table access only for a LocalFileSystem",
                       "the hash/link tables can be consulted for a non-local filesystem (an entry recorded for a local path would be returned for a different filesystem's file)",
                       witness=g.fmt_path(w) if w else None)
        if not sinks:
            ck.ok("C13.local", m, m.node, "method does not touch the tables", nontrivial=False)
    ck.floor("C13.local", n_m, 6, "State methods taking an fs")


def _batch(ck: Checker) -> None:
    prog = ck.prog
    fn = prog.func("hashfile.cache", "HashesCache.get_many")
    g = ck.cfg(fn)
    loops = [h for h in g.nodes.values() if h.kind == "for" and isinstance(h.ast.iter, ast.Call) and call_name(h.ast.iter) == "batched"]
    ck.floor("C13.batch", len(loops), 1, "chunk loop in HashesCache.get_many")
    for h in loops:
        c = h.ast.iter
        bound = None
        if len(c.args) > 1:
            for alt in value_alts(g, h, c.args[1], depth=3):
                bound = bound if bound is not None else _resolve_int(ck, fn, alt)
        ck.require(bound is not None and 0 < bound <= 999, "C13.batch", fn, h, f"chunk size bound {bound} <= 999 (SQLite host-parameter limit)",
                   f"chunk size bound is {bound if bound is not None else norm(c.args[1]) if len(c.args) > 1 else '?'}: exceeds the portable SQLite limit of 999 parameters")
        ck.require(norm(c.args[0]) == "keys", "C13.batch", fn, h, "all requested keys are chunked", f"chunks are drawn from {norm(c.args[0])}, not from the requested keys", construct="batched(keys, ...)")
        chunk = norm(h.ast.target)
        ph = [x for x in walk_own(fn.node) if isinstance(x, ast.BinOp) and isinstance(x.op, ast.Mult) and "'?'" in norm(x)]
        # the statement may be rebuilt only when the chunk length changes: `n = len(chunk)` kept in a local whose every
        # other value is a constant sentinel
        def _ph_txt(p_):
            t_ = norm(p_).replace(" ", "")
            for nm_ in {y.id for y in walk_expr(p_) if isinstance(y, ast.Name)}:
                vals = [getattr(d_, "value", None) for d_ in scope_of(fn).get(nm_) if d_.kind in ("assign", "annassign")]
                if vals and any(v_ is not None and norm(v_) == f"len({chunk})" for v_ in vals) and all(v_ is not None and (norm(v_) == f"len({chunk})" or isinstance(v_, ast.Constant) or (isinstance(v_, ast.UnaryOp) and isinstance(v_.operand, ast.Constant))) for v_ in vals):
                    # ... and the placeholder string is rebuilt whenever that local differs from the chunk length
                    t_ = t_.replace(nm_, f"len({chunk})")
            return t_

        ck.require(any(_ph_txt(p) in (f"'?'*len({chunk})", f"len({chunk})*'?'", f"['?']*len({chunk})") for p in ph), "C13.batch", fn, h,
                   "one placeholder per key of the chunk", f"placeholder count is not len({chunk}): {[norm(p) for p in ph]}", construct="'?' * len(chunk)")
        inner = [x for x in g.nodes.values() if x.kind == "for" and h.id in x.loops and x.id != h.id and norm(x.ast.iter) == chunk]
        ok = False
        for ih in inner:
            lo, hi, _ = count_on_paths(g, [(ih.id, "T")], {ih.id, g.exit}, yields_at)
            ok = lo == 1 and hi == 1
            for x in g.nodes.values():
                if ih.id in x.loops:
                    for e in node_exprs(x):
                        for y in walk_expr(e):
                            if isinstance(y, ast.Yield) and isinstance(y.value, ast.Tuple):
                                ok = ok and norm(y.value.elts[0]) == norm(ih.ast.target)
        ck.require(ok, "C13.batch", fn, h, "every key of every chunk is answered exactly once, keyed by itself", "batched lookup does not answer every key of a chunk exactly once", construct="for key in chunk: yield key, ...")
    sm = prog.func("hashfile.cache", "HashesCache.set_many")
    g2 = ck.cfg(sm)
    ex = [n for n in g2.nodes.values() for c in calls_at(n) if is_method_call(c, "executemany", "execute")]
    ck.floor("C13.batch", len(ex), 1, "statement executions in set_many")
    withs = [w for w in g2.nodes.values() if w.kind == "with" and any("transact" in norm(i.context_expr) for i in w.ast.items)]
    for n in ex:
        inside = any(n.ast is s or any(n.ast is y for y in ast.walk(s)) for w in withs for s in w.ast.body)
        ck.require(inside, "C13.batch", sm, n, "upsert runs inside one transact() block", "upsert statement is executed outside a transaction")


def _update(ck: Checker) -> None:
    prog = ck.prog
    fn = prog.func("index.update", "update")
    g = ck.cfg(fn)
    sinks = [n for n in g.nodes.values() if n.kind == "stmt" and isinstance(n.ast, ast.Assign) and norm(n.ast.targets[0]).endswith(".hash_info")]
    pre = [c for c, cals in ck.res.calls_in(fn) if any(x.name == "diff" and x.module.name.endswith("index.diff") for x in cals)]
    if not pre:
        # the carry-over no longer rests on the entry-by-entry metadata diff at all
        anyset = [x for x in ast.walk(fn.node) if isinstance(x, ast.Assign) and any(isinstance(t, ast.Attribute) and t.attr == "hash_info" for t in x.targets)]
        ck.fail("C13.update", fn, anyset[0] if anyset else fn.node,
                "index.update carries hashes over without the entry-by-entry metadata diff (diff(old, new, meta_only=True)): whether a file's size / mtime / inode changed is no longer what decides the carry-over",
                construct="update / no metadata diff")
        return
    ck.floor("C13.update", len(sinks), 1, "hash carry-over assignments in index.update")

    def unchanged(t, lab):
        e = t.ast
        if not (t.kind == "test" and isinstance(e, ast.Compare) and len(e.ops) == 1 and norm(e.left).endswith(".typ") and norm(e.comparators[0]) == "UNCHANGED"):
            return False
        return (isinstance(e.ops[0], ast.Eq) and lab == "T") or (isinstance(e.ops[0], ast.NotEq) and lab == "F")

    for s in sinks:
        w = cut(g, [s.id], unchanged)
        ck.require(w is None, "C13.update", fn, s, "hash is carried over only for UNCHANGED changes", "a hash can be carried over for a change that is not UNCHANGED", witness=g.fmt_path(w) if w else None)
        ck.require(norm(s.ast.value).endswith(".old.hash_info") and norm(s.ast.targets[0]).endswith(".new.hash_info"), "C13.update", fn, s, "new entry takes the old entry's hash", f"unexpected carry-over {s.text()}", construct=f"{s.text()} / direction")
    dcalls = [c for c, cals in ck.res.calls_in(fn) if any(x.name == "diff" and x.module.name.endswith("index.diff") for x in cals)]
    ck.floor("C13.update", len(dcalls), 1, "diff() calls in index.update")
    for c in dcalls:
        kw = {k.arg: k.value for k in c.keywords}
        mo = kw.get("meta_only")
        ck.require(mo is not None and isinstance(mo, ast.Constant) and mo.value is True, "C13.update", fn, c, "diff is metadata-only", "the carry-over diff is not meta_only=True", construct="diff(... meta_only=True)")
        ck.require("meta_cmp_key" not in kw and None not in kw, "C13.update", fn, c, "diff compares the full Meta (no meta_cmp_key)",
                   f"the carry-over diff restricts the comparison with meta_cmp_key={norm(kw['meta_cmp_key']) if 'meta_cmp_key' in kw else '**kwargs'}: a file replaced with identical listed fields but a different inode/mtime/size keeps its old hash",
                   construct="diff(... no meta_cmp_key)")
        ck.require("hash_only" not in kw, "C13.update", fn, c, "not hash_only", "hash_only diff cannot justify carrying a hash over", construct="diff(... no hash_only)")
        a0 = c.args[0] if len(c.args) > 0 else kw.get("old")
        a1 = c.args[1] if len(c.args) > 1 else kw.get("new")
        ck.require(a0 is not None and a1 is not None and norm(a0) == "old" and norm(a1) == "new", "C13.update", fn, c, "diff(old, new)", "diff arguments are not (old, new)", construct="diff(old, new)")
    # _diff_meta: without cmp_key compares the Meta objects by equality
    dm = prog.func("index.diff", "_diff_meta")
    gdm = ck.cfg(dm)
    full = [t for t in walk_own(dm.node) if isinstance(t, ast.Compare) and norm(t) in ("old != new", "new != old", "old == new", "new == old")]
    ck.require(bool(full), "C13.update", dm, dm.node, "_diff_meta compares whole Meta objects when no key is given", "_diff_meta no longer compares the full Meta objects", construct="old != new")
    meta = prog.cls("hashfile.meta", "Meta")
    need = {"size", "mtime", "inode", "isdir", "isexec", "version_id", "etag", "checksum", "md5"}
    seen = set()
    for s in meta.node.body:
        if isinstance(s, ast.AnnAssign) and isinstance(s.target, ast.Name) and "ClassVar" not in norm(s.annotation):
            nm = s.target.id
            seen.add(nm)
            eq_false = isinstance(s.value, ast.Call) and any(k.arg == "eq" and isinstance(k.value, ast.Constant) and k.value.value is False for k in s.value.keywords)
            if eq_false:
                ck.require(nm in META_EQ_FALSE_OK, "C13.update", None, None, f"{nm} excluded from equality (allowed)", f"Meta.{nm} is excluded from equality: a change of {nm} no longer invalidates a carried-over hash", construct=f"Meta.{nm} eq=False")
    ck.require(need <= seen, "C13.update", None, None, "Meta declares all validity fields", f"Meta lost fields {sorted(need - seen)}", construct="Meta fields")
    dec = " ".join(norm(d) for d in meta.node.decorator_list)
    ck.require("eq=False" not in dec.replace(" ", ""), "C13.update", None, None, "Meta generates field-wise equality", "Meta is declared eq=False: equality is identity", construct="@define Meta")


def _md5(ck: Checker) -> None:
    prog = ck.prog
    fn = prog.func("index.save", "md5")
    g = ck.cfg(fn)
    loops = [h for h in g.nodes.values() if h.kind == "for"]
    ck.floor("C13.md5", len(loops), 1, "entry loop in index.save.md5")
    h = loops[0]
    ev = h.ast.target.elts[-1].id if isinstance(h.ast.target, ast.Tuple) and isinstance(h.ast.target.elts[-1], ast.Name) else None
    keep = [n for n in g.nodes.values() if h.id in n.loops for c in calls_at(n) if is_method_call(c, "add") and c.args and norm(c.args[0]) == ev]
    ck.floor("C13.md5", len(keep), 1, "sites that keep an entry unchanged")
    mm = [c for c, cals in ck.res.calls_in(fn) if any(x.name == "_meta_matches" for x in cals)]

    def just(t, lab):
        if t.kind != "test" or lab != "T":
            return False
        if norm(t.ast).endswith(".isdir"):
            return True
        return refers_to_call(fn, t.ast, mm)

    for n in keep:
        w = cut(g, [n.id], just, start=h.id)
        ck.require(w is None, "C13.md5", fn, n, "recorded hash is kept without re-hashing only if the filesystem confirms the stored checksum (or the entry is a directory)",
                   "an entry's recorded hash can be kept without the filesystem confirming it", witness=g.fmt_path(w) if w else None)
    hf = [(n, c) for n in g.nodes.values() for c in calls_at(n) if call_name(c) == "hash_file"]
    for n, c in hf:
        a0 = c.args[0] if c.args else None
        ok = a0 is not None and any("get_storage(" in norm(a) and ev in norm(a) for a in expand1(prog, fn, a0, levels=2))
        ck.require(ok, "C13.md5", fn, n, "re-hash reads the entry's own storage path", f"re-hash reads {norm(a0) if a0 is not None else '?'} which is not the entry's own storage path", construct=f"{norm(c)} / path")
    mfn = prog.func("index.save", "_meta_matches")
    for r in [x for x in walk_own(mfn.node) if isinstance(x, ast.Return) and x.value is not None]:
        v = r.value
        if isinstance(v, ast.Constant):
            continue
        ck.require(isinstance(v, ast.Compare) and isinstance(v.ops[0], ast.Eq) and {norm(v.left), norm(v.comparators[0])} == {"old", "new"}, "C13.md5", mfn, r,
                   "match means stored checksum == filesystem's checksum", f"_meta_matches returns {norm(v)}")


def _savepair(ck: Checker) -> None:
    prog = ck.prog
    gh = prog.func("hashfile.build", "_get_hashes")
    for c, _ in ck.res.calls_in(gh):
        if is_method_call(c, "save_many") and c.args:
            ok = False
            why = norm(c.args[0])
            for alt in expand1(prog, gh, c.args[0]):
                if isinstance(alt, (ast.GeneratorExp, ast.ListComp)) and len(alt.generators) == 1 and not alt.generators[0].ifs:
                    gen = alt.generators[0]
                    bound = {x.id for x in walk_expr(gen.target) if isinstance(x, ast.Name)}
                    used = {x.id for x in walk_expr(alt.elt) if isinstance(x, ast.Name)}
                    items = isinstance(gen.iter, ast.Call) and is_method_call(gen.iter, "items")
                    ok = items and used <= bound and isinstance(alt.elt, ast.Tuple) and len(alt.elt.elts) == 3
                    why = norm(alt)
                    if ok and not all(isinstance(e, ast.Name) and e.id in bound for e in alt.elt.elts):
                        # (path, hash, None) would make the state stat the file again *after* it was hashed: a file
                        # rewritten in between gets its new inode/mtime/size paired with the old digest
                        ok = False
                        why = f"row {norm(alt.elt)} does not carry the stat taken before hashing (the state would re-stat the file after hashing: a concurrent rewrite pairs the new mtime/size with the old digest)"
            ck.require(ok, "C13.savepair", gh, c, "each saved row (path, hash, info) is taken from one item of the fresh-hash dict", f"saved rows are not projections of single dict items: {why}")
    add = prog.func("hashfile.db", "HashFileDB.add")
    his = [c for c in walk_own(add.node) if isinstance(c, ast.Call) and call_name(c) == "HashInfo"]
    for c in his:
        nm = next((k.value for k in c.keywords if k.arg == "name"), c.args[0] if c.args else None)
        ck.require(nm is not None and norm(nm) == "self.hash_name", "C13.savepair", add, c, "state rows for added objects are labelled with the store's own algorithm",
                   f"state rows for added objects are labelled {norm(nm) if nm is not None else None} instead of the store's hash_name: a digest of another algorithm is later served as a hit")
    sm = prog.func("hashfile.state", "State.save_many")
    g = ck.cfg(sm)
    apps = [(n, c) for n in g.nodes.values() for c in calls_at(n) if is_method_call(c, "append") and c.args and isinstance(c.args[0], ast.Tuple)]
    ck.floor("C13.savepair", len(apps), 1, "row appends in State.save_many")
    for n, c in apps:
        h = g.nodes[n.loops[-1]] if n.loops else None
        lv = norm(h.ast.target.elts[0]) if h is not None and isinstance(h.ast.target, ast.Tuple) else None
        ck.require(lv is not None and norm(c.args[0].elts[0]) == lv, "C13.savepair", sm, n, "row is stored under the path it was computed for", f"row key {norm(c.args[0].elts[0])} is not the item's path")



def _failed_not_recorded(ck: Checker) -> None:
    """index.checkout._create_files: a hash-state row is written only for a destination the bulk copy did
    not report as failed - otherwise a file that was already sitting there gets the target's hash."""
    from ..an import cut
    from ..cfg import calls_at

    prog = ck.prog
    fn = prog.func("index.checkout", "_create_files")
    g = ck.cfg(fn)
    saves = [(n, c) for n in g.nodes.values() for c in calls_at(n) if is_method_call(c, "save_many") and "state" in norm(c.func.value)]
    ck.floor("C13.savepair", len(saves), 1, "state.save_many in index.checkout._create_files")
    # sets filled by an error callback that is handed to the bulk copy
    failed_sets = set()
    for c in [x for x in walk_own(fn.node) if isinstance(x, ast.Call)]:
        oe = next((k.value for k in c.keywords if k.arg == "on_error"), None)
        if oe is None or not isinstance(oe, ast.Name):
            continue
        for child in fn.children.values():
            if child.name != oe.id:
                continue
            for x in walk_own(child.node):
                if isinstance(x, ast.Call) and is_method_call(x, "add", "append") and x.args and isinstance(x.args[0], ast.Name) and child.has_param(x.args[0].id):
                    recv = x.func.value
                    nm = norm(recv)
                    # the set may be bound through a default argument (_failed=failed_paths)
                    d = child.param_default(nm) if child.has_param(nm) else None
                    failed_sets.add(norm(d) if d is not None else nm)
                    # the bulk copy calls on_error(from_path, to_path, exc); the rows are guarded by destination
                    pp = list(child.pos_params)
                    ck.require(x.args[0].id in pp and pp.index(x.args[0].id) == 1, "C13.savepair", child, x,
                               "the error callback remembers the *destination* of the failed copy (second callback argument)",
                               f"the error callback remembers `{x.args[0].id}` (callback argument {pp.index(x.args[0].id) + 1 if x.args[0].id in pp else '?'}), not the destination: the row guard tests destinations, so a failed copy's pre-existing destination is still recorded with the target's hash")
    for n, c in saves:
        rows = norm(c.args[0].args[0] if isinstance(c.args[0], ast.Call) and isinstance(c.args[0].func, ast.Name) and c.args[0].func.id in ("list", "tuple") and len(c.args[0].args) == 1 else c.args[0]) if c.args else None
        apps = [x for x in g.nodes.values() for cc in calls_at(x) if is_method_call(cc, "append") and norm(cc.func.value) == rows]
        ck.floor("C13.savepair", len(apps), 1, "row appends for the hash-state update in _create_files")
        for x in apps:
            def not_failed(t, lab):
                e = t.ast
                if t.kind != "test" or not (isinstance(e, ast.Compare) and len(e.ops) == 1 and isinstance(e.ops[0], (ast.In, ast.NotIn))):
                    return False
                if norm(e.comparators[0]) not in failed_sets:
                    return False
                return (isinstance(e.ops[0], ast.In) and lab == "F") or (isinstance(e.ops[0], ast.NotIn) and lab == "T")

            w = cut(g, [x.id], not_failed)
            ck.require(bool(failed_sets) and w is None, "C13.savepair", fn, x,
                       "a hash-state row is recorded only for destinations the copy did not report as failed",
                       "a hash-state row (destination, target hash, stat) is recorded although the copy of that entry may have failed and been handed to the error callback: a file that already existed at the destination is then vouched for with the target's hash",
                       witness=g.fmt_path(w) if w else None, construct=f"{x.text()[:50]} / not failed")


def _preexisting_not_recorded(ck: Checker) -> None:
    """index.checkout._create_files: with a hard-link / symlink link type the bulk transfer leaves a destination that
    already exists alone *without reporting it* (dvc_objects.fs.generic.transfer: FileExistsError -> 'skipping').  Such a
    destination must not get a hash-state row either: the set the row guard tests also receives, before the transfer,
    the destinations that already exist."""
    from ..an import cut
    from ..cfg import calls_at

    prog = ck.prog
    fn = prog.func("index.checkout", "_create_files")
    g = ck.cfg(fn)
    guards = set()
    for t in g.nodes.values():
        e = t.ast
        if t.kind == "test" and isinstance(e, ast.Compare) and len(e.ops) == 1 and isinstance(e.ops[0], (ast.In, ast.NotIn)) and isinstance(e.comparators[0], ast.Name):
            nm = e.comparators[0].id
            if any(d.kind in ("assign", "annassign") and isinstance(d.value, ast.Call) and norm(d.value) == "set()" for d in scope_of(fn).get(nm)):
                guards.add(nm)
    tr = [n for n in g.nodes.values() for c in calls_at(n) if call_name(c) == "transfer" and any(k.arg == "links" for k in c.keywords)]
    ck.floor("C13.savepair", len(tr), 1, "bulk transfer calls in _create_files")
    ok = False
    for n in g.nodes.values():
        for c in calls_at(n):
            if is_method_call(c, "update", "add") and isinstance(c.func.value, ast.Name) and c.func.value.id in guards and c.args:
                txt = norm(c.args[0])
                # `guard.update(d for d in dests if fs.exists(d))`, or the same as a loop: `if fs.exists(d): guard.add(d)`
                by_test = is_method_call(c, "add") and cut(g, [n.id], lambda t, lab: t.kind == "test" and lab == "T" and "exists(" in norm(t.ast)) is None
                if ("exists(" in txt or by_test) and any(t_.id in g.reach([n.id]) for t_ in tr):
                    ok = True
    ck.require(ok, "C13.savepair", fn, tr[0], "destinations that already exist are excluded from the hash-state update when links may be skipped",
               "nothing excludes a destination that already existed from the hash-state update: with a hardlink / symlink link type the bulk transfer skips an existing destination silently, so a pre-existing file with different content gets the target's hash recorded in the state",
               construct="_create_files / pre-existing destinations excluded")
