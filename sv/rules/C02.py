"""C02 - Stage -> store -> checkout round trip reproduces the data exactly."""
from __future__ import annotations

import ast

from ..an import avoiding_path, flows_from_calls, is_method_call, reaching_defs, value_alts
from ..cfg import calls_at
from ..core import Checker
from ..loader import Func, norm, walk_expr, walk_own
from ..prov import call_name, expand1, get_arg, scope_of
from .build_common import check_zip_alignment_all, node_of
from .C09 import rows_rule
from .C17 import _children
from .tree_common import check_from_list_rows, check_sep


def check(ck: Checker) -> None:
    from .generic_lints import run_all as _lints_

    _lints_(ck, "C02.aliasing", "hashfile.checkout")
    ck.decided = [
        "C02.sep: Tree.as_list / from_list use the same path field and '/' separator (unbounded split)",
        "C02.zipalign: in _build_files every zip() pairs file names with paths that take order and length from the same listing",
        "C02.walk: _build_tree keys each file by (relative dir parts of its walk root, file name) - the prefix cut from the root is the separator-normalised staged path - and adds every built file (no filter)",
        "C02.meta: reported Meta has nfiles=len(tree) and size accumulated over the same rows",
        "C02.checkout.pair: object checkout links cache.oid_to_path(change.new.oid) to join(path, *change.new.key) of the same change",
        "C02.index.pair: index checkout pairs each entry's storage path with that entry's workspace path, one appended row per entry",
        "C02.children: loading a directory object into an index stores every row and every intermediate directory",
        "C02.load: Tree.load parses the stored listing and keeps the requested hash_info / store path; every list entry yields a row from its own data",
    ]
    ck.not_decided = ["byte equality of copied files", "that fs.walk enumerates every file", "filesystem name encoding"]
    ck.trusted = ["fs.walk / os.walk", "generic.transfer copies src[i] to dest[i]"]
    prog = ck.prog
    check_sep(ck, "C02.sep")
    bf = prog.func("hashfile.build", "_build_files")
    nz = check_zip_alignment_all(ck, "C02.zipalign", bf, "file names would be attached to other files' hashes, or files dropped from the listing")
    ck.floor("C02.zipalign", nz, 2, "zip() pairings in _build_files")
    _walk(ck)
    _checkout_pair(ck)
    rows_rule(ck, "C02.index.pair")
    _children(ck, rule="C02.children")
    _load(ck)
    check_from_list_rows(ck, "C02.load")
    from . import round4 as _r4

    _r4.tree_load_rejects_only_nonlist(ck, "C02.load")
    _r4.failures_always_raised(ck, "C02.checkout.pair")
    from . import round7 as _r7

    _r7.from_list_splits_raw_relpath(ck, "C02.sep")



def _walk(ck: Checker) -> None:
    prog = ck.prog
    bt = prog.func("hashfile.build", "_build_tree")
    g = ck.cfg(bt)
    walk_loops = [h for h in g.nodes.values() if h.kind == "for" and isinstance(h.ast.iter, ast.Call) and call_name(h.ast.iter) == "_walk_files"]
    ck.floor("C02.walk", len(walk_loops), 1, "walk loop in _build_tree")
    wh = walk_loops[0]
    root, files = [norm(t) for t in wh.ast.target.elts]
    bcalls = [c for c in walk_own(bt.node) if isinstance(c, ast.Call) and call_name(c) == "_build_files"]
    bf = prog.func("hashfile.build", "_build_files")

    def _a(c, i):
        a = get_arg(c, bf, bf.pos_params[i], pos=i) if len(bf.pos_params) > i else None
        return norm(a) if a is not None else None

    ck.require(bool(bcalls) and all(_a(c, 0) == root and _a(c, 1) == files for c in bcalls), "C02.walk", bt, wh, "files of a walk step are built with that step's root", "_build_files is not called with the (root, files) of the same walk step", construct="_build_files(root, files, ...)")
    rows = [h for h in g.nodes.values() if h.kind == "for" and wh.id in h.loops and h.id != wh.id and isinstance(h.ast.iter, ast.Call) and is_method_call(h.ast.iter, "items")]
    ck.floor("C02.walk", len(rows), 1, "row loop over the built files")
    rh = rows[0]
    ck.require(flows_from_calls(g, rh, rh.ast.iter.func.value, bcalls), "C02.walk", bt, rh, "rows are the result of _build_files for this root", "the rows added to the tree are not the result of _build_files for this walk step")
    # the tree being built: any local bound to a fresh Tree() (and its plain aliases)
    tree_names = {"tree"} | {norm(n.ast.targets[0]) for n in g.nodes.values() if n.kind == "stmt" and isinstance(n.ast, ast.Assign) and isinstance(n.ast.targets[0], ast.Name) and isinstance(n.ast.value, ast.Call) and call_name(n.ast.value) == "Tree" and not n.ast.value.args}
    for _ in range(2):
        tree_names |= {norm(n.ast.targets[0]) for n in g.nodes.values() if n.kind == "stmt" and isinstance(n.ast, ast.Assign) and isinstance(n.ast.targets[0], ast.Name) and isinstance(n.ast.value, ast.Name) and n.ast.value.id in tree_names}
    adds = [(n, c) for n in g.nodes.values() if rh.id in n.loops for c in calls_at(n) if is_method_call(c, "add") and norm(c.func.value) in tree_names]
    ck.floor("C02.walk", len(adds), 1, "tree.add in the row loop")
    an, ac = adds[0]
    r = g.reach([d for lab, d in rh.succ if lab == "T"], skip_node=lambda x: x.id == an.id, skip_edge=lambda a, l, b: l == "exc")
    ck.require(rh.id not in r, "C02.walk", bt, rh, "every built file is added to the tree (no size/name filter)", "a built file can be skipped without being added to the tree (e.g. empty files dropped)", witness=g.fmt_path(g.path_to(r, rh.id)) if rh.id in r else None, construct="for fname, (meta, hi) in objects.items() / NODROP")
    fname = norm(rh.ast.target.elts[0]) if isinstance(rh.ast.target, ast.Tuple) else None
    keyalts = [a for a in value_alts(g, an, ac.args[0], depth=2)]
    ktuple = next((a for a in keyalts if isinstance(a, ast.Tuple) and len(a.elts) == 2 and isinstance(a.elts[0], ast.Starred) and norm(a.elts[1]) == fname), None)
    ck.require(ktuple is not None, "C02.walk", bt, an, "tree key is (*relative dir parts, file name)", f"tree key is {[norm(a) for a in keyalts]}")
    # relative-key derivation: every definition that can reach the key's prefix
    def closure_defs(at, name, seen=None):
        seen = seen if seen is not None else set()
        out = []
        for d in reaching_defs(g, at.id, name):
            if d.id in seen:
                continue
            seen.add(d.id)
            v = getattr(d.ast, "value", None)
            if isinstance(v, ast.Name):
                out += closure_defs(d, v.id, seen)
            else:
                out.append(d)
        return out

    rk_name = norm(ktuple.elts[0].value) if ktuple is not None and isinstance(ktuple.elts[0].value, ast.Name) else None
    rk = closure_defs(an, rk_name) if rk_name else []
    nontrivial = [n for n in rk if not (isinstance(getattr(n.ast, "value", None), ast.Tuple) and not n.ast.value.elts)]
    ck.floor("C02.walk", len(nontrivial), 1, "relative key derivations")
    for n in nontrivial:
        v = n.ast.value
        t = norm(v)
        if "relparts(" in t or "relpath(" in t:
            ck.require(root in t and "path" in t, "C02.walk", bt, n, "relative key via relparts(root, path)", f"relative key {t} is not relative to the staged path")
            continue
        # string slicing form: root[len(path) + 1:].split(fs.sep)
        from ..prov import expand_txt as _etxt

        import re as _re

        t2 = t
        for nm_ in {x.id for x in walk_expr(v) if isinstance(x, ast.Name)}:
            ds_ = [d_ for d_ in scope_of(bt).get(nm_) if d_.kind in ("assign", "annassign")]
            if len(ds_) == 1 and isinstance(ds_[0].value, ast.Attribute) and not bt.has_param(nm_):
                t2 = _re.sub(rf"\b{nm_}\b", norm(ds_[0].value), t2)  # e.g. `sep = fs.sep`
        ok = any(f"{root}[len(path) + 1:]" in t_ and ".split(fs.sep)" in t_ for t_ in [t, t2] + [norm(z) for z in expand1(prog, bt, v, levels=2)])
        ck.require(ok, "C02.walk", bt, n, "relative key is root with the staged path and one separator cut off, split on the fs separator", f"unrecognised relative key derivation {t}")
        defs = reaching_defs(g, n.id, "path")
        okn = bool(defs) and all(isinstance(getattr(d.ast, "value", None), ast.Call) and is_method_call(d.ast.value, "rstrip") and norm(d.ast.value.func.value) == "path" for d in defs)
        ck.require(okn, "C02.walk", bt, n, "the staged path is separator-normalised (rstrip) before its length is used to cut the walk root",
                   "the walk root is cut by len(path) + 1 but `path` may still carry a trailing separator: relative paths lose their first character", construct=f"{n.text()} / path normalised")
        # guard: only when root != path
        from ..an import cut

        from ..an import eq_edge

        w = cut(g, [n.id], lambda tt, lab: eq_edge(tt, lab, root, "path") is False, start=wh.id)
        ck.require(w is None, "C02.walk", bt, n, "slicing is applied only to proper sub-directories (root != path)", "relative-key slicing is applied to the top-level root as well", construct=f"{n.text()} / root != path")
    # meta
    metas = [c for c in walk_own(bt.node) if isinstance(c, ast.Call) and call_name(c) == "Meta" and any(k.arg == "nfiles" for k in c.keywords) and any(k.arg == "size" for k in c.keywords)]
    ck.floor("C02.meta", len(metas), 1, "tree Meta constructions")
    size_name = None
    for m in metas:
        kw = {k.arg: k.value for k in m.keywords}
        nf = kw["nfiles"]
        nf_txts = {norm(nf)}
        if isinstance(nf, ast.Name):
            # `nfiles = len(tree)` computed once and used for the Meta and the emptiness check
            ds_ = [d for d in scope_of(bt).get(nf.id) if d.kind in ("assign", "annassign")]
            if len(ds_) == 1 and len(scope_of(bt).get(nf.id)) == 1 and getattr(ds_[0], "value", None) is not None:
                # ... after the tree is complete: no tree.add can follow the count
                gb = ck.cfg(bt)
                dn = [x for x in gb.nodes.values() if x.ast is ds_[0].node]
                add_nodes = {x.id for x in gb.nodes.values() for c_ in calls_at(x) if is_method_call(c_, "add") and norm(c_.func.value) in tree_names}
                if dn and not (add_nodes & set(gb.reach([dn[0].id]))):
                    nf_txts.add(norm(ds_[0].value))
        ck.require(bool(nf_txts & {f"len({t_})" for t_ in tree_names}) and isinstance(kw["size"], ast.Name), "C02.meta", bt, m, "nfiles=len(tree), size=accumulated size", f"tree meta is {norm(m)}")
        if isinstance(kw["size"], ast.Name):
            size_name = kw["size"].id

    def accumulates_rows(name: str, depth: int = 0) -> bool:
        """`name` grows by the size of every row added in the row loop (directly, or through a per-step subtotal)."""
        if depth > 3:
            return False
        augs_ = [n for n in g.nodes.values() if n.kind == "stmt" and isinstance(n.ast, ast.AugAssign) and norm(n.ast.target) == name and isinstance(n.ast.op, ast.Add)]
        if not augs_:
            return False
        for a in augs_:
            v = a.ast.value
            if rh.id in a.loops and ".size" in norm(v):
                r_ = g.reach([d for lab, d in rh.succ if lab == "T"], skip_node=lambda x: x.id == a.id, skip_edge=lambda p_, l, q_: l == "exc")
                if rh.id in r_:
                    return False
                continue
            alts = [x for x in value_alts(g, a, v, depth=3) if isinstance(x, ast.Name)]
            if wh.id in a.loops and any(accumulates_rows(x.id, depth + 1) for x in alts if x.id != name):
                continue
            return False
        return True

    ok = size_name is not None and accumulates_rows(size_name)
    augs = [n for n in g.nodes.values() if n.kind == "stmt" and isinstance(n.ast, ast.AugAssign) and norm(n.ast.target) == (size_name or "size")]
    ck.require(ok, "C02.meta", bt, augs[0] if augs else bt.node, "total size accumulates every added file's size", "total size is not accumulated for every row added to the tree")
    dg = [n for n in g.nodes.values() for c in calls_at(n) if is_method_call(c, "digest") and norm(c.func.value) in tree_names]
    rets = [n for n in g.nodes.values() if n.kind == "stmt" and isinstance(n.ast, ast.Return) and not n.loops and any(isinstance(x, ast.Name) and x.id in tree_names for x in walk_expr(n.ast))]
    for r_ in rets:
        if avoiding_path(g, r_.id, lambda x: x.id == wh.id) is None:
            ck.require(bool(dg) and avoiding_path(g, r_.id, lambda x: x.id in {d.id for d in dg}, start=wh.id) is None, "C02.meta", bt, r_, "the built tree is digested before it is returned", "a freshly built tree can be returned without digest()")


def _flow_expand(g, n, e, depth: int = 5) -> str:
    """text of e at node n with every local that has exactly one reaching plain assignment put back (flow-sensitive)"""
    import copy as _copy

    if depth <= 0:
        return ast.unparse(e)

    class R(ast.NodeTransformer):
        def visit_Name(self, x):
            if not isinstance(x.ctx, ast.Load):
                return x
            ds = reaching_defs(g, n.id, x.id)
            val = None
            if len(ds) == 1 and ds[0].kind == "stmt" and isinstance(ds[0].ast, ast.Assign) and len(ds[0].ast.targets) == 1 and ds[0].id != n.id:
                tg_, v_ = ds[0].ast.targets[0], ds[0].ast.value
                if isinstance(tg_, ast.Name):
                    val = v_
                elif isinstance(tg_, (ast.Tuple, ast.List)) and isinstance(v_, (ast.Tuple, ast.List)) and len(tg_.elts) == len(v_.elts):
                    for t2, v2 in zip(tg_.elts, v_.elts):
                        if isinstance(t2, ast.Name) and t2.id == x.id:
                            val = v2
            if val is not None:
                inner = _flow_expand(g, ds[0], val, depth - 1)
                try:
                    return ast.parse(inner, mode="eval").body
                except SyntaxError:
                    return x
            return x

    from ..inline import clean_copy

    # a clean copy: norm() caches its text on the node, and a cached text copied along would hide the substitution
    return ast.unparse(R().visit(clean_copy(e)))


def _checkout_pair(ck: Checker) -> None:
    prog = ck.prog
    co = prog.func("hashfile.checkout", "_checkout")
    g = ck.cfg(co)
    cf = prog.func("hashfile.checkout", "_checkout_file")
    calls = [(n, c) for n in g.nodes.values() for c in calls_at(n) if any(x.fq == cf.fq for x in ck.res.resolve(co, c))]
    ck.floor("C02.checkout.pair", len(calls), 1, "per-file checkout calls in _checkout")
    for n, c in calls:
        h = g.nodes[n.loops[-1]] if n.loops else None
        lv = norm(h.ast.target) if h is not None else None
        pa = get_arg(c, cf, "path")
        ch = get_arg(c, cf, "change")
        palts = [norm(a) for a in expand1(prog, co, pa, levels=2)] if pa is not None else []
        if pa is not None:
            palts.append(_flow_expand(g, n, pa))
            if isinstance(pa, ast.Name):
                # a destination assigned in both arms of a conditional expression: each arm on its own
                for d_ in reaching_defs(g, n.id, pa.id):
                    if d_.kind == "stmt" and isinstance(d_.ast, ast.Assign):
                        palts.append(_flow_expand(g, d_, d_.ast.value))
        ok = ch is not None and norm(ch) == lv and any(f"*{lv}.new.key" in p and ".join(path" in p for p in palts)
        ck.require(ok, "C02.checkout.pair", co, n, "destination is join(path, *change.new.key) of the change being checked out", f"destination {palts} is not built from the key of the change passed along ({norm(ch) if ch is not None else None})")
        it = norm(h.ast.iter) if h is not None else ""
        ck.require("diff.added" in it and "diff.modified" in it, "C02.checkout.pair", co, h or n, "both added and modified entries are materialised", f"the materialising loop iterates {it}", construct="for change in chain(diff.added, diff.modified)")
        # NODROP: the only skip is the directory case
        starts = [d for lab, d in h.succ if lab == "T"]
        mk = {x.id for x in g.nodes.values() if h.id in x.loops for cc in calls_at(x) if is_method_call(cc, "makedirs")}
        r = g.reach(starts, skip_node=lambda x: x.id == n.id or x.id in mk, skip_edge=lambda a, l, b: False)
        ck.require(h.id not in r, "C02.checkout.pair", co, h, "every added/modified entry is either created as a directory or checked out as a file", "an added/modified entry can be skipped", construct="materialising loop / NODROP")
    g2 = ck.cfg(cf)
    from ..prov import expand_txt as _et

    n_links = 0
    for n in g2.nodes.values():
        for c in calls_at(n):
            cal = ck.res.resolve(cf, c)
            for x in cal:
                if x.name not in ("__call__", "_relink"):
                    continue
                n_links += 1
                sp, dp = ("from_path", "to_path") if x.name == "__call__" else ("cache_info", "path")
                sa, da = get_arg(c, x, sp), get_arg(c, x, dp)
                # compared after expanding locals: what matters is which object's cache path is linked to which workspace path
                salts = set(_et(prog, cf, sa)) if sa is not None else set()
                dalts = set(_et(prog, cf, da)) if da is not None else set()
                ck.require(salts == {"cache.oid_to_path(change.new.oid.value)"} and dalts == {"path"}, "C02.checkout.pair", cf, n, "links the cache path of change.new.oid -> path",
                           f"link call source/destination are {sorted(salts)} -> {sorted(dalts)} (expected the cache path of change.new.oid -> path)", construct=f"{norm(c)[:60]} / source,dest")
                break
    ck.floor("C02.checkout.pair", n_links, 1, "link / relink calls in _checkout_file")


def _load(ck: Checker) -> None:
    prog = ck.prog
    ld = prog.func("hashfile.tree", "Tree.load")
    from ..prov import expand_txt

    # the tree object: the local bound to the from_list(...) result; every field is compared after expanding locals
    fl_calls = [n for n in walk_own(ld.node) if isinstance(n, ast.Assign) and len(n.targets) == 1 and isinstance(n.targets[0], ast.Name)
                and isinstance(n.value, ast.Call) and isinstance(n.value.func, ast.Attribute) and n.value.func.attr == "from_list"]
    ck.floor("C02.load", len(fl_calls), 1, "from_list call in Tree.load")
    tname = fl_calls[0].targets[0].id
    src = {}
    for n in walk_own(ld.node):
        if isinstance(n, ast.Assign) and len(n.targets) == 1 and isinstance(n.targets[0], ast.Attribute) and isinstance(n.targets[0].value, ast.Name) and n.targets[0].value.id == tname:
            src[n.targets[0].attr] = set(expand_txt(prog, ld, n.value))
    stored = "odb.get(hash_info.value)"
    ck.require(src.get("hash_info") == {"hash_info"} and src.get("oid") == {"hash_info.value"}, "C02.load", ld, ld.node, "loaded tree keeps the requested identifier", f"loaded tree identity is {src.get('hash_info')}, {src.get('oid')}", construct="tree.hash_info / tree.oid")
    ck.require(src.get("path") == {stored + ".path"} and src.get("fs") == {stored + ".fs"}, "C02.load", ld, ld.node, "loaded tree points at the stored object", f"loaded tree does not point at odb.get(hash_info.value) (path {src.get('path')}, fs {src.get('fs')})", construct="tree.path / tree.fs")
    arg = fl_calls[0].value.args[0] if fl_calls[0].value.args else None
    parsed = set(expand_txt(prog, ld, arg)) if arg is not None else set()
    want = f"json.load(__enter__({stored}.fs.open({stored}.path"
    ck.require(bool(parsed) and all(a.startswith(want) for a in parsed), "C02.load", ld, ld.node, "listing is parsed from the stored file", f"Tree.load does not parse the stored listing with from_list (it parses {sorted(parsed)})", construct="raw = json.load; from_list(raw)")
