"""C03 - A directory's identifier is a canonical, deterministic function of its contents."""
from __future__ import annotations

import ast

from ..an import avoiding_path, flows_from_calls, is_method_call, reaching_defs
from ..cfg import calls_at
from ..core import Checker
from ..loader import Func, norm, walk_expr, walk_own
from ..prov import call_name, expand1
from .build_common import check_zip_alignment_all
from .C01 import _keyfaithful, _unordered
from .C13 import _algo
from .tree_common import check_from_list_rows, check_sep, resolve_const
from .generic_lints import run_all as _lints


def check(ck: Checker) -> None:
    _lints(ck, "C03.aliasing", "hashfile.tree", "hashfile.build")
    ck.decided = [
        "C03.sorted: every listing returned by Tree.as_list is sorted on the relative-path field",
        "C03.nometa: the bytes hashed by Tree.digest are as_bytes() without metadata; the with_meta bytes only reach the second scratch file",
        "C03.bypath: hashes are attached to paths by key, never by arrival order (self-keyed worker, unordered results only merged as mappings, aligned zips, algorithm name respected for cache hits)",
        "C03.subtree: get_obj selects entries by key-tuple prefix (trie query), re-roots them by the prefix length and digests the new tree; filter copies rows unchanged",
        "C03.inverse: as_list / from_list agree on path field and separator; each parsed row comes from its own entry",
    ]
    ck.not_decided = ["injectivity of the JSON encoding for arbitrary names", "equality of identifiers across runs (needs execution)", "independence from fs.walk order beyond the sort"]
    ck.trusted = ["json.dumps(sort_keys=True) is deterministic", "pygtrie prefix queries"]
    prog = ck.prog
    _trie_in_sync(ck)
    al = prog.func("hashfile.tree", "Tree.as_list")
    g = ck.cfg(al)
    rets = [n for n in g.nodes.values() if n.kind == "stmt" and isinstance(n.ast, ast.Return)]
    ck.floor("C03.sorted", len(rets), 1, "returns of Tree.as_list")
    for r in rets:
        v = r.ast.value
        ok, why = False, norm(v)[:100]

        def key_on_relpath(k) -> bool:
            if k is None:
                return False
            if isinstance(k, ast.Call) and call_name(k) == "itemgetter" and k.args:
                return resolve_const(ck, al, k.args[0]) == "relpath"
            if isinstance(k, ast.Lambda) and isinstance(k.body, ast.Subscript):
                return resolve_const(ck, al, k.body.slice) == "relpath"
            return False

        if isinstance(v, ast.Call) and call_name(v) == "sorted":
            key = next((k.value for k in v.keywords if k.arg == "key"), None)
            rev = any(k.arg == "reverse" for k in v.keywords)
            ok = key_on_relpath(key)
        elif isinstance(v, ast.Name):
            sorts = [n for n in g.nodes.values() for c in calls_at(n) if is_method_call(c, "sort") and norm(c.func.value) == v.id and key_on_relpath(next((k.value for k in c.keywords if k.arg == "key"), None))]
            ok = bool(sorts) and avoiding_path(g, r.id, lambda x: x.id in {s.id for s in sorts}) is None
            if not ok:
                defs = reaching_defs(g, r.id, v.id)
                ok = bool(defs) and all(isinstance(getattr(d.ast, "value", None), ast.Call) and call_name(d.ast.value) == "sorted" and key_on_relpath(next((k.value for k in d.ast.value.keywords if k.arg == "key"), None)) for d in defs)
        ck.require(ok, "C03.sorted", al, r, "listing is sorted on the relative path", f"as_list returns an unsorted / differently ordered listing ({why}): the directory id would depend on insertion, walk or thread-completion order")
    # every entry of the tree is listed (no filter)
    for c in [x for x in walk_own(al.node) if isinstance(x, (ast.GeneratorExp, ast.ListComp))]:
        gen = c.generators[0]
        if norm(gen.iter) == "self":
            ck.require(not gen.ifs, "C03.sorted", al, c, "every entry is listed", f"as_list filters entries: {[norm(i) for i in gen.ifs]}", construct="as_list comprehension / no filter")
    ab = prog.func("hashfile.tree", "Tree.as_bytes")
    gab = ck.cfg(ab)
    lc = [c for c in walk_own(ab.node) if isinstance(c, ast.Call) and is_method_call(c, "as_list") and norm(c.func.value) == "self"
          and any(k.arg == "with_meta" and norm(k.value) == "with_meta" for k in c.keywords)]
    dumps = [c for c in walk_own(ab.node) if isinstance(c, ast.Call) and call_name(c) == "dumps"]
    okb = bool(lc) and bool(dumps)
    for r in [n for n in gab.nodes.values() if n.kind == "stmt" and isinstance(n.ast, ast.Return)]:
        okb = okb and flows_from_calls(gab, r, r.ast.value, lc, depth=4) and flows_from_calls(gab, r, r.ast.value, dumps, depth=4)
    ck.require(okb, "C03.sorted", ab, ab.node, "as_bytes serialises as_list()", "as_bytes no longer serialises self.as_list(with_meta=with_meta)", construct="as_bytes")
    from . import round11 as _r11

    _r11.canonical_json_encoding(ck, "C03.sorted")

    # ---------------------------------------------------------------- nometa
    dg = prog.func("hashfile.tree", "Tree.digest")
    gd = ck.cfg(dg)
    from .tree_common import digest_model, is_metafree_as_bytes

    dm = digest_model(ck)
    ck.floor("C03.nometa", len(dm.hcalls), 1, "hash_file calls in Tree.digest")
    hn, hc = dm.hn, dm.hc
    hp = norm(dm.path) if dm.path is not None else None
    hashed = [(n, a1) for n, _c, a0, a1 in dm.pipes if norm(a0) == hp]
    ck.require(bool(hashed) and all(is_metafree_as_bytes(ck, a1) for _n, a1 in hashed), "C03.nometa", dg, hn, "hashed bytes are the metadata-free listing",
               f"the listing that is hashed is {[norm(a1) for _n, a1 in hashed]}: the directory id would depend on file metadata", construct="digest / hashed bytes without meta")
    for n, _c, a0, a1 in dm.pipes:
        if not is_metafree_as_bytes(ck, a1):
            ck.require(norm(a0) != hp and avoiding_path(gd, n.id, lambda x: x.id == hn.id) is None, "C03.nometa", dg, n, "with-meta bytes go to a separate file written after hashing", "the with-meta bytes are written to (or before) the hashed file")
    ck.require(dm.algo is not None and norm(dm.algo) == "name" and dm.state is None, "C03.nometa", dg, hn, "digest hashes with the requested algorithm and no state cache", "digest() consults a state cache / another algorithm", construct="hash_file(path, memfs, name)")

    # ---------------------------------------------------------------- bypath
    _keyfaithful(ck)
    _unordered(ck)
    _algo(ck)
    for o in ck.obs:
        if o.rule in ("C01.keyfaithful", "C01.unordered", "C13.algo"):
            o.rule = "C03.bypath"
    bf = prog.func("hashfile.build", "_build_files")
    check_zip_alignment_all(ck, "C03.bypath", bf, "names and hashes would be associated by arrival order (cache warmth, thread completion)")
    gh = prog.func("hashfile.build", "_get_hashes")
    # threshold routing only chooses the list; both lists go to the same hashing call
    hf_calls = [c for c in walk_own(gh.node) if isinstance(c, ast.Call) and call_name(c) == "_hash_files"]
    # the buckets: lists appended to inside _get_hashes' routing loop (by name or as fields of one record)
    buckets = sorted({norm(a.value) for a in walk_own(gh.node) if isinstance(a, ast.Attribute) and a.attr == "append" and isinstance(a.ctx, ast.Load)} - {"hashes"})
    fed = set()
    if len(hf_calls) == 1:
        argtxt = [norm(a) for a in list(hf_calls[0].args) + [k.value for k in hf_calls[0].keywords]]
        fed = {b for b in buckets if any(b == a or b.split(".")[0] == a for a in argtxt)}
    ck.require(len(hf_calls) == 1 and len(buckets) >= 2 and fed == set(buckets), "C03.bypath", gh, gh.node, "small and large files are hashed by one call", f"threshold routing feeds {[norm(c) for c in hf_calls]} with buckets {buckets}", construct="_hash_files(small_files, large_files, ...)")

    # --------------------------------------------------------------- subtree
    go = prog.func("hashfile.tree", "Tree.get_obj")
    g2 = ck.cfg(go)
    loops = [h for h in g2.nodes.values() if h.kind == "for"]
    ck.floor("C03.subtree", len(loops), 1, "entry loop in Tree.get_obj")
    for h in loops:
        it = h.ast.iter
        by_trie = isinstance(it, ast.Call) and isinstance(it.func, ast.Attribute) and norm(it.func.value) in ("self._trie",) and it.func.attr in ("items", "iteritems") and (
            any(norm(a) == "prefix" for a in it.args) or any(k.arg == "prefix" and norm(k.value) == "prefix" for k in it.keywords))
        by_tuple = any(t.kind == "test" and h.id in t.loops and norm(t.ast).replace(" ", "") in ("key[:depth]==prefix", "key[:len(prefix)]==prefix", "prefix==key[:depth]") for t in g2.nodes.values())
        ck.require(by_trie or by_tuple, "C03.subtree", go, h, "sub-tree entries are selected by key-tuple prefix",
                   f"sub-tree entries are selected from {norm(it)} without a key-tuple prefix match (e.g. string startswith): siblings sharing a name prefix leak into the sub-tree and its id differs from the directly built object")
        adds = [(n, c) for n in g2.nodes.values() if h.id in n.loops for c in calls_at(n) if is_method_call(c, "add") and len(c.args) == 3]
        for n, c in adds:
            k = c.args[0]
            alts = [norm(a) for a in expand1(prog, go, k, levels=2)]
            okk = any(a in ("key[depth:]", "key[len(prefix):]") for a in alts)
            if okk and "key[depth:]" in alts:
                dd = reaching_defs(g2, n.id, "depth")
                okk = bool(dd) and all(norm(getattr(d.ast, "value", None)) == "len(prefix)" for d in dd)
            ck.require(okk, "C03.subtree", go, n, "entries are re-rooted by cutting exactly the prefix", f"re-rooted key is {alts}")
            lv = [norm(t) for t in ast.walk(h.ast.target) if isinstance(t, ast.Name)]
            ck.require(all(norm(a) in lv for a in c.args[1:]), "C03.subtree", go, n, "meta and hash are copied unchanged", f"copied values are {[norm(a) for a in c.args[1:]]}", construct=f"{norm(c)} / values")
    rets = [n for n in g2.nodes.values() if n.kind == "stmt" and isinstance(n.ast, ast.Return) and isinstance(n.ast.value, ast.Name)]
    for r in rets:
        dgs = {n.id for n in g2.nodes.values() for c in calls_at(n) if is_method_call(c, "digest") and norm(c.func.value) == r.ast.value.id and not c.args and not c.keywords}
        ck.require(bool(dgs) and avoiding_path(g2, r.id, lambda x: x.id in dgs) is None, "C03.subtree", go, r, "the extracted sub-tree is digested (default algorithm, no meta) before it is returned", "get_obj can return a sub-tree that was not digested")
    fl = prog.func("hashfile.tree", "Tree.filter")
    g3 = ck.cfg(fl)
    for n in g3.nodes.values():
        for c in calls_at(n):
            if is_method_call(c, "add") and len(c.args) == 3 and n.loops:
                h = g3.nodes[n.loops[-1]]
                lv = [norm(t) for t in ast.walk(h.ast.target) if isinstance(t, ast.Name)]
                def same_(a):
                    # `key[0:]` (what a shared re-rooting helper inlines to for a zero-length cut) is `key`
                    if isinstance(a, ast.Subscript) and isinstance(a.slice, ast.Slice) and a.slice.upper is None and a.slice.step is None and isinstance(a.slice.lower, ast.Constant) and a.slice.lower.value == 0:
                        return norm(a.value)
                    return norm(a)

                ck.require(all(same_(a) in lv for a in c.args), "C03.subtree", fl, n, "filter copies rows unchanged", f"filter rewrites rows: {norm(c)}")
                it = h.ast.iter
                ck.require(isinstance(it, ast.Call) and norm(it.func.value) == "self._trie" and any(norm(a) == "prefix" for a in it.args), "C03.subtree", fl, h, "filter selects by trie prefix", f"filter iterates {norm(it)}")

    # --------------------------------------------------------------- inverse
    check_sep(ck, "C03.inverse")
    check_from_list_rows(ck, "C03.inverse")



def _trie_in_sync(ck: Checker) -> None:
    """Prefix queries (get_obj, filter, ls) are answered from the cached trie: every method that stores into
    the entry table must, on every path, drop that cache or store the same row into it."""
    from ..cfg import node_exprs

    cls = ck.prog.cls("hashfile.tree", "Tree")
    n_st = 0
    for name, m in cls.methods.items():
        if name == "__init__":
            continue
        g = ck.cfg(m)

        def is_store(n, attr):
            a = n.ast
            if n.kind != "stmt":
                return False
            if isinstance(a, (ast.Assign, ast.AugAssign)):
                tg = a.targets if isinstance(a, ast.Assign) else [a.target]
                if any(isinstance(t, ast.Subscript) and norm(t.value) == f"self.{attr}" for t in tg):
                    return True
            if isinstance(a, ast.Delete) and any(isinstance(t, ast.Subscript) and norm(t.value) == f"self.{attr}" for t in a.targets):
                return True
            return any(isinstance(c.func, ast.Attribute) and norm(c.func.value) == f"self.{attr}" and c.func.attr in ("update", "pop", "clear", "setdefault", "popitem") for c in calls_at(n))

        stores = [n for n in g.nodes.values() if is_store(n, "_dict")]
        if not stores:
            continue
        sync = set()
        for n in g.nodes.values():
            if is_store(n, "_trie"):
                sync.add(n.id)
            for c in calls_at(n):
                if isinstance(c.func, ast.Attribute) and c.func.attr == "pop" and norm(c.func.value) == "self.__dict__" and c.args and isinstance(c.args[0], ast.Constant) and c.args[0].value == "_trie":
                    sync.add(n.id)
            if n.kind == "stmt" and isinstance(n.ast, ast.Delete) and any(norm(t) == "self._trie" for t in n.ast.targets):
                sync.add(n.id)
        for st in stores:
            n_st += 1
            before = g.reach([g.entry], skip_node=lambda x: x.id in sync, skip_edge=lambda a, l, b: l == "exc")
            after = g.reach([st.id], skip_node=lambda x: x.id in sync, skip_edge=lambda a, l, b: l == "exc")
            stops = {g.exit} | set(st.loops[-1:])
            bad = st.id in before and any(x_ in after for x_ in stops) and st.id not in sync
            ck.require(not bad, "C03.subtree", m, st, "a row stored in the entry table also reaches (or invalidates) the cached trie",
                       f"`{st.text()[:50]}` can complete without the cached trie being dropped or given the same row: prefix queries (get_obj / filter / ls) then answer from a stale trie and a sub-directory's identifier no longer matches the entries added",
                       construct=f"{st.text()[:50]} / trie in sync")
    ck.floor("C03.subtree", n_st, 2, "stores into Tree._dict outside __init__")
