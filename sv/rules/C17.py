"""C17 - Lazy directory loading, filtered views and the fs adaptor are transparent."""
from __future__ import annotations

import ast
import re
from typing import List, Set

from ..an import avoiding_path, cut, flows_from_calls, is_method_call, value_alts, yields_at
from ..cfg import calls_at, node_exprs, subscripts_at
from ..core import Checker
from ..loader import AnalysisError, Func, norm, walk_expr, walk_own
from ..prov import ELEM, call_name, expand1, get_arg, is_marker, scope_of
from .generic_lints import run_all as _lints

KEY_METHODS = ["__setitem__", "__getitem__", "__delitem__", "has_node", "delete_node", "longest_prefix"]


def _filter_T(t, lab, keyname="key") -> bool:
    e = t.ast
    return t.kind == "test" and lab == "T" and isinstance(e, ast.Call) and norm(e.func) == "self.filter_fn" and len(e.args) == 1 and norm(e.args[0]) == keyname


def check(ck: Checker) -> None:
    _lints(ck, "C17.aliasing", "index.index", "index.view", "fs")
    ck.decided = [
        "C17.viewguard: every DataIndexView method that takes a key reaches the wrapped index only across filter_fn(key) (root key exempt in __getitem__); every key a view generator yields has passed filter_fn",
        "C17.loadonce: DataIndex._load skips loaded entries, marks an entry loaded only after the storage load returned normally, and re-stores the marked entry",
        "C17.accessors: lookup-miss, iteration (incl. the directory containing a prefix) and ls load the directory before reading the trie",
        "C17.children: loading a directory object stores one entry per listed row under root key + row key, and creates a directory entry for EVERY proper prefix of every row key",
        "C17.fs: the adaptor returns a storage location only after the filesystem itself confirmed that the resolved path exists",
    ]
    ck.not_decided = ["equality of answers between lazy and explicit indexes (needs execution)", "bytes served by the adaptor"]
    ck.trusted = ["sqltrie/pygtrie semantics", "Tree.load parses the stored listing"]
    _viewguard(ck)
    _loadonce(ck)
    _accessors(ck)
    _children(ck)
    _fs(ck)
    from . import round4 as _r4

    _r4.load_fallback_broad(ck, "C17.loadonce")
    _r4.storage_prefix_default(ck, "C17.fs")
    from . import round7 as _r7

    _r7.ensure_loaded_by_kind(ck, "C17.accessors")
    _r7.view_loads_only_unloaded(ck, "C17.viewguard")
    _root_readable(ck)


def _root_readable(ck: Checker) -> None:
    """DataIndexView.__getitem__: the root key () is served whatever the filter says (info(()), diff and the fs adaptor
    start from it): no `raise` of the method's own is reachable for the root key."""
    from ..an import cut

    m = ck.prog.cls("index.view", "DataIndexView").methods.get("__getitem__")
    if m is None:
        raise AnalysisError("DataIndexView.__getitem__ vanished")
    g = ck.cfg(m)
    key = m.pos_params[1] if len(m.pos_params) > 1 else "key"
    raises = [n for n in g.nodes.values() if n.kind == "stmt" and isinstance(n.ast, ast.Raise)]

    def not_root(t, lab):
        if t.kind != "test":
            return False
        e = t.ast
        if isinstance(e, ast.Name) and e.id == key:
            return lab == "T"
        if isinstance(e, ast.Compare) and len(e.ops) == 1 and isinstance(e.ops[0], (ast.Eq, ast.NotEq)):
            sides = {norm(e.left), norm(e.comparators[0])}
            if key in sides and sides & {"()", "ROOT", "tuple()"}:
                return (isinstance(e.ops[0], ast.Eq) and lab == "F") or (isinstance(e.ops[0], ast.NotEq) and lab == "T")
        return False

    for n in raises:
        w = cut(g, [n.id], not_root)
        ck.require(w is None, "C17.viewguard", m, n, "the view's own KeyError is raised only for a non-root key",
                   "DataIndexView.__getitem__ can raise for the root key () when the filter rejects it: info(()), diff() and the filesystem adaptor over a prefix-filtered view start from the root and now fail or come back empty",
                   witness=g.fmt_path(w) if w else None, construct=f"{n.text()[:40]} / root exempt")
    ck.floor("C17.viewguard", len(raises), 1, "raise sites of DataIndexView.__getitem__ (filtered keys are refused)")



def _viewguard(ck: Checker) -> None:
    prog = ck.prog
    cls = prog.cls("index.view", "DataIndexView")
    n_m = 0
    for name in KEY_METHODS:
        m = cls.methods.get(name)
        if m is None:
            raise AnalysisError(f"DataIndexView.{name} vanished")
        g = ck.cfg(m)
        sinks = []
        for n in g.nodes.values():
            for c in calls_at(n):
                if isinstance(c.func, ast.Attribute) and norm(c.func.value) == "self._index" and any(norm(a) == "key" for a in c.args):
                    sinks.append(n)
            for s in subscripts_at(n):
                if norm(s.value) == "self._index" and norm(s.slice) == "key":
                    sinks.append(n)
            if n.kind == "stmt" and isinstance(n.ast, ast.Delete):
                for t in n.ast.targets:
                    if isinstance(t, ast.Subscript) and norm(t.value) == "self._index":
                        sinks.append(n)
        sinks = list({s.id: s for s in sinks}.values())
        if not sinks:
            ck.fail("C17.viewguard", m, m.node, f"DataIndexView.{name} no longer delegates to the wrapped index with its key (cannot check the filter)")
            continue
        n_m += 1

        def just(t, lab, name=name):
            if _filter_T(t, lab):
                return True
            if name == "__getitem__" and t.kind == "test" and norm(t.ast) in ("key == ()", "() == key", "not key") and lab == "T":
                return True
            return False

        for s in sinks:
            w = cut(g, [s.id], just)
            ck.require(w is None, "C17.viewguard", m, s, "the wrapped index is reached only for keys accepted by the filter",
                       f"DataIndexView.{name} reaches the wrapped index for a key the filter rejects", witness=g.fmt_path(w) if w else None)
    ck.floor("C17.viewguard", n_m, 6, "key-taking view methods")
    # generators
    ls = cls.methods["ls"]
    g = ck.cfg(ls)
    for n in g.nodes.values():
        for e in node_exprs(n):
            for y in walk_expr(e):
                if isinstance(y, ast.YieldFrom):
                    v = y.value
                    ok = False
                    if isinstance(v, (ast.GeneratorExp, ast.ListComp)):
                        gen = v.generators[0]
                        kn = norm(gen.target.elts[0]) if isinstance(gen.target, ast.Tuple) else norm(gen.target)
                        ok = any(norm(i) == f"self.filter_fn({kn})" for i in gen.ifs)
                        first = v.elt.elts[0] if isinstance(v.elt, ast.Tuple) else v.elt
                        ok = ok and norm(first) == kn
                    elif isinstance(v, ast.Call) and call_name(v) == "filter" and v.args and norm(v.args[0]) == "self.filter_fn":
                        ok = True
                    ck.require(ok, "C17.viewguard", ls, n, "ls yields only keys accepted by the filter", f"view.ls yields keys without filtering: {norm(v)[:120]}")
    ldk = cls.methods.get("_load_dir_keys")
    if ldk is not None:
        g = ck.cfg(ldk)
        for n in g.nodes.values():
            for e in node_exprs(n):
                for y in walk_expr(e):
                    if isinstance(y, ast.Yield) and isinstance(y.value, ast.Tuple):
                        kn = norm(y.value.elts[0])
                        w = cut(g, [n.id], lambda t, lab, kn=kn: _filter_T(t, lab, kn))
                        ck.require(w is None, "C17.viewguard", ldk, n, "children yielded right after a lazy load have passed the filter",
                                   "children of a directory loaded during view iteration are yielded without passing the filter (the first pass leaks rejected keys)", witness=g.fmt_path(w) if w else None)
    tr = cls.methods.get("traverse")
    if tr is not None:
        for inner in tr.children.values():
            g = ck.cfg(inner)
            calls = [n for n in g.nodes.values() for c in calls_at(n) if isinstance(c.func, ast.Name) and c.func.id == "node_factory"]
            for n in calls:
                w = cut(g, [n.id], lambda t, lab: _filter_T(t, lab) or (t.kind == "test" and norm(t.ast) == "key" and lab == "F"))
                ck.require(w is None, "C17.viewguard", inner, n, "traversal builds nodes only for the root or for accepted keys", "view traversal builds nodes for rejected keys", witness=g.fmt_path(w) if w else None)


def _loadonce(ck: Checker, rule: str = "C17.loadonce") -> None:
    prog = ck.prog
    fn = prog.func("index.index", "DataIndex._load")
    g = ck.cfg(fn)
    loads = [n for n in g.nodes.values() for c in calls_at(n) if call_name(c) == "_load_from_storage"]
    ck.floor(rule, len(loads), 1, "storage load calls in DataIndex._load")
    ld = loads[0]
    w = cut(g, [ld.id], lambda t, lab: t.kind == "test" and norm(t.ast) == "entry.loaded" and lab == "F")
    ck.require(w is None, rule, fn, ld, "storage is consulted only for entries not yet loaded", "an already loaded entry can be loaded again", witness=g.fmt_path(w) if w else None)
    marks = [n for n in g.nodes.values() if n.kind == "stmt" and isinstance(n.ast, ast.Assign) and norm(n.ast.targets[0]) == "entry.loaded"]
    ck.floor(rule, len(marks), 1, "entry.loaded assignments")
    for mk in marks:
        ck.require(isinstance(mk.ast.value, ast.Constant) and mk.ast.value.value is True, rule, fn, mk, "marks loaded=True", f"unexpected {mk.text()}", construct=f"{mk.text()} / value")
        w = avoiding_path(g, mk.id, lambda x: x.id == ld.id)
        ck.require(w is None, rule, fn, mk, "entry is marked loaded only after the load ran", "entry can be marked loaded without having been loaded", witness=g.fmt_path(w) if w else None, construct=f"{mk.text()} / after load")
        hs = [h for h in g.nodes.values() if h.kind == "handler"]
        for h in hs:
            r = g.reach([h.id])
            ck.require(mk.id not in r, rule, fn, mk, "a failed load never marks the entry as loaded", "a failed load (handler path) can still mark the entry as loaded", construct=f"{mk.text()} / not from handler")
        # re-store the marked entry
        stores = {n.id for n in g.nodes.values() if n.kind == "stmt" and isinstance(n.ast, ast.Assign) and isinstance(n.ast.targets[0], ast.Subscript)
                  and norm(n.ast.targets[0].value) == "self._trie" and norm(n.ast.targets[0].slice) == "key" and norm(n.ast.value) == "entry"}
        r = g.reach([d for _l, d in mk.succ], skip_node=lambda x: x.id in stores, skip_edge=lambda a, l, b: l == "exc")
        ck.require(bool(stores) and g.exit not in r, rule, fn, mk, "the marked entry is written back to the trie",
                   "the loaded flag is only set on the in-memory object and never written back to the trie: a persistent (SQLite) index forgets that the directory was loaded", construct=f"{mk.text()} / re-store")


def _len_alias_expander(g, fn, h, ik):
    """text of an expression with loop-locals that are plain `len(<row key>)` copies put back"""
    lens_ = {}
    for d_ in g.nodes.values():
        a_ = d_.ast
        if d_.kind == "stmt" and isinstance(a_, ast.Assign) and len(a_.targets) == 1 and isinstance(a_.targets[0], ast.Name) and norm(a_.value) == f"len({ik})" and h.id in d_.loops \
                and len(scope_of(fn).get(a_.targets[0].id)) == 1:
            lens_[a_.targets[0].id] = f"len({ik})"

    def _nl(x):
        t_ = norm(x)
        for k_, v_ in lens_.items():
            t_ = re.sub(rf"(?<![\\w.]){re.escape(k_)}(?!\\w)", v_, t_)
        return t_

    return _nl


def _accessors(ck: Checker) -> None:
    prog = ck.prog
    gi = prog.func("index.index", "DataIndex.__getitem__")
    g = ck.cfg(gi)
    rets = [n for n in g.nodes.values() if n.kind == "stmt" and isinstance(n.ast, ast.Return)]
    lds = {n.id for n in g.nodes.values() for c in calls_at(n) if is_method_call(c, "_load") and norm(c.func.value) == "self"}
    # the retry of the raw lookup after a miss: `self._trie[key]` read (returned directly or via a local)
    from ..cfg import node_exprs

    final = [n for n in g.nodes.values() if n.kind == "stmt" and any(isinstance(x, ast.Subscript) and isinstance(x.ctx, ast.Load) and norm(x.value) == "self._trie" for e in node_exprs(n) for x in walk_expr(e))]
    ck.floor("C17.accessors", len(final), 1, "miss-path return in DataIndex.__getitem__")
    # locals by role: the longest-prefix lookup (nothing to load when there is none) and the direct trie hit
    def _bound_to(*meths):
        return {a_.targets[0].id for a_ in walk_own(gi.node) if isinstance(a_, ast.Assign) and len(a_.targets) == 1 and isinstance(a_.targets[0], ast.Name)
                and isinstance(a_.value, ast.Call) and is_method_call(a_.value, *meths) and norm(a_.value.func.value) == "self._trie"}

    lp_names = _bound_to("longest_prefix") or {"lprefix"}
    hit_names = _bound_to("get") or {"item"}
    for n in final:
        def skip(a, lab, b):
            if lab == "exc":
                return True
            if a.kind != "test" or lab != "F":
                return False
            e = a.ast
            if isinstance(e, ast.Name):
                return e.id in lp_names
            return isinstance(e, ast.Compare) and len(e.ops) == 1 and isinstance(e.ops[0], ast.IsNot) and norm(e.left) in lp_names and norm(e.comparators[0]) == "None"

        r = g.reach([g.entry], skip_node=lambda x: x.id in lds, skip_edge=lambda a, l, b: skip(a, l, b) or (a.kind == "test" and norm(a.ast) in hit_names and l == "T"))
        ck.require(n.id not in r, "C17.accessors", gi, n, "a lookup miss loads the longest-prefix directory before retrying", "a lookup miss can retry the trie without loading the containing directory")
    it = prog.func("index.index", "DataIndex.iteritems")
    g = ck.cfg(it)
    lds = {n.id for n in g.nodes.values() for c in calls_at(n) if is_method_call(c, "_load") and norm(c.func.value) == "self"}
    main = [h for h in g.nodes.values() if h.kind == "for"]
    ck.floor("C17.accessors", len(main), 1, "main loop in DataIndex.iteritems")
    h = main[0]
    yn = [n for n in g.nodes.values() if h.id in n.loops and yields_at(n)]
    for y in yn:
        w = avoiding_path(g, y.id, lambda x: x.id in lds and h.id in x.loops, start=h.id)
        ck.require(w is None, "C17.accessors", it, y, "each entry is loaded before it is yielded", "an entry can be yielded without having been loaded", witness=g.fmt_path(w) if w else None)
    pt = [t for t in g.nodes.values() if t.kind == "test" and norm(t.ast) == "prefix" and not t.loops]
    okp = False
    # the local holding the longest-prefix lookup (nothing to load when there is none)
    def _arms(v):
        return _arms(v.body) + _arms(v.orelse) if isinstance(v, ast.IfExp) else [v]

    lpn = {"item"} | {norm(a_.targets[0]) for a_ in walk_own(it.node) if isinstance(a_, ast.Assign) and len(a_.targets) == 1
                      and any(isinstance(v, ast.Call) and is_method_call(v, "longest_prefix") for v in _arms(a_.value))}
    for t in pt:
        r = g.reach([d for lab, d in t.succ if lab == "T"], skip_node=lambda x: x.id in lds, skip_edge=lambda a, l, b: l == "exc" or (a.kind == "test" and norm(a.ast) in lpn and l == "F"))
        okp = h.id not in r
        # the load concerns the longest prefix of `prefix`
        lp = [c for c in walk_own(it.node) if isinstance(c, ast.Call) and is_method_call(c, "longest_prefix") and c.args and norm(c.args[0]) == "prefix"]
        okp = okp and bool(lp)
    ck.require(okp, "C17.accessors", it, pt[0] if pt else it.node, "iterating below a prefix first loads the directory entry that contains the prefix",
               "iteritems(prefix) does not load the (still unloaded) directory containing the prefix: the keys below it are missing (KeyError swallowed by callers)", construct="if prefix: load longest_prefix(prefix)")
    el = prog.func("index.index", "DataIndex._ensure_loaded")
    gel = ck.cfg(el)
    lds_el = [(n, c) for n in gel.nodes.values() for c in calls_at(n) if is_method_call(c, "_load") and norm(c.func.value) == "self"]
    for n, c in lds_el:
        ent = c.args[1] if len(c.args) > 1 else None
        oke = False
        if ent is not None:
            for alt in value_alts(gel, n, ent, depth=3):
                if isinstance(alt, ast.Call) and is_method_call(alt, "get", "__getitem__") and norm(alt.func.value) == "self":
                    oke = True
                if isinstance(alt, ast.Subscript) and norm(alt.value) == "self":
                    oke = True
        ck.require(oke, "C17.accessors", el, n, "the entry to load is obtained through the index's own lookup (which loads an unloaded ancestor first)",
                   "_ensure_loaded reads the entry from the raw trie: below a still unloaded ancestor directory the entry is not found and listing it fails / is empty")
    # `loaded` is None for a fresh entry and False for one read back from disk: both mean "not loaded yet"
    cls_di = prog.cls("index.index", "DataIndex")
    n_l = 0
    for mname, mfn in cls_di.methods.items():
        for x in walk_own(mfn.node):
            if isinstance(x, ast.Attribute) and x.attr == "loaded" and isinstance(x.ctx, ast.Load):
                n_l += 1
            if isinstance(x, ast.Compare) and any(isinstance(s_, ast.Attribute) and s_.attr == "loaded" for s_ in [x.left] + list(x.comparators)):
                ck.fail("C17.accessors", mfn, x, f"`{norm(x)}` distinguishes None from False in the loaded flag: a directory entry read back from a serialised index (loaded=False) is then never loaded by listings",
                        construct=f"{norm(x)} / tri-state loaded")
    ck.floor("C17.accessors", n_l, 2, "reads of the loaded flag in DataIndex")
    ls = prog.func("index.index", "DataIndex.ls")
    g = ck.cfg(ls)
    ens = {n.id for n in g.nodes.values() for c in calls_at(n) if is_method_call(c, "_ensure_loaded", "_load") and c.args and norm(c.args[0]) == "root_key"}
    for y in [n for n in g.nodes.values() if yields_at(n)]:
        w = avoiding_path(g, y.id, lambda x: x.id in ens)
        ck.require(bool(ens) and w is None, "C17.accessors", ls, y, "ls loads the listed directory first", "ls can list a directory without loading it", witness=g.fmt_path(w) if w else None)


def _children(ck: Checker, rule: str = "C17.children") -> None:
    prog = ck.prog
    fn = prog.func("index.index", "_load_from_object_storage")
    g = ck.cfg(fn)
    rows = [h for h in g.nodes.values() if h.kind == "for" and isinstance(h.ast.iter, ast.Call) and is_method_call(h.ast.iter, "iteritems", "items", "__iter__") and len(h.loops) == 1]
    ck.floor(rule, len(rows), 1, "row loops in _load_from_object_storage")
    h = rows[0]
    ik = norm(h.ast.target.elts[0]) if isinstance(h.ast.target, ast.Tuple) else None
    stores = [n for n in g.nodes.values() if h.id in n.loops and n.kind == "stmt" and isinstance(n.ast, ast.Assign) and isinstance(n.ast.targets[0], ast.Subscript) and norm(n.ast.targets[0].value) == "trie"]
    sids = {s.id for s in stores}
    starts = [d for lab, d in h.succ if lab == "T"]
    # inner loops may cycle; the row's store must lie on every path back to the row header
    r = g.reach(starts, skip_node=lambda x: x.id in sids, skip_edge=lambda a, l, b: l == "exc")
    ck.require(bool(stores) and h.id not in r, rule, fn, h, "every listed row is stored in the trie", "a listed row can be skipped without being stored", construct="rows / NODROP")
    for s in stores:
        keyalts = [norm(a) for a in expand1(prog, fn, s.ast.targets[0].slice, levels=2)]
        ck.require(any(k == f"root_entry.key + {ik}" for k in keyalts), rule, fn, s, "row is stored under root key + row key", f"row is stored under {keyalts}")
    # all proper prefixes become directories
    adds = [(n, c) for n in g.nodes.values() if h.id in n.loops for c in calls_at(n) if is_method_call(c, "add") and c.args and isinstance(c.args[0], ast.Subscript) and norm(c.args[0].value) == ik]
    ok = False
    why = "no prefix collection found"
    for n, c in adds:
        why = f"{norm(c)} not inside `for idx in range(1, len({ik}))`"
        if len(n.loops) >= 2:
            ih = g.nodes[n.loops[-1]]
            it = ih.ast.iter
            iv = norm(ih.ast.target)
            sl = c.args[0].slice
            if isinstance(it, ast.Call) and call_name(it) == "range" and isinstance(sl, ast.Slice) and sl.lower is None and sl.upper is not None:
                _nl0 = _len_alias_expander(g, fn, h, ik)
                a = [_nl0(x) for x in it.args]
                up = norm(sl.upper)
                full = a == ["1", f"len({ik})"] and up in (iv, f"-{iv}")
                full = full or (a in ([f"len({ik}) - 1", "0", "-1"],) and up == iv)
                if full:
                    # unconditional inside the inner loop
                    rr = g.reach([d for lab, d in ih.succ if lab == "T"], skip_node=lambda x: x.id == n.id, skip_edge=lambda p, l, q: l == "exc")
                    ok = ih.id not in rr
                    # ... and the prefix loop itself is reached for every row that has a proper prefix (a key of
                    # two or more components): the only guard that may go round it is "shorter than two"
                    short_ = (f"len({ik}) >= 2", f"len({ik}) > 1")
                    r_out = g.reach([d for lab, d in h.succ if lab == "T"], skip_node=lambda x, ih=ih: x.id == ih.id,
                                    skip_edge=lambda p, l, q: l == "exc" or (p.kind == "test" and l == "F" and _nl0(p.ast) in short_) or (p.kind == "test" and l == "T" and _nl0(p.ast) in (f"len({ik}) < 2", f"len({ik}) <= 1")))
                    if h.id in r_out:
                        ok = False
                        why = f"the prefix loop is skipped for some rows that have a proper prefix (guard other than `len({ik}) >= 2`)"
                else:
                    why = f"prefix loop is `for {iv} in {norm(it)}` adding {norm(c.args[0])}: it does not enumerate every proper prefix {ik}[:1] .. {ik}[:-1]"
    # the same collection written as one bulk update:  dirs.update(ikey[:-idx] for idx in range(1, len(ikey)))
    for n in g.nodes.values():
        if h.id not in n.loops:
            continue
        for c in calls_at(n):
            if not (is_method_call(c, "update", "extend") and len(c.args) == 1 and isinstance(c.args[0], (ast.GeneratorExp, ast.ListComp, ast.SetComp)) and len(c.args[0].generators) == 1):
                continue
            comp = c.args[0]
            gen = comp.generators[0]
            elt = comp.elt
            if not (isinstance(elt, ast.Subscript) and norm(elt.value) == ik and isinstance(elt.slice, ast.Slice) and elt.slice.lower is None and elt.slice.upper is not None):
                continue
            adds.append((n, c))
            it, iv, up = gen.iter, norm(gen.target), norm(elt.slice.upper)
            if isinstance(it, ast.Call) and call_name(it) == "range" and not gen.ifs:
                # `depth = len(ikey)` hoisted into a loop-local: put back
                lens_ = {}
                for d_ in g.nodes.values():
                    a_ = d_.ast
                    if d_.kind == "stmt" and isinstance(a_, ast.Assign) and len(a_.targets) == 1 and isinstance(a_.targets[0], ast.Name) and norm(a_.value) == f"len({ik})" and h.id in d_.loops \
                            and len(scope_of(fn).get(a_.targets[0].id)) == 1:
                        lens_[a_.targets[0].id] = f"len({ik})"

                def _nl(x):
                    t_ = norm(x)
                    for k_, v_ in lens_.items():
                        t_ = re.sub(rf"(?<![\w.]){re.escape(k_)}(?!\w)", v_, t_)
                    return t_

                a = [_nl(x) for x in it.args]
                full = (a == ["1", f"len({ik})"] and up in (iv, f"-{iv}")) or (a == [f"len({ik}) - 1", "0", "-1"] and up == iv)
                if full:
                    # a key shorter than two components has no proper prefix: skipping it loses nothing
                    short = (f"len({ik}) >= 2", f"len({ik}) > 1")
                    rr = g.reach([d for lab, d in h.succ if lab == "T"], skip_node=lambda x, n=n: x.id == n.id,
                                 skip_edge=lambda p, l, q: l == "exc" or (p.kind == "test" and l == "F" and _nl(p.ast) in short) or (p.kind == "test" and l == "T" and _nl(p.ast) in (f"len({ik}) < 2", f"len({ik}) <= 1")))
                    ok = ok or h.id not in rr
                else:
                    why = f"bulk prefix collection {norm(c)} does not enumerate every proper prefix {ik}[:1] .. {ik}[:-1]"
            else:
                why = f"bulk prefix collection {norm(c)} is filtered or not a range over the key length"
    ck.require(ok, rule, fn, adds[0][0] if adds else h, "every proper prefix of every row key becomes an (implicit) directory entry",
               f"not every proper prefix of a row key gets a directory entry ({why}): intermediate directories of nested listings are missing from the lazily loaded index")
    dl = [x for x in g.nodes.values() if x.kind == "for" and not (set(x.loops) & {h.id}) and isinstance(x.ast.iter, ast.Name)]
    okd = False
    for x in dl:
        body = [y for y in g.nodes.values() if x.id in y.loops and y.kind == "stmt" and isinstance(y.ast, ast.Assign) and isinstance(y.ast.targets[0], ast.Subscript) and norm(y.ast.targets[0].value) == "trie"]
        for y in body:
            v = norm(y.ast.value)
            okd = "isdir=True" in v and "loaded=True" in v
            # ... for EVERY collected prefix: the store is on every path through the loop body (a skip is accepted only
            # for a key that is already an ENTRY of the trie - `key in trie` - never for a mere node: the children stored
            # just above make every prefix a node)
            def _known_entry(t, lab):
                if t.kind != "test" or not isinstance(t.ast, ast.Compare) or len(t.ast.ops) != 1 or norm(t.ast.comparators[0]) != "trie":
                    return False
                return (isinstance(t.ast.ops[0], ast.In) and lab == "T") or (isinstance(t.ast.ops[0], ast.NotIn) and lab == "F")

            rr_ = g.reach([d for lab, d in x.succ if lab == "T"], skip_node=lambda q, y=y: q.id == y.id, skip_edge=lambda p_, l_, q_: l_ == "exc" or _known_entry(p_, l_))
            ck.require(x.id not in rr_, rule, fn, y, "every collected prefix gets its directory entry",
                       "a collected prefix can be skipped without its directory entry being stored (e.g. `if trie.has_node(key): continue` - true for every prefix once the children are stored): nested directories of a listing have no entry, checkout never converges (they are listed for deletion again and again)",
                       witness=g.fmt_path(g.path_to(rr_, x.id)) if x.id in rr_ else None, construct=f"for {norm(x.ast.target)} in dirs / always stored")
    ck.require(okd, rule, fn, dl[0] if dl else fn.node, "implicit directories are stored as loaded directory entries", "implicit directory entries are not stored as Meta(isdir=True), loaded=True", construct="for dkey in dirs: trie[...] = DataIndexEntry(isdir, loaded)")


def _fs(ck: Checker) -> None:
    prog = ck.prog
    fn = prog.func("fs", "DataFileSystem._get_fs_path")
    g = ck.cfg(fn)
    rets = [n for n in g.nodes.values() if n.kind == "stmt" and isinstance(n.ast, (ast.Return, ast.Assign)) and isinstance(n.ast.value, ast.Call) and call_name(n.ast.value) == "FileInfo"]
    ck.floor("C17.fs", len(rets), 1, "FileInfo constructions in the fs adaptor")
    for n in rets:
        v = n.ast.value
        fsn = norm(v.args[-2]) if len(v.args) >= 2 else None
        pn = norm(v.args[-1]) if v.args else None

        def exists_on_fs(t, lab):
            e = t.ast
            return t.kind == "test" and lab == "T" and isinstance(e, ast.Call) and is_method_call(e, "exists") and norm(e.func.value) == fsn and e.args and norm(e.args[0]) == pn

        w = cut(g, [n.id], exists_on_fs)
        ck.require(w is None, "C17.fs", fn, n, "a location is returned only after its filesystem confirmed the path exists",
                   f"a storage location ({fsn}, {pn}) can be returned without `{fsn}.exists({pn})` having been true (e.g. answered from a possibly stale existence index): reads fail or pick a dead path although another storage holds the bytes",
                   witness=g.fmt_path(w) if w else None)
        # fs/path come from storage.get(entry) of the storage being returned
        gets = [c for c in walk_own(fn.node) if isinstance(c, ast.Call) and is_method_call(c, "get") and c.args and norm(c.args[0]) == "entry"]
        ok = any(flows_from_calls(g, n, a, gets) for a in v.args[-2:])
        ck.require(ok, "C17.fs", fn, n, "returned (fs, path) is storage.get(entry)", "returned (fs, path) is not what storage.get(entry) produced", construct=f"{n.text()[:60]} / provenance")
