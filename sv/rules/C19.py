"""C19 - Three-way directory merge never silently loses or overrides an entry."""
from __future__ import annotations

import ast
from typing import List

from ..an import avoiding_path, cut, flows_from_calls, is_method_call
from ..cfg import calls_at
from ..core import Checker
from ..loader import Func, norm, walk_expr, walk_own
from ..prov import call_name, expand1, get_arg, refers_to_call, scope_of
from .generic_lints import run_all as _lints


_LIB_SIG = {"diff": ["first", "second"], "patch": ["diff_result", "destination"]}


def lib_args(c: ast.Call) -> List[ast.expr]:
    """Positional view of a dictdiffer diff()/patch() call, whatever mix of positional/keyword arguments."""
    names = _LIB_SIG.get(call_name(c) or "", [])
    out = list(c.args)
    for nm in names[len(out):]:
        v = next((k.value for k in c.keywords if k.arg == nm), None)
        if v is None:
            break
        out.append(v)
    return out


def _calls_named(fn: Func, name: str) -> List[ast.Call]:
    return [x for x in walk_own(fn.node) if isinstance(x, ast.Call) and call_name(x) == name]


def check(ck: Checker) -> None:
    _lints(ck, "C19.aliasing", "hashfile.tree")
    prog, res = ck.prog, ck.res
    ck.decided = [
        "C19.conflict: _merge returns a combined result only across 'diff(patch(ours+theirs), patch(theirs+ours)) is empty', both applied to the same ancestor; the early returns hand back the other side exactly when this side's diff is empty; both per-side diffs are taken against the ancestor under the caller's policy",
        "C19.policy: _diff returns normally only after every change kind was tested against the allowed set (raise otherwise) and the default policy is exactly ['add']",
        "C19.digest: merge() builds the result from every row of the merged dictionary and digests it before returning",
        "C19.errors: every dictdiffer patch() in _merge is covered by a handler that converts KeyError into MergeError; only MergeError is raised",
    ]
    ck.not_decided = ["the three-way rule itself (dictdiffer diff/patch semantics)", "equality of results under argument swap (needs execution)"]
    ck.trusted = ["dictdiffer.diff/patch"]
    mg = prog.func("hashfile.tree", "_merge")
    g = ck.cfg(mg)
    df = None
    for c, cals in res.calls_in(mg):
        for cal in cals:
            if cal.module is mg.module and any(call_name(x) == "diff" for x in walk_own(cal.node) if isinstance(x, ast.Call)):
                df = cal
    if df is None:
        ck.fail("C19.policy", mg, mg.node, "_merge no longer obtains the per-side diffs through a policy-checking helper")
        return
    side_calls = [c for c, cals in res.calls_in(mg) if any(x.fq == df.fq for x in cals)]
    ck.floor("C19.conflict", len(side_calls), 2, "per-side diff calls in _merge")
    sides = {}
    for c in side_calls:
        a0 = get_arg(c, df, df.pos_params[0], pos=0)
        a1 = get_arg(c, df, df.pos_params[1], pos=1)
        al = get_arg(c, df, "allowed")
        ck.require(a0 is not None and norm(a0) == "ancestor", "C19.conflict", mg, c, "side diff is taken against the ancestor", f"side diff is taken against {norm(a0) if a0 is not None else '?'}", construct=f"{norm(c)} / base")
        ck.require(al is not None and norm(al) == "allowed" and mg.has_param("allowed"), "C19.policy", mg, c,
                   "the caller's policy is forwarded to the side diff",
                   f"side diff {norm(c)} is not checked against the caller's policy (allowed={norm(al) if al is not None else 'omitted'}): a side that removes/changes entries is accepted under the default add-only policy",
                   construct=f"{norm(c)} / policy")
        if a1 is not None:
            sides[norm(a1)] = c
    ck.require(set(sides) == {"our", "their"}, "C19.conflict", mg, mg.node, "one diff per side (our, their)", f"side diffs cover {sorted(sides)}", construct="side diffs / both sides")
    patches = _calls_named(mg, "patch")
    diffs = _calls_named(mg, "diff")
    from ..an import result_sites

    sites = result_sites(g)
    combined = [st for st in sites if flows_from_calls(g, st.node, st.value, patches)]
    ck.floor("C19.conflict", len(combined), 1, "returns of a combined (patched) result")

    def cross_checked(t, lab):
        if t.kind != "test" or lab != "F":
            return False
        for d in diffs:
            if flows_from_calls(g, t, t.ast, [d]) and len(lib_args(d)) == 2:
                srcs = []
                for a in lib_args(d):
                    ps = [p for p in patches if flows_from_calls(g, t, a, [p])]
                    srcs.append(ps)
                if all(srcs) and srcs[0][0] is not srcs[1][0]:
                    return True
        return False

    from ..an import cut_result

    for st in combined:
        n = st.ret
        w = cut_result(g, st, cross_checked)
        ck.require(w is None, "C19.conflict", mg, n,
                   "combined result is returned only when both application orders give the same dictionary",
                   "a combined result can be returned without the ours-first / theirs-first cross-check: conflicting entries would be silently overridden by one side",
                   witness=g.fmt_path(w) if w else None)
    # the two patches: (our+their, ancestor) and (their+our, ancestor)
    sig = set()
    for p in patches:
        pa = lib_args(p)
        pn = next((n for n in g.nodes.values() if any(c is p for c in calls_at(n))), None)
        if len(pa) == 2 and isinstance(pa[0], ast.Name) and pn is not None:
            # the concatenation hoisted into a local (`ours_first = our_diff + their_diff`)
            from ..an import value_alts as _va

            cat = [a_ for a_ in _va(g, pn, pa[0], depth=2) if isinstance(a_, ast.BinOp) and isinstance(a_.op, ast.Add)]
            if len(cat) == 1:
                pa = [cat[0], pa[1]]
        if len(pa) == 2 and isinstance(pa[0], ast.BinOp) and isinstance(pa[0].op, ast.Add) and pn is not None:
            def side_of(e):
                for k, sc in sides.items():
                    if flows_from_calls(g, pn, e, [sc]):
                        return k
                return "?"

            sig.add((side_of(pa[0].left), side_of(pa[0].right), norm(pa[1])))
    ck.require({("our", "their", "ancestor"), ("their", "our", "ancestor")} <= sig, "C19.conflict", mg, mg.node,
               "both orders (ours then theirs, theirs then ours) are applied to the ancestor", f"the two application orders are not both applied to the ancestor: {sorted(sig)}", construct="patch(a+b, ancestor), patch(b+a, ancestor)")
    # early returns: other side's copy exactly when this side's diff is empty
    for st in sites:
        if st in combined:
            continue
        n = st.node
        v = st.value
        txt = norm(v)
        side = "their" if "their" in txt else ("our" if "our" in txt else None)
        if side is None:
            ck.fail("C19.conflict", mg, n, f"unrecognised return value {txt} in _merge")
            continue
        other = "our" if side == "their" else "their"
        oc = sides.get(other)

        def other_empty(t, lab, oc=oc):
            return t.kind == "test" and lab == "F" and oc is not None and flows_from_calls(g, t, t.ast, [oc])

        w = cut_result(g, st, other_empty)
        ck.require(w is None, "C19.conflict", mg, n, f"`{side}` is returned as the result only when `{other}` did not change anything",
                   f"`{side}` can be returned as the merge result although `{other}` made changes (they would be dropped)", witness=g.fmt_path(w) if w else None)
    _errors(ck, mg, g, patches)
    _policy(ck, df)
    _digest(ck)
    from . import round4 as _r4

    _r4.merge_loads_strict(ck, "C19.digest")
    from . import round7 as _r7

    _r7.from_list_splits_raw_relpath(ck, "C19.digest")
    from . import round11 as _r11

    _r11.canonical_json_encoding(ck, "C19.digest")



def _errors(ck: Checker, mg: Func, g, patches) -> None:
    for p in patches:
        nodes = [n for n in g.nodes.values() if any(c is p for c in calls_at(n))]
        for n in nodes:
            hs = [g.nodes[d] for lab, d in n.succ if lab == "exc" and g.nodes[d].kind == "handler"]
            ok = False
            for h in hs:
                t = norm(h.ast.type) if h.ast.type is not None else ""
                if "KeyError" in t or t in ("Exception", ""):
                    r = g.reach([h.id])
                    raises = [g.nodes[x] for x in r if g.nodes[x].kind == "stmt" and isinstance(g.nodes[x].ast, ast.Raise)]
                    ok = bool(raises) and all(x.ast.exc is not None and "MergeError" in norm(x.ast.exc) for x in raises) and g.exit not in r
            ck.require(ok, "C19.errors", mg, n,
                       "a KeyError from applying diffs is converted into MergeError",
                       f"`{norm(p)}` can raise a bare KeyError (e.g. removing an entry the other side changed): the merge fails with something other than MergeError")
    for n in g.nodes.values():
        if n.kind == "stmt" and isinstance(n.ast, ast.Raise) and n.ast.exc is not None and n.origin is None:
            ck.require("MergeError" in norm(n.ast.exc), "C19.errors", mg, n, "raises MergeError", f"_merge raises {norm(n.ast.exc)}")


def _policy(ck: Checker, df: Func) -> None:
    g = ck.cfg(df)
    rets = [n for n in g.nodes.values() if n.kind == "stmt" and isinstance(n.ast, ast.Return) and n.ast.value is not None]
    ck.floor("C19.policy", len(rets), 1, "returns in the policy diff")
    loops = [h for h in g.nodes.values() if h.kind == "for"]
    # the policy: the `allowed` parameter itself, or a local defined as `allowed or [<default>]`
    policy_names = {"allowed"}
    or_defaults = []
    for a in walk_own(df.node):
        if isinstance(a, ast.Assign) and len(a.targets) == 1 and isinstance(a.targets[0], ast.Name) and isinstance(a.value, ast.BoolOp) and isinstance(a.value.op, ast.Or) \
                and len(a.value.values) == 2 and norm(a.value.values[0]) == "allowed" and isinstance(a.value.values[1], (ast.List, ast.Tuple)):
            policy_names.add(a.targets[0].id)
            or_defaults.append(a.value.values[1])
    checked = None
    for h in loops:
        body = [x for x in g.nodes.values() if h.id in x.loops and x.id != h.id]
        for t in body:
            e = t.ast
            if t.kind == "test" and isinstance(e, ast.Compare) and len(e.ops) == 1 and isinstance(e.ops[0], (ast.NotIn, ast.In)) and norm(e.comparators[0]) in policy_names:
                bad_lab = "T" if isinstance(e.ops[0], ast.NotIn) else "F"
                r = g.reach([d for lab, d in t.succ if lab == bad_lab], skip_node=lambda x: x.id == h.id)
                raises = [g.nodes[x] for x in r if g.nodes[x].kind == "stmt" and isinstance(g.nodes[x].ast, ast.Raise)]
                only_raise = g.exit not in r and h.id not in r and raises and all("MergeError" in norm(x.ast.exc) for x in raises if x.ast.exc is not None)
                # the tested kind is the first component of the loop element
                tgt = h.ast.target
                first = norm(tgt.elts[0]) if isinstance(tgt, (ast.Tuple, ast.List)) and tgt.elts else None
                if only_raise and first is not None and norm(e.left) == first:
                    checked = (h, t)
                    good_lab = "F" if bad_lab == "T" else "T"
                    rg = g.reach([d for lab, d in t.succ if lab == good_lab], skip_node=lambda x: x.id == h.id)
                    left = [x for x in rg if not g.nodes[x].loops or h.id not in g.nodes[x].loops]
                    ck.require(not left, "C19.policy", df, t, "an allowed change kind continues with the next change",
                               "after one allowed change kind the loop is left: later changes of a disallowed kind are never tested", construct=f"{t.text()} / continues")
    if checked is None:
        ck.fail("C19.policy", df, df.node, "no loop that rejects every change kind outside the allowed set with MergeError")
        return
    h, t = checked
    # the loop's iterable: returning early is fine across "there is no change at all" (zero iterations anyway)
    it_name = norm(h.ast.iter)

    def nothing_to_test(a, lab, b):
        if a.kind != "test":
            return False
        t_ = norm(a.ast)
        return (t_ == it_name and lab == "F") or (t_ == f"not {it_name}" and lab == "T")

    for n in rets:
        w = avoiding_path(g, n.id, lambda x: x.id == h.id, stop_edge=nothing_to_test)
        ck.require(w is None, "C19.policy", df, n, "normal return only after the change kinds were tested against the policy",
                   "the diff can be returned without its change kinds having been tested against the allowed set (e.g. policy check skipped when `allowed` is None)",
                   witness=g.fmt_path(w) if w else None)
        it = h.ast.iter
        ck.require(norm(n.ast.value) == norm(it), "C19.policy", df, n, "the diff that was tested is the diff that is returned", f"returned {norm(n.ast.value)} but tested {norm(it)}", construct=f"{n.text()} / same diff")
    # the loop covers the complete diff (no filter, materialised list)
    for d in scope_of(df).get(norm(h.ast.iter)):
        if d.kind == "assign":
            v = d.value
            ok = isinstance(v, ast.Call) and call_name(v) == "list" and v.args and isinstance(v.args[0], ast.Call) and call_name(v.args[0]) == "diff" and [norm(a) for a in lib_args(v.args[0])] == df.pos_params[:2]
            ck.require(ok, "C19.policy", df, d.node, "tested list is the complete diff(ancestor, other)", f"tested list is {norm(v)}", construct=f"{norm(h.ast.iter)} = list(diff(...))")
    # default policy
    okd = False
    defaults = [n for n in g.nodes.values() if n.kind == "stmt" and isinstance(n.ast, ast.Assign) and norm(n.ast.targets[0]) == "allowed"
                and isinstance(n.ast.value, (ast.List, ast.Tuple, ast.Set)) and [getattr(e, "value", None) for e in n.ast.value.elts] == ["add"]]
    for n in defaults:
        w = cut(g, [n.id], lambda tt, lab: tt.kind == "test" and isinstance(tt.ast, ast.Name) and tt.ast.id == "allowed" and lab == "F")
        okd = okd or w is None
    others = [n for n in g.nodes.values() if n.kind == "stmt" and isinstance(n.ast, ast.Assign) and norm(n.ast.targets[0]) == "allowed" and n not in defaults and norm(n.ast.value) != "allowed"]
    okd = okd and not others
    pd = df.param_default("allowed")
    if not defaults and isinstance(pd, (ast.List, ast.Tuple)) and [getattr(e, "value", None) for e in pd.elts] == ["add"]:
        okd = True
    if not defaults and not others and or_defaults and all([getattr(e, "value", None) for e in d_.elts] == ["add"] for d_ in or_defaults):
        okd = True  # permitted = allowed or ["add"]
    ck.require(okd, "C19.policy", df, df.node, "default policy resolves to exactly ['add']", "the default merge policy is no longer exactly ['add'] applied when none is given", construct="default allowed == ['add']")


def _digest(ck: Checker) -> None:
    prog = ck.prog
    fn = prog.func("hashfile.tree", "merge")
    g = ck.cfg(fn)
    rets = [n for n in g.nodes.values() if n.kind == "stmt" and isinstance(n.ast, ast.Return) and n.ast.value is not None]
    ck.floor("C19.digest", len(rets), 1, "returns in merge()")
    for n in rets:
        v = n.ast.value
        if not isinstance(v, ast.Name):
            ck.fail("C19.digest", fn, n, f"merge() returns {norm(v)}; cannot relate it to a digested tree")
            continue
        dg = {x.id for x in g.nodes.values() for c in calls_at(x) if is_method_call(c, "digest") and norm(c.func.value) == v.id}
        w = avoiding_path(g, n.id, lambda x: x.id in dg)
        ck.require(bool(dg) and w is None, "C19.digest", fn, n, "the merged tree is digested before it is returned",
                   "merge() can return a tree whose identifier was not recomputed from the merged listing (e.g. an input's hash reused)", witness=g.fmt_path(w) if w else None)
        # no identity fields assigned from inputs after/besides digest
        for x in g.nodes.values():
            a = x.ast
            if x.kind == "stmt" and isinstance(a, ast.Assign) and any(norm(t) in (f"{v.id}.hash_info", f"{v.id}.oid") for t in a.targets):
                ck.fail("C19.digest", fn, x, f"merged tree's identifier is assigned directly ({x.text()}) instead of being computed by digest()")
        # rows: every item of the merged dict
        adds = [(x, c) for x in g.nodes.values() for c in calls_at(x) if is_method_call(c, "add") and norm(c.func.value) == v.id]
        okr = False
        for x, c in adds:
            if x.loops:
                h = g.nodes[x.loops[-1]]
                it = h.ast.iter
                if isinstance(it, ast.Call) and is_method_call(it, "items"):
                    src = it.func.value
                    mcalls = [cc for cc, cals in ck.res.calls_in(fn) if any(k.name == "_merge" for k in cals)]
                    if flows_from_calls(g, h, src, mcalls):
                        # unconditional add
                        starts = [d for lab, d in h.succ if lab == "T"]
                        r = g.reach(starts, skip_node=lambda y: y.id == x.id, skip_edge=lambda a, l, b: l == "exc")
                        okr = h.id not in r
        ck.require(okr, "C19.digest", fn, n, "every row of the merged dictionary is added to the returned tree", "the returned tree is not built from every row of _merge()'s result", construct=f"{n.text()} / rows")
    # argument order of the _merge call
    for c, cals in ck.res.calls_in(fn):
        if any(k.name == "_merge" for k in cals):
            order = []
            mgf = cals[0]
            roles = [get_arg(c, mgf, pn, pos=i) for i, pn in enumerate(mgf.pos_params[:3])]
            from ..an import value_alts

            cn = next((x for x in g.nodes.values() if any(c2 is c for c2 in calls_at(x))), None)

            def info_params(e, at, depth=5):
                """which of merge()'s *_info parameters the value of e (at node `at`) is loaded from (flow-sensitive)"""
                from ..an import reaching_defs

                out = set()
                for y in ast.walk(e):
                    if isinstance(y, ast.Name) and isinstance(y.ctx, ast.Load):
                        if fn.has_param(y.id) and y.id.endswith("_info"):
                            out.add(y.id)
                        elif depth > 0:
                            for d in reaching_defs(g, at.id, y.id):
                                v = getattr(d.ast, "value", None)
                                if v is not None and not (isinstance(v, ast.Call) and call_name(v) == "Tree" and not v.args):
                                    out |= info_params(v, d, depth - 1)
                return out

            for a in [r_ for r_ in roles if r_ is not None]:
                ps = info_params(a, cn) if cn is not None else set()
                order.append({"ancestor_info": "ancestor", "our_info": "our", "their_info": "their"}.get(next(iter(ps)), "?") if len(ps) == 1 else f"?{sorted(ps)}")
            ck.require(order == ["ancestor", "our", "their"], "C19.digest", fn, c, "_merge(ancestor, ours, theirs) in that order", f"_merge is called with {order}", construct="_merge(...) / argument roles")
            al = get_arg(c, cals[0], "allowed")
            ck.require(al is not None and norm(al) == "allowed", "C19.policy", fn, c, "merge() forwards its policy", "merge() does not forward `allowed`", construct="_merge(... allowed=allowed)")
