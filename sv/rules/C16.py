"""C16 - Concurrent writers cannot corrupt a shared store or state database (structural necessary conditions only)."""
from __future__ import annotations

import ast
from typing import List

from ..an import avoiding_path, is_method_call
from ..cfg import calls_at
from ..core import Checker
from ..loader import Func, norm, walk_expr, walk_own
from ..prov import call_name, expand1, scope_of
from .C13 import _batch
from .shared_state import MUTATORS, check_class_level_state

FRESH = ("tmp_fname(", "uuid", "mkstemp(", "mkdtemp(", "token_hex(", "token_urlsafe(", "shortuuid", "NamedTemporaryFile(")


def is_fresh(ck: Checker, fn: Func, e: ast.expr) -> str:
    cands = [e]
    if isinstance(e, ast.Attribute):
        # self.path = path + ".with_meta"  (attribute assigned in this function)
        for x in walk_own(fn.node):
            if isinstance(x, ast.Assign) and any(norm(t) == norm(e) for t in x.targets):
                cands.append(x.value)
    alts = " | ".join(norm(a) for c in cands for a in expand1(ck.prog, fn, c, levels=3))
    return alts if any(f in alts for f in FRESH) else ""


def check(ck: Checker) -> None:
    ck.decided = [
        "C16.uniq: every scratch path that is written and later re-read / added / renamed in a namespace shared between writers derives from a fresh-name generator (Tree.digest, _upload_file, _unprotect_file)",
        "C16.mkdir: store directory creation is unconditional and tolerant (exist_ok=True), never check-then-create",
        "C16.workers: callables handed to thread pools communicate only through their return value (no nonlocal/global, no stores into captured objects)",
        "C16.globals: no mutable container declared at class level is mutated through instances; module-level mutable containers mutated from functions are exactly the idempotent url cache",
        "C16.statetx: state upserts run in one transaction",
    ]
    ck.not_decided = ["everything about schedules / interleavings themselves", "atomic placement inside dvc_objects", "SQLite/diskcache locking"]
    ck.trusted = ["os.rename atomicity", "SQLite", "dvc_objects.fs.utils.tmp_fname returns unique names"]
    prog = ck.prog
    # ----------------------------------------------------------------- uniq
    dg = prog.func("hashfile.tree", "Tree.digest")
    pipes = [c for c in walk_own(dg.node) if isinstance(c, ast.Call) and is_method_call(c, "pipe_file", "pipe") and c.args]
    ck.floor("C16.uniq", len(pipes), 1, "scratch writes in Tree.digest")
    for c in pipes:
        f = is_fresh(ck, dg, c.args[0])
        ck.require(bool(f), "C16.uniq", dg, c, "scratch listing path is freshly generated", f"scratch listing path {norm(c.args[0])} is not derived from a fresh-name generator: two stagings in one process (or a writer staging twice before transferring) overwrite each other's listing in the shared memory filesystem")
    up = prog.func("hashfile.build", "_upload_file")
    for c in [x for x in walk_own(up.node) if isinstance(x, ast.Call) and is_method_call(x, "put_file", "upload_fobj") and len(x.args) > 1]:
        ck.require(bool(is_fresh(ck, up, c.args[1])), "C16.uniq", up, c, "upload temp name is fresh", f"upload target {norm(c.args[1])} is not a fresh name: concurrent uploads collide")
    un = prog.func("hashfile.db.local", "LocalHashFileDB._unprotect_file")
    for c in [x for x in walk_own(un.node) if isinstance(x, ast.Call) and call_name(x) in ("copyfile", "copy") and len(x.args) > 1]:
        ck.require(bool(is_fresh(ck, un, c.args[1])), "C16.uniq", un, c, "unprotect temp name is fresh", f"unprotect temp {norm(c.args[1])} is not a fresh name")
    # ---------------------------------------------------------------- mkdir
    mk = prog.func("hashfile.db.local", "LocalHashFileDB.makedirs")
    g = ck.cfg(mk)
    creates = [(n, c) for n in g.nodes.values() for c in calls_at(n) if call_name(c) in ("makedirs", "mkdir")]
    ck.floor("C16.mkdir", len(creates), 1, "directory creation calls in LocalHashFileDB.makedirs")
    for n, c in creates:
        eo = next((k.value for k in c.keywords if k.arg == "exist_ok"), None)
        ck.require(isinstance(eo, ast.Constant) and eo.value is True, "C16.mkdir", mk, n, "creation tolerates an existing directory (exist_ok=True)",
                   "directory creation is not exist_ok=True: two writers creating the same fan-out directory race and the loser fails with FileExistsError")
        w = avoiding_path(g, g.exit, lambda x: x.id == n.id)
        ck.require(w is None, "C16.mkdir", mk, n, "creation is unconditional (no check-then-create)", "directory creation is guarded by an existence check (check-then-create race)", witness=g.fmt_path(w) if w else None, construct=f"{n.text()[:50]} / unconditional")
    # -------------------------------------------------------------- workers
    workers: List[Func] = []
    for fn in prog.all_funcs():
        for c, _ in ck.res.calls_in(fn):
            if is_method_call(c, "imap_unordered", "imap", "map", "submit") and "executor" in norm(c.func.value) and c.args:
                for alt in expand1(prog, fn, c.args[0], levels=2):
                    nm = None
                    if isinstance(alt, ast.Name):
                        nm = alt.id
                    elif isinstance(alt, ast.Call) and call_name(alt) == "partial" and alt.args and isinstance(alt.args[0], ast.Name):
                        nm = alt.args[0].id
                    if nm:
                        ent = prog.lookup_name(fn, nm)
                        if isinstance(ent, Func):
                            workers.append(ent)
    workers = list({w.fq: w for w in workers}.values())
    ck.floor("C16.workers", len(workers), 2, "callables handed to executors")
    for w in workers:
        bad = []
        locals_ = set(scope_of(w).defs)
        for x in walk_own(w.node):
            if isinstance(x, (ast.Nonlocal, ast.Global)):
                bad.append(norm(x))
            if isinstance(x, (ast.Assign, ast.AugAssign)):
                tgts = x.targets if isinstance(x, ast.Assign) else [x.target]
                for t in tgts:
                    base = t
                    while isinstance(base, (ast.Attribute, ast.Subscript)):
                        base = base.value
                    if isinstance(t, (ast.Attribute, ast.Subscript)) and isinstance(base, ast.Name) and base.id not in locals_:
                        bad.append(norm(x)[:60])
            if isinstance(x, ast.Call) and isinstance(x.func, ast.Attribute) and x.func.attr in MUTATORS:
                base = x.func.value
                while isinstance(base, (ast.Attribute, ast.Subscript)):
                    base = base.value
                if isinstance(base, ast.Name) and base.id not in locals_:
                    bad.append(norm(x)[:60])
        ck.require(not bad, "C16.workers", w, w.node, "worker communicates only through its return value", f"pool worker mutates shared state: {bad[:3]}", construct=f"def {w.name} / purity")
    # -------------------------------------------------------------- globals
    classes = [c for m in prog.modules.values() if not m.trusted and not m.name.endswith(".cli") for c in m.classes.values()]
    n = check_class_level_state(ck, "C16.globals", classes, "all instances in the process (every staging area / store / writer) share it, so one writer's entries are served to another")
    ck.floor("C16.globals", n, 20, "classes examined")
    census = []
    for m in prog.modules.values():
        if m.trusted or m.name.endswith(".cli"):
            continue
        for name, v in m.consts.items():
            if isinstance(v, (ast.Dict, ast.List, ast.Set)) or (isinstance(v, ast.Call) and call_name(v) in ("dict", "list", "set", "defaultdict")):
                writes = []
                for f in m.funcs.values():
                    for x in walk_own(f.node):
                        if isinstance(x, ast.Assign) and any(isinstance(t, ast.Subscript) and norm(t.value) == name for t in x.targets):
                            writes.append((f, x))
                        if isinstance(x, ast.Call) and isinstance(x.func, ast.Attribute) and x.func.attr in MUTATORS and norm(x.func.value) == name:
                            writes.append((f, x))
                if writes:
                    census.append((m, name, writes))
    for m, name, writes in census:
        for f, x in writes:
            ok = False
            if isinstance(x, ast.Assign) and isinstance(x.targets[0], ast.Subscript):
                k = norm(x.targets[0].slice)
                vnames = {y.id for y in walk_expr(x.value) if isinstance(y, ast.Name)}
                # idempotent: the stored value is a pure function of the key alone
                ok = vnames <= {k, "hashlib"} and "hashlib" in norm(x.value)
            ck.require(ok, "C16.globals", f, x, f"module-level `{name}` only memoises a pure digest of its key (idempotent under races)", f"module-level mutable `{m.name}.{name}` is written with {norm(x)[:80]}: shared between threads without being an idempotent memo")
    ck.require(len(census) <= 1, "C16.globals", None, None, f"module-level mutable state mutated from functions: {[f'{m.name}.{n_}' for m, n_, _ in census]}", f"new module-level mutable state mutated from functions: {[f'{m.name}.{n_}' for m, n_, _ in census]}", construct="module-level mutable census")
    # -------------------------------------------------------------- statetx
    _batch(ck)
    for o in ck.obs:
        if o.rule == "C13.batch":
            o.rule = "C16.statetx"
    from . import round10 as _r10

    _r10.state_rows_upserted_atomically(ck, "C16.statetx")
