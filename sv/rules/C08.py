"""C08 - Index diff is exact: every key once, correctly classified, renames paired."""
from __future__ import annotations

import ast
from typing import List, Optional, Set

from ..an import eq_edge, count_on_paths, cut, flows_from_calls, is_method_call, with_flags, yields_at
from ..cfg import calls_at, node_exprs
from ..core import Checker
from ..loader import Func, norm, walk_expr, walk_own
from ..prov import call_name, expand1, get_arg, scope_of
from .generic_lints import run_all as _lints


def _is_dir_atom(t, side: Optional[str] = None) -> bool:
    e = t.ast
    if not (t.kind == "test" and isinstance(e, ast.Compare) and len(e.ops) == 1 and isinstance(e.ops[0], ast.Eq)):
        return False
    r = e.comparators[0]
    if not (isinstance(r, ast.Constant) and r.value == "directory"):
        return False
    l = norm(e.left)
    if side is None:
        return True
    other = "new" if side == "old" else "old"
    return f"{side}_info" in l and f"{other}_info" not in l


def check(ck: Checker) -> None:
    _lints(ck, "C08.aliasing", "index.diff", fresh_in=[ck.func("index.diff", "_diff")])
    prog = ck.prog
    ck.decided = [
        "C08.union: per level the traversal iterates the union of both listings' keys",
        "C08.once: each key yields at most one change; a key yields nothing only when both entries are absent or it is UNCHANGED and unchanged entries were not requested",
        "C08.shortcut: descent into a directory is suppressed only under hash_only AND not with_unchanged AND not unknown AND typ == UNCHANGED AND the old entry is a hashed directory",
        "C08.descent: whenever either side is a directory (tested per side) the children of both sides are queued",
        "C08.renames: non add/delete changes pass through; every addition yields exactly one change; a deletion is consumed by a removing pop from its per-hash queue (never by dropping the queue); leftovers are yielded; pairing keys are addition.new.hash_info / deletion.old.hash_info",
    ]
    ck.not_decided = ["the per-entry classification table (_diff_entry/_diff_meta/_diff_hash_info) - value-level", "symmetry under argument swap", "correctness of info()/ls()"]
    ck.trusted = ["BaseDataIndex.ls/info enumerate the children of a key"]
    fn = prog.func("index.diff", "_diff")
    g = ck.cfg(fn)
    # the per-key loop: inside the `while todo` loop
    key_loops = [h for h in g.nodes.values() if h.kind == "for" and len(h.loops) >= 2]
    ck.floor("C08.union", len(key_loops), 1, "per-key loops in _diff")
    h = key_loops[0]
    it = h.ast.iter
    if isinstance(it, ast.Call) and is_method_call(it, "wrap") and it.args:
        it = it.args[0]
    ok = False
    if isinstance(it, ast.BinOp) and isinstance(it.op, ast.BitOr):
        sides = {norm(it.left), norm(it.right)}
        ok = sides == {"old_items.keys()", "new_items.keys()"} or sides == {"set(old_items)", "set(new_items)"}
    elif isinstance(it, ast.Call) and is_method_call(it, "union"):
        sides = {norm(it.func.value), norm(it.args[0]) if it.args else ""}
        ok = any("old_items" in s for s in sides) and any("new_items" in s for s in sides)
    ck.require(ok, "C08.union", fn, h, "keys are the union of both sides' listings", f"per-level key set is {norm(it)}, not the union of old and new listings: keys present on one side only would be lost")
    # old_items/new_items come from the queue element
    # ----------------------------------------------------------------- once
    lo, hi, wit = count_on_paths(g, [(h.id, "T")], {h.id, g.exit, g.raise_exit}, yields_at)
    ck.require(hi <= 1, "C08.once", fn, h, "at most one change is yielded per key", f"a key can yield {hi} changes", witness=g.fmt_path(wit["max"]) if hi > 1 else None, construct="per-key loop / max yields")
    ynodes = {n.id for n in g.nodes.values() if h.id in n.loops and yields_at(n)}

    def silent_ok(a, lab, b):
        if lab == "exc":
            return True
        e = a.ast
        if a.kind == "test" and isinstance(e, ast.Compare) and len(e.ops) == 1 and isinstance(e.ops[0], ast.Is) and norm(e.left) == "new_entry" and lab == "T":
            return True
        if a.kind == "test" and isinstance(e, ast.Name) and e.id == "with_unchanged" and lab == "F":
            return True
        return False

    starts = [d for lab, d in h.succ if lab == "T"]
    r = g.reach(starts, skip_node=lambda x: x.id in ynodes, skip_edge=silent_ok)
    bad = h.id in r
    ck.require(not bad, "C08.once", fn, h,
               "a key is passed over silently only if both entries are None or it is UNCHANGED without with_unchanged",
               "a key can be dropped from the diff although an entry exists and it is not an unrequested UNCHANGED",
               witness=g.fmt_path(g.path_to(r, h.id)) if bad else None, construct="per-key loop / silent paths")
    # the silent UNCHANGED path is really guarded by typ == UNCHANGED (in either order with the with_unchanged test)
    from ..an import eq_edge as _eq

    def silent_ok2(a, lab, b):
        if lab == "exc":
            return True
        e = a.ast
        if a.kind == "test" and isinstance(e, ast.Compare) and len(e.ops) == 1 and isinstance(e.ops[0], ast.Is) and norm(e.left) == "new_entry" and lab == "T":
            return True
        return a.kind == "test" and _eq(a, lab, "typ", "UNCHANGED") is True

    r2 = g.reach(starts, skip_node=lambda x: x.id in ynodes, skip_edge=silent_ok2)
    bad2 = h.id in r2
    ck.require(not bad2, "C08.once", fn, h, "suppression of a change requires typ == UNCHANGED", "a change that is not UNCHANGED can be suppressed by with_unchanged=False",
               witness=g.fmt_path(g.path_to(r2, h.id)) if bad2 else None, construct="with_unchanged")

    # ------------------------------------------------------- shortcut/descent
    # the work queue: the container popped at the top of the outer loop
    queue = None
    for n in g.nodes.values():
        for c in calls_at(n):
            if is_method_call(c, "popleft", "pop") and isinstance(c.func.value, ast.Name) and n.loops and h.id not in n.loops:
                queue = c.func.value.id
    descents = [n for n in g.nodes.values() if h.id in n.loops for c in calls_at(n) if is_method_call(c, "append", "appendleft", "extend") and norm(c.func.value) == queue]
    ck.floor("C08.descent", len(descents), 1, "descent (todo.append) sites in the per-key loop")
    dids = {d.id for d in descents}
    required = {
        "hash_only": lambda t, lab: isinstance(t.ast, ast.Name) and t.ast.id == "hash_only" and lab == "T",
        "not with_unchanged": lambda t, lab: isinstance(t.ast, ast.Name) and t.ast.id == "with_unchanged" and lab == "F",
        "not unknown": lambda t, lab: isinstance(t.ast, ast.Name) and t.ast.id == "unknown" and lab == "F",
        "typ == UNCHANGED": lambda t, lab: eq_edge(t, lab, "typ", "UNCHANGED") is True,
        "old entry is a hashed directory": lambda t, lab: lab == "T" and any(norm(a).endswith(".hash_info.isdir") and "old" in norm(a) for a in [t.ast] + (expand1(ck.prog, fn, t.ast, levels=2) if norm(t.ast).endswith(".isdir") else [])),
    }
    dir_atoms = [t for t in g.nodes.values() if h.id in t.loops and _is_dir_atom(t)]
    ck.floor("C08.descent", len(dir_atoms), 1, "'type == directory' tests")

    # region after the shortcut/descent construct: first node that is reached on every path; use the
    # loop header as the target and stop at yield / both-None tests by not treating them specially.
    for name, lit in required.items():
        def base_lit(a, lab, lit=lit):
            if a.kind == "test" and lit(a, lab):
                return True
            # "neither side is a directory": the no-descent exit of the directory test(s)
            return a.kind == "test" and _is_dir_atom(a) and lab == "F" and "new" in norm(a.ast)

        lifted = with_flags(g, base_lit, start=h.id)

        def skip_edge(a, lab, b, lifted=lifted):
            return lab == "exc" or lifted(a, lab)

        rr = g.reach(starts, skip_node=lambda x: x.id in dids, skip_edge=skip_edge)
        bad = h.id in rr
        ck.require(not bad, "C08.shortcut", fn, h,
                   f"skipping the descent into a directory requires '{name}'",
                   f"the descent into a directory can be skipped without '{name}': changes below that directory would be hidden",
                   witness=g.fmt_path(g.path_to(rr, h.id)) if bad else None, construct=f"shortcut / {name}")
    lifted_short = with_flags(g, lambda a, lab: a.kind == "test" and any(lit(a, lab) for lit in required.values()), start=h.id)
    for side in ("old", "new"):
        atoms = [t for t in dir_atoms if _is_dir_atom(t, side)]
        # every way round the loop body that avoids the descent is either the shortcut or crosses
        # "this side is not a directory" (directly, or through a flag computed from it)
        # lifted as ONE disjunction: a flag may be cleared on one path because of the shortcut and on another because
        # this side is not a directory
        lifted_side = with_flags(g, lambda a, lab, side=side: a.kind == "test" and ((_is_dir_atom(a, side) and lab == "F") or any(lit(a, lab) for lit in required.values())), start=h.id)
        rr = g.reach(starts, skip_node=lambda x: x.id in dids, skip_edge=lambda a, l, b, ls=lifted_side: l == "exc" or ls(a, l) or lifted_short(a, l))
        ok = bool(atoms) and h.id not in rr
        ck.require(ok, "C08.descent", fn, atoms[0] if atoms else h,
                   f"if the {side} side is a directory its level is always descended into",
                   f"no test of the {side} side alone being a directory leads to the descent: a directory on the {side} side only (e.g. directory replaced by a file) is not expanded and its children are lost",
                   construct=f"{side}_info type == 'directory' => descend")
    for d in descents:
        for c in calls_at(d):
            if c.args and isinstance(c.args[0], ast.Tuple) and len(c.args[0].elts) >= 2:
                gi = [x for x in walk_own(fn.node) if isinstance(x, ast.Call) and call_name(x) == "_get_items"]
                gi_fn = prog.func("index.diff", "_get_items")
                srcs = []
                for el in c.args[0].elts[:2]:
                    who = [norm(get_arg(x, gi_fn, gi_fn.pos_params[0])) for x in gi if flows_from_calls(g, d, el, [x]) and get_arg(x, gi_fn, gi_fn.pos_params[0]) is not None]
                    srcs.append(who)
                ck.require(srcs[0] == ["old"] and srcs[1] == ["new"], "C08.descent", fn, d, "children of (old, new) are queued together in that order", f"queued children come from {srcs}, not from (old, new)", construct=f"{d.text()} / sides")
    _unknown(ck, fn, g, descents)
    _roots(ck, fn, g)
    _classify(ck)
    _renames(ck)
    from . import round7 as _r7

    _r7.ensure_loaded_by_kind(ck, "C08.once")
    from . import round9 as _r9

    _r9.presence_tested_on_raw_meta(ck, "C08.classify")


def _roots(ck: Checker, fn: Func, g) -> None:
    """Each root is looked up on both sides independently: a root missing on one side must not skip the other."""
    infos = [(n, c) for n in g.nodes.values() for c in calls_at(n) if is_method_call(c, "info") and isinstance(c.func.value, ast.Name) and c.func.value.id in ("old", "new") and len(n.loops) == 1]
    if len(infos) < 2:
        # the lookup lives in a helper taking the index as a parameter: it must be called for both sides
        # and absorb the missing-root error itself, so that one side cannot affect the other
        n_h = 0
        for h in fn.module.funcs.values():
            gh = ck.cfg(h)
            for hn in gh.nodes.values():
                for hc in calls_at(hn):
                    if not (is_method_call(hc, "info") and isinstance(hc.func.value, ast.Name) and h.has_param(hc.func.value.id)):
                        continue
                    pname = hc.func.value.id
                    sites = [c for c in ast.walk(fn.node) if isinstance(c, ast.Call) and any(x.fq == h.fq for x in ck.res.resolve(fn, c))]
                    sides = {norm(a) for c in sites for a in [get_arg(c, h, pname)] if a is not None}
                    if not sites:
                        continue
                    n_h += len(sides & {"old", "new"})
                    ck.require({"old", "new"} <= sides, "C08.roots", fn, sites[0], f"{h.name} looks the root up on both sides", f"{h.name} is only called for {sorted(sides)}: roots present on the other side only are dropped from the diff", construct=f"{h.name}(old|new, root)")
                    excs = [gh.nodes[d] for lab, d in hn.succ if lab == "exc"]
                    absorbed = bool(excs) and all(x.kind == "handler" for x in excs)
                    ck.require(absorbed, "C08.roots", h, hn, "a root missing on one side is absorbed inside the per-side helper", f"`{norm(hc)}` can raise out of {h.name}: a root missing on one side aborts the lookup on the other", construct=f"{norm(hc)} / absorbed")
        ck.floor("C08.roots", n_h, 2, "root lookups (old.info(root) / new.info(root), directly or through a per-side helper)")
        return
    ck.floor("C08.roots", len(infos), 2, "root lookups (old.info(root) / new.info(root))")
    by_side = {c.func.value.id: n for n, c in infos}
    for side, other in (("old", "new"), ("new", "old")):
        n = by_side.get(side)
        o = by_side.get(other)
        if n is None or o is None:
            ck.fail("C08.roots", fn, fn.node, f"no root lookup on the {side if n is None else other} side")
            continue
        hs = [d for lab, d in n.succ if lab == "exc"]
        if not hs:
            continue
        head = n.loops[-1]
        # after the lookup on this side raised, the other side's lookup still happens (or already happened)
        r = g.reach(hs, skip_node=lambda x: x.id == head)
        before = o.id in {x for x in g.reach([head], skip_node=lambda x, n=n: x.id == n.id)} and o.id not in g.reach([n.id], skip_node=lambda x: x.id == head)
        ck.require(o.id in r or before, "C08.roots", fn, n,
                   f"a root missing from the {side} index does not skip the lookup in the {other} index",
                   f"when `{side}.info(root)` raises (root absent on that side) the `{other}.info(root)` lookup is skipped as well: everything below a root that exists on one side only is dropped from the diff",
                   construct=f"{side}.info(root) / independent of {other}")


def _classify(ck: Checker) -> None:
    """The hash comparison looks at whole HashInfo values (algorithm name and digest)."""
    fn = ck.prog.func("index.diff", "_diff_hash_info")
    params = set(fn.pos_params)
    whole, partial = [], []
    for x in walk_own(fn.node):
        if isinstance(x, ast.Compare) and len(x.ops) == 1 and isinstance(x.ops[0], (ast.Eq, ast.NotEq)):
            sides = [x.left, x.comparators[0]]
            if all(isinstance(s_, ast.Name) and s_.id in params for s_ in sides):
                whole.append(x)
            elif any(isinstance(s_, ast.Attribute) and isinstance(s_.value, ast.Name) and s_.value.id in params for s_ in sides):
                partial.append(x)
    ck.require(bool(whole) and not partial, "C08.classify", fn, (partial or whole or [fn.node])[0],
               "hash entries are compared as whole HashInfo values (name and digest)",
               f"hash entries are compared by a projection ({norm(partial[0]) if partial else 'no whole-value comparison'}): the same digest under another algorithm name is reported as unchanged")


def _renames(ck: Checker) -> None:
    prog = ck.prog
    fn = prog.func("index.diff", "_detect_renames")
    g = ck.cfg(fn)
    loops = [h for h in g.nodes.values() if h.kind == "for" and len(h.loops) == 1]
    first = next((h for h in loops if norm(h.ast.iter) == "changes"), None)
    if first is None:
        ck.fail("C08.renames", fn, fn.node, "no loop over the incoming changes")
        return

    def w_first(n):
        k = yields_at(n)
        for c in calls_at(n):
            if is_method_call(c, "append") and c.args and norm(c.args[0]) == norm(first.ast.target):
                k += 1
        return k

    lo, hi, wit = count_on_paths(g, [(first.id, "T")], {first.id, g.exit}, w_first)
    ck.require(lo == 1 and hi == 1, "C08.renames", fn, first, "every incoming change is either kept for pairing or passed through, exactly once",
               f"an incoming change is handled {lo}..{hi} times (lost or duplicated)", witness=g.fmt_path(wit["min"] if lo != 1 else wit["max"]) if (lo, hi) != (1, 1) else None)
    # ADD/DELETE classification of the two buckets
    lv_ = norm(first.ast.target)
    # `typ = change.typ` read once per iteration: locals of the loop body bound only to the change's kind
    kinds = {f"{lv_}.typ"}
    for a in walk_own(fn.node):
        if isinstance(a, ast.Assign) and len(a.targets) == 1 and isinstance(a.targets[0], ast.Name) and norm(a.value) == f"{lv_}.typ":
            nm_ = a.targets[0].id
            if all(norm(d_.value) == f"{lv_}.typ" for d_ in scope_of(fn).get(nm_) if d_.value is not None) and all(d_.value is not None for d_ in scope_of(fn).get(nm_)):
                kinds.add(nm_)

    def is_kind_test(t, lab, typ):
        e = t.ast
        if not (t.kind == "test" and isinstance(e, ast.Compare) and len(e.ops) == 1 and isinstance(e.ops[0], ast.Eq) and lab == "T"):
            return False
        l_, r_ = norm(e.left), norm(e.comparators[0])
        return (l_ in kinds and r_ == typ) or (r_ in kinds and l_ == typ)

    for bucket, typ in (("added", "ADD"), ("deleted", "DELETE")):
        nodes = [n for n in g.nodes.values() if first.id in n.loops for c in calls_at(n) if is_method_call(c, "append") and norm(c.func.value) == bucket]
        for n in nodes:
            w = cut(g, [n.id], lambda t, lab, typ=typ: is_kind_test(t, lab, typ), start=first.id)
            ck.require(w is None, "C08.renames", fn, n, f"`{bucket}` receives only {typ} changes", f"`{bucket}` can receive changes that are not {typ}", witness=g.fmt_path(w) if w else None)
    # the structure whose remainder is yielded at the end
    tail = []
    table = None
    for n in g.nodes.values():
        if not yields_at(n):
            continue
        encl = [g.nodes[i] for i in n.loops]
        if any(norm(x.ast.iter) == "changes" for x in encl if x.kind == "for"):
            continue
        srcs = list(node_exprs(n)) + [x.ast.iter for x in encl if x.kind == "for"]
        for e in srcs:
            for x in walk_expr(e):
                if isinstance(x, ast.Call) and is_method_call(x, "values") and isinstance(x.func.value, ast.Name):
                    table = x.func.value.id
                    tail.append(encl[0] if encl and any(y is x for y in walk_expr(encl[0].ast.iter)) else n)
    ck.require(table is not None, "C08.renames", fn, tail[0] if tail else fn.node, "unmatched deletions are yielded at the end", "the unmatched deletions are not yielded after pairing", construct="yield from <remaining deletions>")
    if table is None:
        return
    adds = None
    for h_ in loops:
        body_y = [n for n in g.nodes.values() if h_.id in n.loops and yields_at(n)]
        if body_y and norm(h_.ast.iter) != "changes" and not any(isinstance(x, ast.Call) and is_method_call(x, "values") for x in walk_expr(h_.ast.iter)):
            adds = h_
    if adds is None:
        ck.fail("C08.renames", fn, fn.node, "no loop over the additions")
        return
    lo, hi, wit = count_on_paths(g, [(adds.id, "T")], {adds.id, g.exit}, yields_at)
    ck.require(lo == 1 and hi == 1, "C08.renames", fn, adds, "every addition yields exactly one change (itself or a rename)", f"an addition yields {lo}..{hi} changes",
               witness=g.fmt_path(wit["min"] if lo != 1 else wit["max"]) if (lo, hi) != (1, 1) else None)
    # tail reached from loop exit (except when table empty)
    tids = {n.id for n in tail}
    r = g.reach([d for lab, d in adds.succ if lab == "F"], skip_node=lambda x: x.id in tids, skip_edge=lambda a, l, b: l == "exc" or (a.kind == "test" and norm(a.ast) == table and l == "F"))
    ck.require(g.exit not in r, "C08.renames", fn, adds, "after pairing, the remaining deletions are always yielded", "the function can finish without yielding the remaining deletions", construct="after additions loop / leftovers")
    # no dict-level removal on the table; deletion taken by a removing pop from the queue
    for n in g.nodes.values():
        for c in calls_at(n):
            if is_method_call(c, "pop", "popitem", "clear") and norm(c.func.value) == table:
                ck.fail("C08.renames", fn, n, f"`{norm(c)}` removes a whole per-hash queue from `{table}`: the other deletions with that hash are neither paired nor yielded at the end")
        if n.kind == "stmt" and isinstance(n.ast, ast.Delete) and any(table in norm(t) for t in n.ast.targets):
            ck.fail("C08.renames", fn, n, f"`{n.text()}` drops a per-hash queue from `{table}`")
    renames = [(n, c) for n in g.nodes.values() if adds.id in n.loops for c in calls_at(n) if call_name(c) == "Change" and get_arg(c, None, "typ", 0) is not None and norm(get_arg(c, None, "typ", 0)) == "RENAME"]
    ck.floor("C08.renames", len(renames), 1, "rename constructions")
    for n, c in renames:
        old_a, new_a = get_arg(c, None, "old", 1), get_arg(c, None, "new", 2)
        ck.require(old_a is not None and norm(old_a).endswith(".old") and new_a is not None and norm(new_a) == f"{norm(adds.ast.target)}.new", "C08.renames", fn, n,
                   "rename carries deletion.old and addition.new", f"rename is built from ({norm(old_a) if old_a is not None else None}, {norm(new_a) if new_a is not None else None})", construct=f"{norm(c)} / sides")
        dname = norm(old_a).rsplit(".", 1)[0] if old_a is not None else None
        okpop = False
        srcs = [d.value for d in scope_of(fn).get(dname or "") if d.kind == "assign"]
        if isinstance(old_a, ast.Attribute) and isinstance(old_a.value, ast.Call):
            srcs.append(old_a.value)  # the pop written in place: Change(RENAME, queue.pop().old, ...)
        for v in srcs:
            if isinstance(v, ast.Call) and is_method_call(v, "pop", "popleft"):
                q = v.func.value
                alts = []
                for alt in expand1(prog, fn, q, levels=2):
                    alts += [alt.body, alt.orelse] if isinstance(alt, ast.IfExp) else [alt]
                for alt in alts:
                    if isinstance(alt, ast.Call) and is_method_call(alt, "get") and norm(alt.func.value) == table:
                        key = norm(alt.args[0]) if alt.args else ""
                        keyalts = [norm(z) for z in expand1(prog, fn, alt.args[0], levels=2)] if alt.args else []
                        okpop = any(f"{norm(adds.ast.target)}.new.hash_info" in k for k in keyalts + [key])
                    if isinstance(alt, ast.Subscript) and norm(alt.value) == table:
                        okpop = True
        ck.require(okpop, "C08.renames", fn, n, "the paired deletion is popped from the queue looked up (not removed) under addition.new.hash_info",
                   "the paired deletion is not obtained by a removing pop from the per-hash queue found under addition.new.hash_info (peek duplicates a key; popping the dict entry loses the queue)", construct=f"{norm(c)} / deletion source")
    # table keyed by deletion.old.hash_info
    def _slot(c):
        """key expression when c appends to table[key] / table.setdefault(key, <empty>)"""
        r = c.func.value
        if isinstance(r, ast.Subscript) and norm(r.value) == table:
            return r.slice
        if isinstance(r, ast.Call) and is_method_call(r, "setdefault") and norm(r.func.value) == table and r.args:
            return r.args[0]
        return None

    fills = [(n, c) for n in g.nodes.values() for c in calls_at(n) if is_method_call(c, "append", "appendleft") and _slot(c) is not None]
    if not fills:
        ck.fail("C08.renames", fn, fn.node, f"deletions are not filed into per-hash queues (`{table}[hash].append(deletion)`): with a plain mapping several deletions that share a hash overwrite each other and vanish from the diff",
                construct=f"{table} / per-hash queue")
    for n, c in fills:
        key = _slot(c)
        keyalts = [norm(z) for z in expand1(prog, fn, key, levels=2)]
        dv = norm(c.args[0]) if c.args else "?"
        ck.require(any(f"{dv}.old.hash_info" in k for k in keyalts), "C08.renames", fn, n, "deletions are filed under deletion.old.hash_info", f"deletion table key is {keyalts}, not the deleted entry's old hash")
        # every deletion is filed (the table is also the only source of the unmatched deletions yielded at the end)
        if n.loops:
            hd = g.nodes[n.loops[-1]]
            rr = g.reach([d for lab, d in hd.succ if lab == "T"], skip_node=lambda x, n=n: x.id == n.id, skip_edge=lambda a, l, b: l == "exc")
            ck.require(hd.id not in rr, "C08.renames", fn, n, "every deletion is filed into the table",
                       "a deletion can be left out of the per-hash table (e.g. entries without a hash are skipped): the table is also what the unmatched deletions are yielded from, so that key disappears from the diff",
                       witness=g.fmt_path(g.path_to(rr, hd.id)) if hd.id in rr else None, construct=f"{norm(c)[:50]} / every deletion filed")
        else:
            ck.fail("C08.renames", fn, n, "the deletion table is not filled in a loop over the deletions")



def _unknown(ck: Checker, fn: Func, g, descents) -> None:
    """A level is marked 'unknown' only because loading one of its two directories really failed: the flag
    queued with a level is `old failed or new failed`, each taken from the listing helper, and the helper
    sets it only in its load-error handler."""
    from ..an import avoiding_path, value_alts
    from ..prov import ITEM, is_marker

    prog = ck.prog
    gi = prog.func("index.diff", "_get_items")
    n_q = 0
    for d in descents:
        for c in calls_at(d):
            tup = c.args[0] if c.args else None
            if isinstance(tup, ast.Name):
                # `level = (old_items, new_items, flag); todo.append(level)`
                tups = [a_ for a_ in value_alts(ck.cfg(fn), d, tup, depth=2) if isinstance(a_, ast.Tuple)]
                tup = tups[0] if len(tups) == 1 else None
            if not (isinstance(tup, ast.Tuple) and len(tup.elts) >= 3):
                continue
            n_q += 1
            flag = tup.elts[2]
            ok, seen = False, []
            for alt in [flag] + expand1(prog, fn, flag, levels=3):
                seen.append(norm(alt)[:80])
                parts = alt.values if isinstance(alt, ast.BoolOp) and isinstance(alt.op, ast.Or) else [alt]
                sides = set()
                for p_ in parts:
                    if is_marker(p_, ITEM) and len(p_.args) == 2 and isinstance(p_.args[1], ast.Constant) and p_.args[1].value == 1 and isinstance(p_.args[0], ast.Call) and any(x.fq == gi.fq for x in ck.res.resolve(fn, p_.args[0])):
                        a0 = get_arg(p_.args[0], gi, gi.pos_params[0], pos=0)
                        sides.add(norm(a0) if a0 is not None else "?")
                    else:
                        sides.add("other:" + norm(p_)[:30])
                if sides == {"old", "new"}:
                    ok = True
            ck.require(ok, "C08.descent", fn, d, "the queued 'unknown' flag is (old listing failed) or (new listing failed)",
                       f"the 'unknown' flag queued with a directory level is {seen[:2]}, not the load-failure flags returned by the listing helper for the old and the new side: an empty or absent listing is mistaken for a failed load (or a failed load goes unnoticed) and the entries below are misclassified",
                       construct=f"{norm(c)[:60]} / unknown flag")
    ck.floor("C08.descent", n_q, 1, "queued (old items, new items, unknown) levels in the per-key loop")
    # the helper: second component is truthy only from the load-error handler
    gg = ck.cfg(gi)
    n_r = 0
    for r in gg.nodes.values():
        if not (r.kind == "stmt" and isinstance(r.ast, ast.Return) and isinstance(r.ast.value, ast.Tuple) and len(r.ast.value.elts) == 2):
            continue
        n_r += 1
        second = r.ast.value.elts[1]
        sites = [(r, second)]
        if isinstance(second, ast.Name):
            from ..an import reaching_defs

            sites = [(dn, getattr(dn.ast, "value", None)) for dn in reaching_defs(gg, r.id, second.id)]
        for node, v in sites:
            if v is None or (isinstance(v, ast.Constant) and not v.value):
                continue
            hs = {h.id for h in gg.nodes.values() if h.kind == "handler" and h.ast.type is not None and "DataIndexDirError" in norm(h.ast.type)}
            in_handler = bool(hs) and avoiding_path(gg, node.id, lambda x: x.id in hs) is None
            ck.require(in_handler and norm(v) == "with_unknown", "C08.descent", gi, node, "the listing helper reports 'unknown' only from its load-error handler (and only when asked to)",
                       f"the listing helper can report unknown={norm(v)} outside the DataIndexDirError handler", construct=f"{node.text()[:50]} / unknown source")
    if n_r == 0:
        ck.fail("C08.descent", gi, gi.node, "the listing helper no longer returns (items, unknown): a failed directory load is not reported as such to the traversal", construct="_get_items / (items, unknown)")
