"""C11 - A transfer's result tells the truth about what arrived."""
from __future__ import annotations

import ast
from typing import Set

from ..an import cut, is_method_call
from ..cfg import calls_at
from ..core import Checker
from ..effects import DESTRUCTIVE_METHODS, destructive_kind
from ..loader import Func, norm, parent, walk_expr, walk_own
from ..prov import attr_chain, call_name, expand, get_arg, refers_to_call, scope_of
from .C04 import _check_adder
from .transfer_common import check_oneshot, check_rest_attempted, build_model

STORE_MUTATORS = {"add", "delete", "clear", "protect", "unprotect", "set_exec", "move", "makedirs", "_remove_unpacked_dir", "set_many", "save", "save_many", "update"}
READ_ONLY_OK = {"get", "exists", "oid_to_path", "path_to_oid", "oids_exist", "list_oids_exists", "all", "check", "_oid_parts", "unstrip_protocol", "is_protected"}


def check(ck: Checker) -> None:
    prog, res = ck.prog, ck.res
    ck.decided = [
        "C11.result: transfer() returns (X - F, F) with F the move routine's result and X the very set it was asked to move, X being compare_status(...).new; early exits return two empty sets",
        "C11.nodrop: the failure set returned by every call of the adding helper flows into the cumulative failure set (no result is discarded)",
        "C11.onerror: every destination add has an on_error callback that records the failing oid on every path; only EMFILE is re-raised",
        "C11.absent-is-failed: a directory the routine decides not to send is recorded as failed (shared with C04.reported)",
        "C11.srcreadonly: in hashfile.transfer no store-mutating or filesystem-destructive call has the source (or cache_odb) as receiver",
        "C11.new: compare_status computes new = exists-in-source minus exists-in-destination from status() of the same request with the same options for both stores",
    ]
    ck.not_decided = [
        "byte-correctness of what arrived",
        "verification failures swallowed inside HashFileDB.add (whether on_error fired is run-time)",
        "self-healing deletion of a corrupt unprotected source object by LocalHashFileDB.oids_exist during status (C07 behaviour; it conflicts with 'source never modified' only for corrupt sources)",
    ]
    ck.trusted = ["ObjectDB.add reports every failed oid through on_error"]
    m = build_model(ck)
    pub, move, g = m.public, m.move, m.g

    # --------------------------------------------------------------- result
    gp = ck.cfg(pub)
    rets = [r for r in walk_own(pub.node) if isinstance(r, ast.Return)]
    move_calls = [c for c, cs in res.calls_in(pub) if any(x.fq == move.fq for x in cs)]
    n_main = 0
    for r in rets:
        v = r.value
        if not (isinstance(v, ast.Call) and call_name(v) == "TransferResult"):
            ck.fail("C11.result", pub, r, "transfer() returns something that is not a TransferResult")
            continue
        args = list(v.args) + [k.value for k in v.keywords]
        if len(args) == 2 and all(isinstance(a, ast.Call) and call_name(a) == "set" and not a.args for a in args):
            ck.ok("C11.result", pub, r, "early exit returns two empty sets")
            continue
        n_main += 1
        a_tr = next((k.value for k in v.keywords if k.arg == "transferred"), v.args[0] if v.args else None)
        a_fl = next((k.value for k in v.keywords if k.arg == "failed"), v.args[1] if len(v.args) > 1 else None)
        ok = False
        why = "?"
        if a_tr is not None and a_fl is not None and move_calls:
            f_is_move = refers_to_call(pub, a_fl, move_calls)
            # `transferred` may be a local: every value it can hold at the return is either an empty set
            # (nothing-to-do arm) or `X - failed`
            from ..an import value_alts

            rn = next((n_ for n_ in gp.nodes.values() if n_.ast is r), None)
            tr_alts = [a for a in (value_alts(gp, rn, a_tr, depth=2) if rn is not None else [a_tr]) if not isinstance(a, ast.Name)]
            empties = [a for a in tr_alts if isinstance(a, ast.Call) and call_name(a) == "set" and not a.args]
            subs = [a for a in tr_alts if a not in empties]
            if len(subs) == 1 and all(True for _ in empties):
                a_tr = subs[0]
            tr_ok = isinstance(a_tr, ast.BinOp) and isinstance(a_tr.op, ast.Sub) and norm(a_tr.right) == norm(a_fl)
            moved = get_arg(move_calls[0], move, "obj_ids", pos=2)
            x_ok = tr_ok and moved is not None and norm(a_tr.left) == norm(moved)
            new_ok = False
            if x_ok:
                for alt in expand(prog, pub, a_tr.left):
                    if isinstance(alt, ast.Attribute) and alt.attr == "new" and isinstance(alt.value, ast.Call) and call_name(alt.value) == "compare_status":
                        new_ok = True
            ok = f_is_move and tr_ok and x_ok and new_ok
            why = f"failed-is-move-result={f_is_move} transferred-is-X-minus-failed={tr_ok} X-is-the-moved-set={x_ok} X-is-compare_status.new={new_ok}"
        ck.require(ok, "C11.result", pub, r,
                   "result is (new - failed, failed) over the very set handed to the move routine",
                   f"result does not partition the moved set truthfully: {why}")
    ck.floor("C11.result", n_main, 1, "non-trivial return sites of transfer()")
    # early exits only when nothing is new / same store
    # the move routine is reached only with status.new as work list (checked above) ...

    # --------------------------------------------------------------- nodrop
    all_adds = m.files_add + m.dir_add + m.trailing_add
    ck.floor("C11.nodrop", len(all_adds), 3, "calls of the adding helper in the move routine")
    for x, c in all_adds:
        p = parent(c)
        if isinstance(p, ast.Expr):
            ck.fail("C11.nodrop", move, x, "the failure set returned by the adding helper is discarded; failed uploads would be reported as transferred")
            continue
        # direct argument of failed.update(...)
        if isinstance(p, ast.Call) and is_method_call(p, "update") and norm(p.func.value) == m.failed:
            ck.ok("C11.nodrop", move, x, "result flows directly into the cumulative failure set")
            continue
        # failed |= _add(...)   /   failed = failed | _add(...)
        if isinstance(p, ast.AugAssign) and isinstance(p.op, ast.BitOr) and norm(p.target) == m.failed and p.value is c:
            ck.ok("C11.nodrop", move, x, "result is or-ed into the cumulative failure set")
            continue
        if isinstance(p, ast.BinOp) and isinstance(p.op, ast.BitOr) and m.failed in (norm(p.left), norm(p.right)) and isinstance(parent(p), ast.Assign) and [norm(t) for t in parent(p).targets] == [m.failed]:
            ck.ok("C11.nodrop", move, x, "result is or-ed into the cumulative failure set")
            continue
        # used as / assigned to a tested value: on the 'has failures' edge the failures are recorded
        tests = [t for t in g.nodes.values() if t.kind == "test" and refers_to_call(move, t.ast, [c])]
        if not tests:
            ck.fail("C11.nodrop", move, x, "the failure set returned by the adding helper is neither merged into the cumulative failure set nor tested")
            continue
        for t in tests:
            recs = set()
            for y in g.nodes.values():
                for c2 in calls_at(y):
                    if is_method_call(c2, "update", "add") and norm(c2.func.value) == m.failed:
                        recs.add(y.id)
            starts = [d for lab, d in t.succ if lab == "T"]
            stops = {g.exit}
            if t.loops:
                stops.add(t.loops[-1])
            reached = g.reach(starts, skip_node=lambda n: n.id in recs, skip_edge=lambda a, l, b: l == "exc")
            bad = [s for s in stops if s in reached]
            ck.require(not bad, "C11.nodrop", move, x,
                       "when the helper reports failures they are recorded in the cumulative failure set",
                       "the helper's failures can be dropped: the 'has failures' edge does not always reach an update of the cumulative failure set",
                       witness=g.fmt_path(g.path_to(reached, bad[0])) if bad else None,
                       construct=f"{norm(c)} / T-edge records")
            # if assigned to a name: the recorded value includes that name
            if isinstance(t.ast, ast.Name):
                upd = [c2 for y in g.nodes.values() for c2 in calls_at(y) if is_method_call(c2, "update") and norm(c2.func.value) == m.failed and c2.args and norm(c2.args[0]) == t.ast.id]
                ck.require(bool(upd), "C11.nodrop", move, x,
                           f"`{m.failed}.update({t.ast.id})` merges the reported failures",
                           f"the failures held in `{t.ast.id}` are never merged into `{m.failed}`",
                           construct=f"{norm(c)} / merged")

    _verify_reported(ck, "C11.onerror")
    check_rest_attempted(ck, m, "C11.nodrop")
    from .C12 import check_index_read_after_validation

    check_index_read_after_validation(ck, "C11.new")
    check_oneshot(ck, "C11.nodrop", [f for f in move.module.funcs.values()])

    # -------------------------------------------------------------- onerror
    _check_adder(ck, m, "C11.onerror")
    lg = prog.func_opt("hashfile.transfer", "_log_exception")
    if lg is not None:
        gl = ck.cfg(lg)
        raises = [n for n in gl.nodes.values() if n.kind == "stmt" and isinstance(n.ast, ast.Raise)]

        def emfile(t, lab):
            return t.kind == "test" and lab == "T" and "EMFILE" in norm(t.ast)

        for r in raises:
            wit = cut(gl, [r.id], emfile)
            ck.require(wit is None, "C11.onerror", lg, r,
                       "the error logger re-raises only EMFILE",
                       "the error logger can re-raise other errors, aborting the transfer without recording the failure",
                       witness=gl.fmt_path(wit) if wit else None)

    # ------------------------------------------------------ absent => failed
    from .C04 import reported_rule

    reported_rule(ck, m, "C11.absent-is-failed")

    # ---------------------------------------------------------- srcreadonly
    n_src = 0
    for fn in pub.module.funcs.values():
        protected = [p for p in ("src", "cache_odb") if fn.has_param(p) or (fn.parent is not None and fn.parent.has_param(p))]
        if not protected:
            continue
        for c, _cs in res.calls_in(fn):
            if not isinstance(c.func, ast.Attribute):
                continue
            ch = attr_chain(c.func)
            if not ch or ch[0] not in protected:
                continue
            n_src += 1
            meth = ch[-1]
            bad_m = meth in STORE_MUTATORS or meth in DESTRUCTIVE_METHODS
            if len(ch) == 2 and meth in ("get", "hash_name"):
                bad_m = False
            ck.require(not bad_m, "C11.srcreadonly", fn, c,
                       f"{'.'.join(ch)} is a read-only use of the source",
                       f"{'.'.join(ch)}(...) mutates the source store (or its filesystem) during a transfer")
        # source must not be passed where the destination is expected
        for c, cs in res.calls_in(fn):
            for cal in cs:
                if cal.fq == m.adder.fq:
                    d = get_arg(c, cal, "dest", pos=1)
                    ck.require(d is not None and norm(d) == "dest", "C11.srcreadonly", fn, c,
                               "objects are added to `dest`", f"adding helper is asked to add into `{norm(d) if d is not None else '?'}` instead of the destination",
                               construct=f"{norm(c)} / dest role")
    ck.floor("C11.srcreadonly", n_src, 2, "method calls on the source store in hashfile.transfer")

    # ------------------------------------------------------------------ new
    _check_compare_status(ck)
    from .generic_lints import run_all as _lints

    _lints(ck, "C11.aliasing", "hashfile.transfer")
    from .transfer_common import check_claimed_attempted

    check_claimed_attempted(ck, m, "C11.absent-is-failed")
    from .transfer_common import check_missing_readonly

    check_missing_readonly(ck, m, "C11.absent-is-failed")
    from . import round7 as _r7

    _r7.on_error_names_oid(ck, "C11.onerror")
    from . import round4 as _r4

    _r4.index_memo_reset(ck, "C11.new")



def _check_compare_status(ck: Checker) -> None:
    prog, res = ck.prog, ck.res
    cs = prog.func("hashfile.status", "compare_status")
    st = prog.func("hashfile.status", "status")
    calls = [c for c, cals in res.calls_in(cs) if any(x.fq == st.fq for x in cals)]
    ck.floor("C11.new", len(calls), 2, "status() calls in compare_status")
    # both status calls receive the same request and forward the same options
    sig = []
    for c in calls:
        odb = get_arg(c, st, "odb", pos=0)
        ids = get_arg(c, st, "obj_ids", pos=1)
        fwd = any(k.arg is None for k in c.keywords)  # **kwargs
        named = {k.arg: norm(k.value) for k in c.keywords if k.arg not in (None, "index", "cache_odb")}
        sig.append((norm(odb) if odb is not None else None, norm(ids) if ids is not None else None, fwd, named))
    same_req = len({s[1] for s in sig}) == 1
    same_opts = len({(s[2], tuple(sorted(s[3].items()))) for s in sig}) == 1
    ck.require(same_req, "C11.new", cs, calls[0], "source and destination are queried for the same request", f"the two status() calls receive different requests: {[s[1] for s in sig]}", construct="status(...) x2 / same request")
    ck.require(same_opts, "C11.new", cs, calls[0],
               "both status() calls forward the same options (shallow, jobs, ...)",
               f"the two status() calls receive different options ({[(s[2], s[3]) for s in sig]}); e.g. expanding directories on one side only reports already-present files as new",
               construct="status(...) x2 / same options")
    roles = {s[0] for s in sig}
    ck.require(roles == {"src", "dest"}, "C11.new", cs, calls[0], "one query per store (src, dest)", f"status() is not called once for src and once for dest: {sorted(map(str, roles))}", construct="status(...) x2 / roles")



def _verify_reported(ck: Checker, rule: str) -> None:
    """HashFileDB.add with verify on: an object that the post-copy check rejects (and deletes) did not
    arrive - the caller must hear about it through on_error, exactly like a failed copy."""
    prog = ck.prog
    add = prog.func("hashfile.db", "HashFileDB.add")
    g = ck.cfg(add)
    sup = [n for n in g.nodes.values() for c in calls_at(n) if is_method_call(c, "add") and isinstance(c.func.value, ast.Call) and call_name(c.func.value) == "super"]
    ck.floor(rule, len(sup), 1, "super().add(...) in HashFileDB.add")
    after = g.reach([d for lab, d in sup[0].succ if lab != "exc"], include_start=True)
    checks = [n for n in g.nodes.values() if n.id in after for c in calls_at(n) if is_method_call(c, "check") and norm(c.func.value) == "self"]
    ck.floor(rule, len(checks), 1, "post-copy integrity checks in HashFileDB.add")
    from ..an import value_alts as _va, with_flags as _wf

    def _is_report(n, c) -> bool:
        # on_error(...) itself, or a local that stands for it (`cb = None if already_failed else on_error`)
        return isinstance(c.func, ast.Name) and (c.func.id == "on_error" or (not add.has_param(c.func.id) and any(isinstance(a_, ast.Name) and a_.id == "on_error" for a_ in _va(g, n, c.func, depth=3))))

    reports = {n.id for n in g.nodes.values() for c in calls_at(n) if _is_report(n, c)}
    # sets of oids that were *already reported* through on_error: filled by a local wrapper that always forwards
    already = set()
    for child in add.children.values():
        gc_ = ck.cfg(child)
        fw = {x.id for x in gc_.nodes.values() for c2 in calls_at(x) if isinstance(c2.func, ast.Name) and c2.func.id == "on_error"}
        if not fw or gc_.exit in gc_.reach([gc_.entry], skip_node=lambda x: x.id in fw, skip_edge=lambda a, l, b: l == "exc"):
            continue
        for x in walk_own(child.node):
            if isinstance(x, ast.Call) and is_method_call(x, "add") and x.args and isinstance(x.args[0], ast.Name) and child.has_param(x.args[0].id) and isinstance(x.func.value, ast.Name):
                already.add(x.func.value.id)
    for n in checks:
        hs = [g.nodes[d] for lab, d in n.succ if lab == "exc" and g.nodes[d].kind == "handler"]
        fmt = [h for h in hs if h.ast.type is None or any(t in norm(h.ast.type) for t in ("ObjectFormatError", "Exception", "BaseException"))]
        # nested try: the inner handler may take FileNotFoundError only and let the rest through to an outer one
        seen_h = {h.id for h in hs}
        for h in list(hs):
            for lab, d in h.succ:
                pass
        outer = [x for x in g.nodes.values() if x.kind == "handler" and x.id not in seen_h and n.loops and n.loops[-1] in x.loops and (x.ast.type is None or any(t in norm(x.ast.type) for t in ("ObjectFormatError", "Exception", "BaseException")))]
        if not fmt and outer:
            fmt = outer
        if not fmt:
            ck.ok(rule, add, n, "a failed post-copy check propagates to the caller")
            continue
        for h in fmt:
            def skip(a, lab, b):
                if lab == "exc":
                    return True
                if a.kind != "test":
                    return False
                t = norm(a.ast)
                if t.startswith("isinstance(") and "FileNotFoundError" in t and "ObjectFormatError" not in t and lab == "T":
                    return True  # the object is simply not there (its copy failed and was reported by the copy itself)
                e_ = a.ast
                if isinstance(e_, ast.Compare) and len(e_.ops) == 1 and isinstance(e_.ops[0], (ast.In, ast.NotIn)) and norm(e_.comparators[0]) in already:
                    # the copy of this very object had failed and was reported then
                    return (isinstance(e_.ops[0], ast.In) and lab == "T") or (isinstance(e_.ops[0], ast.NotIn) and lab == "F")
                return (t == "on_error is not None" and lab == "F") or (t == "on_error is None" and lab == "T") or (t == "on_error" and lab == "F")

            stops = set(n.loops[-1:]) | {g.exit}
            lifted = _wf(g, lambda a, lab: skip(a, lab, None), start=n.loops[-1] if n.loops else None)
            r = g.reach([h.id], skip_node=lambda x: x.id in reports, skip_edge=lambda a, lab, b: skip(a, lab, b) or lifted(a, lab))
            bad = [s_ for s_ in stops if s_ in r]
            ck.require(not bad, rule, add, h,
                       "an object rejected by the post-copy verification is reported through on_error",
                       "an object rejected (and deleted) by the post-copy verification is silently dropped: the caller reports it as transferred and still sends the directory object that lists it",
                       witness=g.fmt_path(g.path_to(r, bad[0])) if bad else None, construct=f"{h.text()[:60]} / reports")
