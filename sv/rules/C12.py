"""C12 - Status is exact and the remote index never invents objects."""
from __future__ import annotations

import ast
import itertools
from typing import Callable, Dict, List, Optional, Set

from ..an import cut, is_method_call
from ..cfg import calls_at
from ..core import Checker
from ..loader import AnalysisError, Func, norm, walk_expr, walk_own
from ..prov import expand1, ELEM, call_name, expand, get_arg, is_accumulator, is_marker, scope_of
from .transfer_common import build_model
from .generic_lints import run_all as _lints


class Unsupported(Exception):
    pass


def _clean_copy(e):
    from ..inline import clean_copy

    return clean_copy(e)


def _resolve_set_expr(g, ret_stmt, e: ast.expr, depth: int = 3) -> ast.expr:
    """Replace single-definition local names inside a set-algebra expression by their values, so that
    `in_both = src_exists & dest_exists; ...; CompareStatusResult(ok=in_both, ...)` is read through."""
    from ..an import reaching_defs

    atoms = {"src_exists", "dest_exists", "src_missing", "dest_missing"}
    rn = next((n for n in g.nodes.values() if n.ast is ret_stmt), None)
    if rn is None or depth <= 0:
        return e

    class T(ast.NodeTransformer):
        def visit_Name(self, node):
            if node.id in atoms or not isinstance(node.ctx, ast.Load):
                return node
            ds = reaching_defs(g, rn.id, node.id)
            if len(ds) == 1 and ds[0].kind == "stmt" and isinstance(ds[0].ast, ast.Assign) and len(ds[0].ast.targets) == 1 and isinstance(ds[0].ast.targets[0], ast.Name):
                return _resolve_set_expr(g, ret_stmt, _clean_copy(ds[0].ast.value), depth - 1)
            return node

    return T().visit(_clean_copy(e))


def eval_set(e: ast.expr, env: Dict[str, bool]) -> bool:
    """Membership of a generic element in the set expression e, given membership in the atoms."""
    if isinstance(e, ast.Name):
        if e.id in env:
            return env[e.id]
        raise Unsupported(e.id)
    if isinstance(e, ast.BinOp):
        a, b = eval_set(e.left, env), eval_set(e.right, env)
        if isinstance(e.op, ast.BitAnd):
            return a and b
        if isinstance(e.op, ast.BitOr):
            return a or b
        if isinstance(e.op, ast.Sub):
            return a and not b
        if isinstance(e.op, ast.BitXor):
            return a != b
        raise Unsupported(norm(e))
    if isinstance(e, ast.Call) and isinstance(e.func, ast.Attribute) and len(e.args) == 1:
        a, b = eval_set(e.func.value, env), eval_set(e.args[0], env)
        m = e.func.attr
        if m == "intersection":
            return a and b
        if m == "union":
            return a or b
        if m == "difference":
            return a and not b
        if m == "symmetric_difference":
            return a != b
        raise Unsupported(norm(e))
    if isinstance(e, ast.Call) and call_name(e) in ("set", "frozenset"):
        if not e.args:
            return False
        return eval_set(e.args[0], env)
    if isinstance(e, ast.IfExp):
        raise Unsupported("conditional component: " + norm(e))
    raise Unsupported(norm(e))


def check(ck: Checker) -> None:
    _lints(ck, "C12.aliasing", "hashfile.status")
    prog, res = ck.prog, ck.res
    ck.decided = [
        "C12.partition: compare_status's four components are, as set algebra over the two status() answers, ok=s&d, missing=~s&~d, new=s&~d, deleted=~s&d (field order read from CompareStatusResult); the 'skip the source query' shortcut is taken only when nothing is missing in dest AND deleted was not requested",
        "C12.status: status() maps exists and (remaining - exists) through the same hash_infos table",
        "C12.fromstore: every element of the 'directory exists' set in _indexed_dir_hashes derives from a store query made in this call; all indexed directories are re-validated; the index is cleared exactly when one vanished",
        "C12.indexwrite: the index is written only for store-confirmed directories with their own listing (status) and only after a fully successful transfer (transfer); ObjectDBIndex.update/dir_hashes agree on the is-dir flag",
        "C12.routing: each store is queried with its own index (src<->src_index, dest<->dest_index) through transfer -> compare_status -> status",
    ]
    ck.not_decided = ["agreement of oids_exist with the store's real contents (dvc_objects traverse heuristics)", "coherence of the index over whole histories (needs execution)"]
    ck.trusted = ["ObjectDB.list_oids_exists / oids_exist answer from the store", "diskcache Index semantics"]
    _partition(ck)
    _status(ck)
    _fromstore(ck)
    check_index_read_after_validation(ck, "C12.fromstore")
    _indexwrite(ck)
    _routing(ck)
    from . import round4 as _r4

    _r4.index_memo_reset(ck, "C12.indexwrite")
    _r4.status_exists_provenance(ck, "C12.status")
    from . import round7 as _r7

    _r7.exists_missing_only_by_check(ck, "C12.status")
    from . import round11 as _r11

    _r11.queried_dirs_registered_for_validation(ck, "C12.fromstore")
    _r11.removed_hashes_stay_in_exists(ck, "C12.status")



def _partition(ck: Checker) -> None:
    prog = ck.prog
    fn = prog.func("hashfile.status", "compare_status")
    g = ck.cfg(fn)
    cls = prog.cls("hashfile.status", "CompareStatusResult")
    fields = [s.target.id for s in cls.node.body if isinstance(s, ast.AnnAssign) and isinstance(s.target, ast.Name)]
    expected = {
        "ok": lambda s, d: s and d,
        "missing": lambda s, d: (not s) and (not d),
        "new": lambda s, d: s and not d,
        "deleted": lambda s, d: (not s) and d,
    }
    ck.require(set(fields) == set(expected), "C12.partition", fn, cls.node, f"result fields are {fields}", f"CompareStatusResult fields changed: {fields}", construct="class CompareStatusResult")
    # the shortcut that leaves `deleted` empty is opt-in: by default the full partition is computed
    flagp = next((p_ for p_ in fn.params if "deleted" in p_), None)
    if flagp is not None:
        dflt = fn.param_default(flagp)
        ck.require(isinstance(dflt, ast.Constant) and dflt.value is True, "C12.partition", fn, fn.node,
                   f"`{flagp}` defaults to True: a plain compare_status() call computes all four components",
                   f"`{flagp}` defaults to {norm(dflt) if dflt is not None else 'nothing'}: a plain compare_status(src, dest, ids) call skips the source query and reports dest-only objects as ok instead of deleted",
                   construct=f"def compare_status(... {flagp}=...)")
    rets = [r for r in walk_own(fn.node) if isinstance(r, ast.Return) and isinstance(r.value, ast.Call) and call_name(r.value) == "CompareStatusResult"]
    ck.floor("C12.partition", len(rets), 1, "CompareStatusResult(...) return sites")
    for r in rets:
        # a return that can only be reached when nothing is missing in dest AND deleted was not requested is the
        # shortcut itself: every queried object is in dest, and the source is taken to have it too
        rn = next((x for x in g.nodes.values() if x.ast is r), None)
        combos = list(itertools.product([False, True], repeat=2))
        if rn is not None and all(cut(g, [rn.id], lambda t, lab, nm=nm: t.kind == "test" and isinstance(t.ast, ast.Name) and t.ast.id == nm and lab == "F") is None for nm in ("dest_missing", "check_deleted")):
            combos = [(True, True)]
        comp = {}
        for i, a in enumerate(r.value.args):
            if i < len(fields):
                comp[fields[i]] = a
        for k in r.value.keywords:
            comp[k.arg] = k.value
        for name, want in expected.items():
            e = comp.get(name)
            if e is None:
                ck.fail("C12.partition", fn, r, f"component `{name}` is not supplied")
                continue
            ok, why = True, ""
            e = _resolve_set_expr(g, r, e)
            try:
                for s, d in combos:
                    env = {"src_exists": s, "dest_exists": d, "src_missing": not s, "dest_missing": not d}
                    got = eval_set(e, env)
                    if got != want(s, d):
                        ok = False
                        why = f"for an object with in-source={s}, in-dest={d} membership is {got}, expected {want(s, d)}"
                        break
            except Unsupported as exc:
                ok, why = False, f"not a plain set-algebra expression over the two status answers ({exc})"
            ck.require(ok, "C12.partition", fn, r, f"`{name}` = {norm(e)} matches its definition", f"component `{name}` = {norm(e)} is wrong: {why}", construct=f"CompareStatusResult.{name} = {norm(e)}")
    # status answers feed the four names
    st = prog.func("hashfile.status", "status")
    for nm in ("dest_exists", "src_exists"):
        defs = scope_of(fn).get(nm)
        ok = any(d.value is not None and any(isinstance(x, ast.Call) and call_name(x) == "status" for v_ in [d.value] + expand1(prog, fn, d.value, levels=2) for x in walk_expr(v_)) for d in defs)
        ck.require(ok, "C12.partition", fn, fn.node, f"{nm} comes from status()", f"{nm} is not the answer of status()", construct=f"{nm} provenance")
    # shortcut: src := dest only when nothing is missing in dest and deleted not requested
    shortcut = [n for n in g.nodes.values() if n.kind == "stmt" and isinstance(n.ast, ast.Assign) and norm(n.ast.targets[0]) == "src_exists"
                and not any(isinstance(x, ast.Call) and call_name(x) == "status" and x.args and norm(x.args[0]) == "src" for v_ in [n.ast.value] + expand1(prog, fn, n.ast.value, levels=2) for x in walk_expr(v_))]
    for n in shortcut:
        for nm in ("dest_missing", "check_deleted"):
            def lit(t, lab, nm=nm):
                return t.kind == "test" and isinstance(t.ast, ast.Name) and t.ast.id == nm and lab == "F"

            wit = cut(g, [n.id], lit)
            if wit is not None:
                # `src_exists = dest_exists` as a default that the source query overrides: what matters is
                # whether this value can still be current at the return without crossing "not <nm>"
                from ..an import node_defines, with_flags

                lifted = with_flags(g, lit)
                onward = g.reach([n.id], skip_node=lambda x, n=n: x.id != n.id and node_defines(x, "src_exists"), skip_edge=lambda a, lab, b: lab == "exc" or lifted(a, lab))
                if not any(x.kind == "stmt" and isinstance(x.ast, ast.Return) and x.id in onward for x in g.nodes.values()):
                    wit = None
            ck.require(wit is None, "C12.partition", fn, n,
                       f"source query is skipped only when `{nm}` is false/empty",
                       f"the source store query can be skipped although `{nm}` is set: objects absent from the source are then reported as ok instead of deleted/missing",
                       witness=g.fmt_path(wit) if wit else None, construct=f"{n.text()} / needs not {nm}")


def _status(ck: Checker) -> None:
    prog = ck.prog
    fn = prog.func("hashfile.status", "status")
    rets = [r for r in walk_own(fn.node) if isinstance(r, ast.Return) and isinstance(r.value, ast.Call) and call_name(r.value) == "StatusResult"]
    ck.floor("C12.status", len(rets), 1, "StatusResult return sites")
    main = 0
    for r in rets:
        a = list(r.value.args)
        if len(a) != 2:
            continue
        if all(isinstance(x, (ast.SetComp, ast.GeneratorExp)) for x in a):
            main += 1
            it0, it1 = a[0].generators[0].iter, a[1].generators[0].iter
            tab0 = norm(a[0].elt.value) if isinstance(a[0].elt, ast.Subscript) else None
            tab1 = norm(a[1].elt.value) if isinstance(a[1].elt, ast.Subscript) else None
            ex = norm(it0)
            if isinstance(it1, ast.Name):
                # `missing = remaining - exists` hoisted into a local just before the return
                ds_ = [d_ for d_ in scope_of(fn).get(it1.id) if d_.kind in ("assign", "annassign")]
                if len(ds_) == 1 and ds_[0].value is not None:
                    it1 = ds_[0].value
            ok1 = (isinstance(it1, ast.BinOp) and isinstance(it1.op, ast.Sub) and norm(it1.right) == ex) or (
                isinstance(it1, ast.Call) and is_method_call(it1, "difference") and norm(it1.args[0]) == ex)
            ck.require(ok1 and tab0 == tab1 and tab0 is not None and not a[0].generators[0].ifs and not a[1].generators[0].ifs, "C12.status", fn, r,
                       "exists / missing are images of `exists` and `remaining - exists` under one table",
                       f"status() result is not (image(exists), image(remaining - exists)) over one table: {norm(r.value)}")
    ck.floor("C12.status", main, 1, "main StatusResult return")


def store_derived(ck: Checker, fn: Func, e: ast.expr, depth: int = 0, why: Optional[List[str]] = None) -> bool:
    """Does every element of set-valued e come from a store query made in this function?"""
    if why is None:
        why = []
    if depth > 8:
        return False
    if isinstance(e, ast.Call):
        cn = call_name(e)
        if cn in ("list_oids_exists", "oids_exist") and isinstance(e.func, ast.Attribute):
            return True
        if cn in ("QueryingProgress", "set", "list", "frozenset", "tuple", "sorted", "iter") and e.args:
            return store_derived(ck, fn, e.args[0], depth + 1, why)
        if isinstance(e.func, ast.Attribute) and e.args:
            m = e.func.attr
            if m == "intersection":
                return store_derived(ck, fn, e.func.value, depth + 1, why) or store_derived(ck, fn, e.args[0], depth + 1, why)
            if m == "difference":
                return store_derived(ck, fn, e.func.value, depth + 1, why)
            if m == "union":
                return store_derived(ck, fn, e.func.value, depth + 1, why) and store_derived(ck, fn, e.args[0], depth + 1, why)
        if cn in ("set", "frozenset") and not e.args:
            return True  # empty
        why.append(norm(e))
        return False
    if isinstance(e, ast.BinOp):
        if isinstance(e.op, ast.BitAnd):
            return store_derived(ck, fn, e.left, depth + 1, why) or store_derived(ck, fn, e.right, depth + 1, why)
        if isinstance(e.op, ast.Sub):
            return store_derived(ck, fn, e.left, depth + 1, why)
        if isinstance(e.op, ast.BitOr):
            return store_derived(ck, fn, e.left, depth + 1, why) and store_derived(ck, fn, e.right, depth + 1, why)
    if isinstance(e, ast.Name):
        defs = [d for d in scope_of(fn).get(e.id) if d.kind in ("assign", "aug")]
        if not defs:
            why.append(e.id)
            return False
        for d in defs:
            if d.value is None or not store_derived(ck, fn, d.value, depth + 1, why):
                return False
        # in-place growth
        for n in walk_own(fn.node):
            if isinstance(n, ast.Call) and is_method_call(n, "update", "add", "extend", "append") and norm(n.func.value) == e.id:
                if not n.args or not store_derived(ck, fn, n.args[0], depth + 1, why):
                    return False
        return True
    if isinstance(e, (ast.Set, ast.List, ast.Tuple)) and not e.elts:
        return True
    why.append(norm(e))
    return False


def _fromstore(ck: Checker) -> None:
    prog = ck.prog
    fn = prog.func("hashfile.status", "_indexed_dir_hashes")
    g = ck.cfg(fn)
    # the loop that yields "exists" answers
    loops = [h for h in g.nodes.values() if h.kind == "for" and isinstance(h.ast.iter, ast.Name) and any(
        isinstance(x, (ast.Yield, ast.YieldFrom)) for b in g.nodes.values() if h.id in b.loops and b.ast is not None for x in walk_expr(b.ast))]
    ck.floor("C12.fromstore", len(loops), 1, "yielding loops in _indexed_dir_hashes")
    for h in loops:
        why: List[str] = []
        ok = store_derived(ck, fn, h.ast.iter, why=why)
        ck.require(ok, "C12.fromstore", fn, h,
                   f"every directory reported as existing ({norm(h.ast.iter)}) derives from odb.list_oids_exists(...) of this call",
                   f"`{norm(h.ast.iter)}` can contain directory hashes that were not confirmed by a store query in this call (taken from the index alone: {', '.join(why) or '?'})")
    # validation covers all indexed directories
    queries = [(n, c) for n in g.nodes.values() for c in calls_at(n) if is_method_call(c, "list_oids_exists", "oids_exist")]
    ck.floor("C12.fromstore", len(queries), 2, "store queries in _indexed_dir_hashes")
    validated = False
    for n, c in queries:
        if c.args:
            for alt in expand(prog, fn, c.args[0]):
                t = norm(alt)
                if t in ("set(index.dir_hashes())", "index.dir_hashes()", "list(index.dir_hashes())", "frozenset(index.dir_hashes())"):
                    validated = True
    ck.require(validated, "C12.fromstore", fn, queries[0][0],
               "all indexed directory hashes are re-validated against the store",
               "the index validation does not query the store for ALL indexed directories (a stale entry for an unrelated directory keeps vouching for its files)",
               construct="odb.list_oids_exists(<all indexed dirs>)")
    clears = [n for n in g.nodes.values() for c in calls_at(n) if is_method_call(c, "clear") and norm(c.func.value) == "index"]
    ck.floor("C12.fromstore", len(clears), 1, "index.clear() sites")
    for n in clears:
        # guarded by "some indexed dir is missing", where missing = indexed - store answer
        tests = [t for t in g.nodes.values() if t.kind == "test"]
        def lit(t, lab):
            if t.kind != "test" or lab != "T":
                return False
            for alt in [t.ast] + expand(prog, fn, t.ast):
                if isinstance(alt, ast.Call) and is_method_call(alt, "difference") or isinstance(alt, ast.BinOp) and isinstance(alt.op, ast.Sub):
                    right = alt.args[0] if isinstance(alt, ast.Call) else alt.right
                    if store_derived(ck, fn, right):
                        return True
            return False

        wit = cut(g, [n.id], lit)
        ck.require(wit is None, "C12.fromstore", fn, n, "index is cleared only when an indexed directory is missing from the store",
                   "index.clear() is not tied to 'an indexed directory vanished from the store'", witness=g.fmt_path(wit) if wit else None)
        for t in g.nodes.values():
            if lit(t, "T"):
                r = g.reach([d for lab, d in t.succ if lab == "T"], skip_node=lambda x: x.id == n.id, skip_edge=lambda a, l, b: l == "exc")
                escaped = any(g.nodes[x].kind == "for" or x == g.exit for x in r if x != n.id and not g.nodes[x].loops and g.nodes[x].kind in ("for", "exit"))
                ck.require(not escaped, "C12.fromstore", fn, t, "a vanished indexed directory always clears the index", "a vanished indexed directory does not always clear the index", construct=f"{t.text()} / must clear")


def _indexwrite(ck: Checker) -> None:
    prog = ck.prog
    fn = prog.func("hashfile.status", "_indexed_dir_hashes")
    g = ck.cfg(fn)
    ups = [(n, c) for n in g.nodes.values() for c in calls_at(n) if is_method_call(c, "update") and norm(c.func.value) == "index"]
    ck.floor("C12.indexwrite", len(ups), 1, "index.update sites in status.py")
    for n, c in ups:
        ok = False
        why = ""
        if n.loops and len(c.args) == 2:
            h = g.nodes[n.loops[-1]]
            lv = norm(h.ast.target)
            a0 = norm(c.args[0])
            files = c.args[1]
            lists = expand(prog, fn, files)
            tree_ok = False
            if isinstance(files, ast.Name):
                from ..an import collection_builds

                for b in collection_builds(g, fn.node, files.id):
                    if b.unconditional and norm(b.elt).endswith(".value"):
                        for t in expand1(prog, fn, b.src):
                            tt = norm(t)
                            if lv in tt and ("dir_objs.get(" in tt or "Tree.load(" in tt):
                                tree_ok = True
            for alt in lists:
                if isinstance(alt, (ast.ListComp, ast.SetComp, ast.GeneratorExp)) and not alt.generators[0].ifs and norm(alt.elt).endswith(".value"):
                    for t in expand1(prog, fn, alt.generators[0].iter):
                        tt = norm(t)
                        if lv in tt and ("dir_objs.get(" in tt or "Tree.load(" in tt):
                            tree_ok = True
            ok = a0 == f"[{lv}]" and tree_ok and store_derived(ck, fn, h.ast.iter)
            why = f"dir arg {a0}, loop over {norm(h.ast.iter)}, listing-of-same-dir={tree_ok}"
        ck.require(ok, "C12.indexwrite", fn, n, "index learns a directory only if the store confirmed it, together with that directory's own listing",
                   f"index.update pairs are not (store-confirmed dir, its own listing): {why}")
    # ObjectDBIndex.update / dir_hashes flag agreement
    icls = prog.cls("hashfile.db.index", "ObjectDBIndex")
    up = icls.methods.get("update")
    dh = icls.methods.get("dir_hashes")
    if up is None or dh is None:
        raise AnalysisError("ObjectDBIndex.update/dir_hashes vanished")
    flags = {}
    for n in walk_own(up.node):
        if isinstance(n, (ast.For,)) and isinstance(n.iter, ast.Name):
            for s in ast.walk(n):
                if isinstance(s, ast.Assign) and isinstance(s.targets[0], ast.Subscript) and isinstance(s.value, ast.Constant):
                    flags[n.iter.id] = s.value.value
    ck.require(flags.get("dir_hashes") is True and flags.get("file_hashes") is False, "C12.indexwrite", up, up.node,
               "update() stores True for directory hashes and False for file hashes", f"update() flag table is {flags}", construct="ObjectDBIndex.update flags")
    okf = False
    for x in walk_own(dh.node):
        if isinstance(x, (ast.GeneratorExp, ast.ListComp)) and len(x.generators) == 1:
            gen = x.generators[0]
            if isinstance(gen.iter, ast.Call) and is_method_call(gen.iter, "items") and isinstance(gen.target, ast.Tuple) and len(gen.target.elts) == 2:
                k, f = [norm(e) for e in gen.target.elts]
                okf = norm(x.elt) == k and [norm(i) for i in gen.ifs] == [f]
    gd = ck.cfg(dh)
    for n in gd.nodes.values():
        if n.loops and any(isinstance(y, ast.Yield) for e in ([n.ast] if n.ast is not None else []) for y in walk_expr(e)):
            h = gd.nodes[n.loops[-1]]
            if h.kind == "for" and isinstance(h.ast.iter, ast.Call) and is_method_call(h.ast.iter, "items") and isinstance(h.ast.target, ast.Tuple) and len(h.ast.target.elts) == 2:
                k, f = [norm(e) for e in h.ast.target.elts]
                ys = [y for y in walk_expr(n.ast) if isinstance(y, ast.Yield)]
                w = cut(gd, [n.id], lambda t, lab, f=f: t.kind == "test" and norm(t.ast) == f and lab == "T", start=h.id)
                okf = w is None and all(y.value is not None and norm(y.value) == k for y in ys)
    ck.require(okf, "C12.indexwrite", dh, dh.node, "dir_hashes() yields exactly the keys whose stored flag is true", "dir_hashes() does not filter entries by the stored is-dir flag")
    # transfer side: shared with C04.index
    m = build_model(ck)
    gm = m.g
    for n in gm.nodes.values():
        for c in calls_at(n):
            if is_method_call(c, "update") and norm(c.func.value) == "dest_index":
                wit = cut(gm, [n.id], lambda t, lab: t.kind == "test" and isinstance(t.ast, ast.Name) and t.ast.id == m.failed and lab == "F")
                ck.require(wit is None, "C12.indexwrite", m.move, n, "transfer indexes pushed directories only when nothing failed",
                           "transfer can index a directory although part of the transfer failed", witness=gm.fmt_path(wit) if wit else None)


def _routing(ck: Checker) -> None:
    prog, res = ck.prog, ck.res
    cs = prog.func("hashfile.status", "compare_status")
    st = prog.func("hashfile.status", "status")
    n = 0
    for c, cals in res.calls_in(cs):
        if not any(x.fq == st.fq for x in cals):
            continue
        n += 1
        odb = get_arg(c, st, "odb", pos=0)
        idx = get_arg(c, st, "index", pos=3)
        o = norm(odb) if odb is not None else "?"
        i = norm(idx) if idx is not None else None
        ck.require(i == f"{o}_index", "C12.routing", cs, c, f"status({o}) uses {o}_index", f"status({o}, ...) is given index={i}: a store is answered from another store's index", construct=f"status({o}, index={i})")
        # both queries expand directories from the same place: the caller's cache_odb, by default the source
        from ..an import value_alts

        gcs = ck.cfg(cs)
        cn = next((x for x in gcs.nodes.values() if any(c2 is c for c2 in calls_at(x))), None)
        co = get_arg(c, st, "cache_odb")
        alts = [norm(a) for a in value_alts(gcs, cn, co, depth=2)] if (co is not None and cn is not None) else []
        ck.require("src" in alts or (o == "src" and co is None), "C12.routing", cs, c, f"status({o}) loads directory listings from cache_odb, defaulting to the source store",
                   f"status({o}, ...) gets cache_odb={alts or 'omitted'} with no default to `src`: the destination query then looks for the directory listing in the destination itself, where a new directory does not exist yet, and the listed files drop out of the destination's answer",
                   construct=f"status({o}, cache_odb=...) / default src")
    ck.floor("C12.routing", n, 2, "status() calls in compare_status")
    tr = prog.func("hashfile.transfer", "transfer")
    for c, cals in res.calls_in(tr):
        for cal in cals:
            if cal.name in ("compare_status", "_do_transfer"):
                for role in ("src_index", "dest_index"):
                    v = get_arg(c, cal, role)
                    ck.require(v is not None and norm(v) == role, "C12.routing", tr, c, f"{cal.name}({role}={role})", f"{cal.name} receives {role}={norm(v) if v is not None else None}", construct=f"{cal.name}(... {role}=...)")
    for modname, fname, role in (("index.push", "push", "dest_index"), ("index.fetch", "fetch", "src_index")):
        fn = prog.func(modname, fname)
        for c, cals in res.calls_in(fn):
            if any(x.fq == tr.fq for x in cals):
                v = get_arg(c, tr, role)
                other = get_arg(c, tr, "src_index" if role == "dest_index" else "dest_index")
                okr = v is not None and other is None
                # the index must be built for the remote (data) store
                src = ""
                if v is not None:
                    from .C18 import root_mapping_canon

                    src = " ".join(root_mapping_canon(fn)(norm(a)) for a in expand1(prog, fn, v))
                ck.require(okr and "get_index(data.odb)" in src, "C12.routing", fn, c, f"{fname} passes the remote's index as {role}",
                           f"{fname} does not pass get_index(data.odb) as {role} (and only that)", construct=f"transfer(... {role}=...) in {fname}")



def check_index_read_after_validation(ck: Checker, rule: str) -> None:
    """status(): the remote index is read (index.intersection / membership) only at points from which the
    validating pass over the indexed directories (_indexed_dir_hashes, which clears a stale index) can no
    longer run - i.e. never *before* it.  A snapshot taken earlier keeps vouching for objects of an index
    that the validation is about to discard."""
    prog = ck.prog
    fn = prog.func("hashfile.status", "status")
    g = ck.cfg(fn)
    val = prog.func("hashfile.status", "_indexed_dir_hashes")
    vnodes = [n for n in g.nodes.values() for c in calls_at(n) if any(x.fq == val.fq for x in ck.res.resolve(fn, c))]
    ck.floor(rule, len(vnodes), 1, "index validation calls (_indexed_dir_hashes) in status()")
    reads = []
    for n in g.nodes.values():
        for c in calls_at(n):
            if isinstance(c.func, ast.Attribute) and isinstance(c.func.value, ast.Name) and c.func.value.id == "index" and c.func.attr in ("intersection", "dir_hashes", "hashes", "__contains__", "__iter__"):
                reads.append((n, norm(c)))
        from ..cfg import node_exprs

        for e in node_exprs(n):
            for x in walk_expr(e):
                if isinstance(x, ast.Compare) and any(isinstance(o, (ast.In, ast.NotIn)) for o in x.ops) and any(isinstance(cm, ast.Name) and cm.id == "index" for cm in x.comparators):
                    reads.append((n, norm(x)))
    ck.floor(rule, len(reads), 1, "reads of the index in status()")
    vids = {v.id for v in vnodes}
    for n, txt in reads:
        if n.id in vids:
            continue
        r = g.reach([n.id], skip_edge=lambda a, lab, b: lab == "exc")
        later = [v for v in vnodes if v.id in r]
        ck.require(not later, rule, fn, n, "the index is consulted only after its directories were validated against the store",
                   f"`{txt}` reads the index before `_indexed_dir_hashes` has validated it against the store (and cleared it when stale): objects vouched for only by the stale snapshot are reported as existing and are never sent",
                   construct=f"{txt[:50]} / after validation")
