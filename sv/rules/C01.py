"""C01 - Object stores are content-addressed: every object is named by its own digest."""
from __future__ import annotations

import ast
from typing import List, Optional, Tuple

from ..an import avoiding_path, flows_from_calls, is_method_call, reaching_defs
from ..cfg import calls_at
from ..core import Checker
from ..loader import AnalysisError, Func, norm, parent, walk_expr, walk_own
from ..prov import ELEM, ITEM, call_name, expand1, get_arg, is_marker, scope_of
from .build_common import node_of, parallel_columns, rows_appended, same_object_pair, zip_columns
from .C07 import _check_verify, const_int
from .C13 import _algo


def add_sites(ck: Checker):
    out = []
    for fn in ck.prog.all_funcs():
        if fn.module.name.endswith(".cli"):
            continue
        g = None
        for c, _ in ck.res.calls_in(fn):
            if is_method_call(c, "add") and len(c.args) == 3 and not any(isinstance(a, ast.Starred) for a in c.args):
                # (path, fs, oid): the middle argument is a filesystem
                mid = norm(c.args[1])
                if mid == "fs" or mid.endswith(".fs") or mid.endswith("_fs"):
                    g = g or ck.cfg(fn)
                    n = node_of(g, c)
                    if n is not None:
                        out.append((fn, g, n, c))
    return out


def check(ck: Checker) -> None:
    ck.decided = [
        "C01.pair: at every store insertion (8 call sites) the path and the oid are one row: same object (.path/.oid), columns of one zip(*rows) whose rows pair an object's path with its oid (or an index entry's storage path with its recorded hash), keys/values of one dict keyed by path with value hashes[path], the digest of the very stream uploaded to that path, or a migration row (path, hash-of-path)",
        "C01.keyfaithful: _hash returns its own path with hash_file(path); _get_hashes files state hits and fresh hashes under the path they belong to; hash_file/_hash_file/file_md5 hash the path they were given",
        "C01.unordered: results of imap_unordered are consumed only as self-keyed rows (dict()/zip(*rows)/yield from), never paired positionally with the inputs",
        "C01.algo: a state hit is used as an object name only if recorded for the requested algorithm",
        "C01.dirsuffix: Tree.digest hashes as_bytes() and names the object <digest>.dir, oid assigned from the suffixed value; migrate re-attaches the suffix for .dir paths",
        "C01.treeobj: add_update_tree adds (tree.path, tree.oid) and re-points the tree at odb.get(tree.oid)",
        "C01.layout: LocalHashFileDB.oid_to_path uses the 2-character fan-out (oid[0:2]/oid[2:]) that the base class parses back",
        "C01.protect: after the copy every added oid is protected (per object), protect chmods to CACHE_MODE which has no write bit",
    ]
    ck.not_decided = ["that the digest algorithm computes the right value", "that dvc_objects' transfer writes the bytes it was given", "that an index entry's recorded hash is itself correct"]
    ck.trusted = ["ObjectDB.add copies paths[i] to oid_to_path(oids[i])", "hashlib"]
    prog = ck.prog
    sites = add_sites(ck)
    ck.floor("C01.pair", len(sites), 8, "store insertion call sites (<odb>.add(path, fs, oid))")
    for fn, g, n, c in sites:
        if norm(c.func.value).startswith("super("):
            # delegation inside an add() override: own (path, oid) forwarded in place
            pn = {x.id for a in expand1(prog, fn, c.args[0], levels=2) for x in walk_expr(a) if isinstance(x, ast.Name) and fn.has_param(x.id)}
            on = {x.id for a in expand1(prog, fn, c.args[2], levels=2) for x in walk_expr(a) if isinstance(x, ast.Name) and fn.has_param(x.id)}
            ck.require(pn == {"path"} and on == {"oid"}, "C01.pair", fn, n, "the override forwards its own (path, oid) in place", f"add() override delegates with path from {sorted(pn)} and oid from {sorted(on)}", construct=f"super().add({norm(c.args[0])}, ..., {norm(c.args[2])})")
            continue
        ok, why = pair_relation(ck, fn, g, n, c)
        ck.require(ok, "C01.pair", fn, n, why, f"cannot establish that the oid names the content at the path: {why}", construct=f"{norm(c.func)}({norm(c.args[0])}, {norm(c.args[1])}, {norm(c.args[2])})")
    _keyfaithful(ck)
    _unordered(ck)
    _algo(ck)
    for o in ck.obs:
        if o.rule == "C13.algo":
            o.rule = "C01.algo"
    _dirsuffix(ck)
    _treeobj(ck)
    _layout(ck)
    _check_verify(ck, "C01.protect")
    cls = prog.cls("hashfile.db.local", "LocalHashFileDB")
    mode = const_int(ck, cls, "CACHE_MODE")
    ck.require(mode is not None and mode & 0o222 == 0, "C01.protect", None, None, f"CACHE_MODE {oct(mode) if mode is not None else '?'} is read-only", "LocalHashFileDB.CACHE_MODE has a write bit: added objects do not end up read-only", construct="LocalHashFileDB.CACHE_MODE")
    pr = cls.methods.get("protect")
    chm = [x for x in walk_own(pr.node) if isinstance(x, ast.Call) and norm(x.func) == "os.chmod"] if pr else []
    ck.require(bool(chm) and all(len(x.args) >= 2 and norm(x.args[0]) == "path" and norm(x.args[1]) == "self.CACHE_MODE" for x in chm), "C01.protect", pr, pr.node if pr else None,
               "protect() chmods its path to CACHE_MODE", "LocalHashFileDB.protect no longer chmods the given path to CACHE_MODE")
    from . import round4 as _r4

    _r4.post_copy_covers_all(ck, "C01.protect")
    from . import round7 as _r7

    _r7.meta_from_info_own_keys(ck, "C01.algo")
    _r7.protect_always_chmods(ck, "C01.protect")
    _r7.failed_copy_never_trusted(ck, "C01.protect")
    from . import round8 as _r8

    _r8.post_copy_loop_always_runs(ck, "C01.protect")
    _r4.hashinfo_identity(ck, "C01.pair")



def pair_relation(ck: Checker, fn: Func, g, n, c: ast.Call) -> Tuple[bool, str]:  # noqa: C901, PLR0911, PLR0912
    prog = ck.prog
    p, _f, o = c.args
    o_alts = expand1(prog, fn, o, levels=2)
    # A. same object
    base = same_object_pair(p, o_alts)
    if base:
        return True, f"path and oid are .path / .oid of the same object `{base}`"
    # B. columns of one zip(*rows)
    zc = zip_columns(fn, g, n, p, o)
    if zc is not None:
        rows_expr, ip, io, defn = zc
        rows = rows_appended(ck, fn, g, defn, rows_expr)
        if rows:
            for row in rows:
                if max(ip, io) >= len(row.elts):
                    return False, f"row {norm(row)} lacks column {max(ip, io)}"
                rp, ro = row.elts[ip], row.elts[io]
                b2 = same_object_pair(rp, expand1(prog, fn, ro, levels=2))
                if b2:
                    continue
                # index entry: path = get_storage(entry), oid = entry.hash_info.value
                pa = " | ".join(norm(x) for x in expand1(prog, fn, rp, levels=2))
                oa = [norm(x) for x in expand1(prog, fn, ro, levels=2)]
                ent = next((t[: -len(".hash_info.value")] for t in oa if t.endswith(".hash_info.value")), None)
                if ent and (f"get_storage({ent}" in pa or f".get({ent})" in pa):
                    continue
                return False, f"row {norm(row)}: column {ip} ({pa}) and column {io} ({oa}) do not belong to one object/entry"
            return True, f"paths/oids are columns {ip}/{io} of zip(*{norm(rows_expr)}) whose rows pair an object's path with its own oid"
        # migration rows: results of the self-keyed worker
        return _migration_rows(ck, fn, g, defn, rows_expr, ip, io)
    # G. parallel columns of keyed containers, always appended together
    pc = parallel_columns(ck, fn, g, n, p, o)
    if pc is not None:
        return pc
    # H. oids computed from the paths themselves: [hashes[path]....value for path in paths]
    if isinstance(p, ast.Name):
        for alt in o_alts:
            if isinstance(alt, ast.ListComp) and len(alt.generators) == 1 and not alt.generators[0].ifs and isinstance(alt.generators[0].iter, ast.Name) and alt.generators[0].iter.id == p.id and isinstance(alt.generators[0].target, ast.Name):
                t, et = alt.generators[0].target.id, norm(alt.elt)
                if f"[{t}]" in et and et.endswith(".value"):
                    return True, f"oids are looked up per path from the hash mapping: {norm(alt)}"
    # C. keys / values of one path-keyed dict
    def dict_side(e):
        inner = e
        if isinstance(inner, ast.Name):
            ds = reaching_defs(g, n.id, inner.id)
            if len(ds) != 1:
                return None
            inner = getattr(ds[0].ast, "value", None)
        if isinstance(inner, ast.Call) and call_name(inner) in ("list", "tuple") and len(inner.args) == 1:
            x = inner.args[0]
            if isinstance(x, ast.Name):
                return x.id, "keys"
            if isinstance(x, ast.Call) and is_method_call(x, "keys", "values") and isinstance(x.func.value, ast.Name):
                return x.func.value.id, x.func.attr
        return None

    dp, do = dict_side(p), dict_side(o)
    if dp and do and dp[0] == do[0] and {dp[1], do[1]} == {"keys", "values"}:
        dname = dp[0]
        for d in scope_of(fn).get(dname):
            v = d.value
            if isinstance(v, ast.DictComp) and len(v.generators) == 1:
                kexpr, vexpr = (v.key, v.value) if dp[1] == "keys" else (v.value, v.key)
                tgt = {x.id for x in walk_expr(v.generators[0].target) if isinstance(x, ast.Name)}
                ktxt = norm(kexpr)
                if ktxt not in tgt:
                    return False, f"dict {dname}: the path side `{ktxt}` is not the comprehension's own element"
                # the oid side is the hash recorded for that same path
                vt = norm(vexpr)
                if f"[{ktxt}]" in vt and vt.endswith(".value"):
                    return True, f"paths/oids are the {dp[1]}/{do[1]} of `{dname}` whose items pair a path with hashes[path].value"
                bound = [norm(t) for t in walk_expr(v.generators[0].target) if isinstance(t, ast.Name)]
                if vt.endswith(".value") and vt.split(".")[0] in bound and isinstance(v.generators[0].iter, ast.Call) and is_method_call(v.generators[0].iter, "items"):
                    return True, f"paths/oids are the {dp[1]}/{do[1]} of `{dname}` built from single (path, hash) items of one mapping"
                return False, f"dict {dname}: value `{vt}` is not the hash recorded for the key `{ktxt}`"
        from ..an import collection_builds

        for b in collection_builds(g, fn.node, dname):
            if b.key is None or not b.unconditional:
                continue
            kexpr, vexpr = (b.key, b.elt) if dp[1] == "keys" else (b.elt, b.key)
            ktxt, vt = norm(kexpr), norm(vexpr)
            if ktxt in b.target_names() and f"[{ktxt}]" in vt and vt.endswith(".value"):
                return True, f"paths/oids are the {dp[1]}/{do[1]} of `{dname}`, filled in a loop with {dname}[path] = hashes[path].value"
        return False, f"cannot find how dict `{dname}` is built"
    # D. digest of the stream uploaded to that path
    for alt in o_alts:
        if isinstance(alt, ast.Attribute) and alt.attr == "hash_value":
            hs = norm(alt.value)
            puts = [x for x in walk_own(fn.node) if isinstance(x, ast.Call) and is_method_call(x, "put_file", "upload_fobj", "pipe_file") and len(x.args) >= 2]
            for pc in puts:
                if norm(pc.args[1]) == norm(p):
                    src_alts = " | ".join(norm(z) for z in expand1(prog, fn, pc.args[0], levels=2))
                    if hs in src_alts:
                        pn = node_of(g, pc)
                        if pn is not None and avoiding_path(g, n.id, lambda x: x.id == pn.id) is None:
                            return True, f"oid is the digest accumulated by `{hs}` while it was uploaded to `{norm(p)}`"
            return False, f"oid is {norm(alt)} but the hashed stream was not the data uploaded to {norm(p)}"
    # E/F. parameters: follow to the call sites
    if isinstance(p, ast.Name):
        pdefs = reaching_defs(g, n.id, p.id)
        if len(pdefs) == 1 and isinstance(pdefs[0].ast, ast.Assign) and isinstance(pdefs[0].ast.targets[0], (ast.Tuple, ast.List)) and isinstance(pdefs[0].ast.value, ast.Name) and fn.has_param(pdefs[0].ast.value.id):
            return _migration_ctor(ck, fn, pdefs[0].ast, p.id, norm(o))
    if isinstance(p, ast.Name) and fn.has_param(p.id):
        oparams = {x.id for a in o_alts for x in walk_expr(a) if isinstance(x, ast.Name) and fn.has_param(x.id)}
        if oparams:
            return _params_from_one_row(ck, fn, p.id, sorted(oparams))
    return False, f"path `{norm(p)}` and oid `{norm(o)}` ({[norm(a) for a in o_alts]}) match none of the enumerated row relations"


def _params_from_one_row(ck: Checker, fn: Func, pparam: str, oparams: List[str]) -> Tuple[bool, str]:
    sites = [(cf, c) for cf, c in ck.res.call_sites_of(fn) if not cf.module.name.endswith(".cli")]
    if not sites:
        return False, f"no call site of {fn.qual} to trace `{pparam}`/{oparams}"
    for cf, c in sites:
        g = ck.cfg(cf)
        n = node_of(g, c)
        pa = get_arg(c, fn, pparam)
        oas = [get_arg(c, fn, x) for x in oparams]
        if pa is None or any(a is None for a in oas) or not isinstance(pa, ast.Name) or not all(isinstance(a, ast.Name) for a in oas):
            return False, f"call {norm(c)} does not pass plain names for {pparam}/{oparams}"
        d0 = reaching_defs(g, n.id, pa.id)
        ok = True
        for a in oas:
            d1 = reaching_defs(g, n.id, a.id)
            common = [x for x in d0 if any(x.ast is y.ast for y in d1)]
            # path may be re-bound from a previous call of the same helper (fs, path = self._cache_remote_file(...)):
            ok = ok and bool(common) and all(isinstance(x.ast, ast.Assign) and isinstance(x.ast.value, ast.Call) for x in common)
        if not ok:
            return False, f"at {cf.qual}: {norm(c)} the path and hash arguments are not unpacked from one and the same lookup result"
    return True, f"path and recorded hash reach {fn.qual} from one lookup result (the same index entry) at every call site"


def _migration_ctor(ck: Checker, fn: Func, unpack: ast.Assign, pname: str, oname: str) -> Tuple[bool, str]:
    prog = ck.prog
    names = [norm(t) for t in unpack.targets[0].elts]
    if pname not in names or oname not in names:
        return False, "paths/oids are not both unpacked from the migration record"
    ip, io = names.index(pname), names.index(oname)
    ctors = []
    for f in prog.all_funcs():
        for c, _ in ck.res.calls_in(f):
            if call_name(c) == "PreparedMigration":
                ctors.append((f, c))
    if not ctors:
        return False, "no PreparedMigration(...) construction found"
    for f, c in ctors:
        g = ck.cfg(f)
        n = node_of(g, c)
        if max(ip, io) >= len(c.args):
            return False, f"{norm(c)} has too few positional fields"
        zc = zip_columns(f, g, n, c.args[ip], c.args[io])
        if zc is None:
            return False, f"in {f.qual}: PreparedMigration paths={norm(c.args[ip])}, oids={norm(c.args[io])} are not two columns of one zip(*results): hashes computed by an unordered pool are paired positionally with another list"
        rows_expr, cp, co, defn = zc
        ok, why = _migration_rows(ck, f, g, defn, rows_expr, cp, co)
        if not ok:
            return ok, why
    return True, "migration rows are (path, hash-of-that-path) produced by the self-keyed worker and unzipped together"


def _migration_rows(ck: Checker, fn: Func, g, at, rows_expr: ast.expr, ip: int, io: int) -> Tuple[bool, str]:
    prog = ck.prog
    # rows = list(executor.imap_unordered(worker, inputs))
    alts = expand1(prog, fn, rows_expr, levels=2)
    for alt in alts:
        inner = alt
        if isinstance(inner, ast.Call) and call_name(inner) == "list" and inner.args:
            inner = inner.args[0]
        if isinstance(inner, ast.Call) and is_method_call(inner, "imap_unordered", "imap", "map") and inner.args:
            w = inner.args[0]
            wf = None
            for a2 in expand1(prog, fn, w, levels=2):
                if isinstance(a2, ast.Call) and call_name(a2) == "partial" and a2.args and isinstance(a2.args[0], ast.Name):
                    ent = prog.lookup_name(fn, a2.args[0].id)
                    if isinstance(ent, Func):
                        wf = (ent, len(a2.args) - 1)
                elif isinstance(a2, ast.Name):
                    ent = prog.lookup_name(fn, a2.id)
                    if isinstance(ent, Func):
                        wf = (ent, 0)
            if wf is None:
                return False, f"cannot resolve the worker of {norm(inner)}"
            worker, bound = wf
            inp = worker.pos_params[bound] if bound < len(worker.pos_params) else None
            gw = ck.cfg(worker)
            for r in [x for x in gw.nodes.values() if x.kind == "stmt" and isinstance(x.ast, ast.Return)]:
                v = r.ast.value
                if not (isinstance(v, ast.Tuple) and len(v.elts) > max(ip, io)):
                    return False, f"worker {worker.qual} returns {norm(v)}, not a (path, oid) row"
                if norm(v.elts[ip]) != inp:
                    return False, f"worker {worker.qual}: row column {ip} is {norm(v.elts[ip])}, not its input `{inp}`"
                hcalls = [c for c in walk_own(worker.node) if isinstance(c, ast.Call) and any(norm(a_) == inp for a_ in list(c.args) + [k.value for k in c.keywords]) and call_name(c) not in ("endswith", "startswith")]
                if not flows_from_calls(gw, r, v.elts[io], hcalls):
                    return False, f"worker {worker.qual}: row column {io} ({norm(v.elts[io])}) is not computed from `{inp}`"
            return True, f"rows are (input, hash-of-input) pairs returned by {worker.qual} and unzipped together"
    return False, f"rows `{norm(rows_expr)}` are neither appended tuples nor results of a self-keyed worker"


def _keyfaithful(ck: Checker) -> None:
    prog = ck.prog
    hf = prog.func("hashfile.build", "_hash_files")
    workers = list(hf.children.values())
    ck.floor("C01.keyfaithful", len(workers), 1, "worker closures in _hash_files")
    for w in workers:
        g = ck.cfg(w)
        for r in [n for n in g.nodes.values() if n.kind == "stmt" and isinstance(n.ast, ast.Return)]:
            v = r.ast.value
            ok = False
            why = norm(v)
            if isinstance(v, ast.Tuple) and len(v.elts) == 2 and isinstance(v.elts[0], ast.Name):
                pn = v.elts[0].id
                hcalls = [c for c in walk_own(w.node) if isinstance(c, ast.Call) and call_name(c) == "hash_file" and c.args and norm(c.args[0]) == pn]
                ok = bool(hcalls) and flows_from_calls(g, r, v.elts[1], hcalls)
                # the path itself is the first component of the worker's own argument
                pd = reaching_defs(g, r.id, pn)
                ok = ok and all(isinstance(d.ast, ast.Assign) and isinstance(d.ast.value, ast.Name) and w.has_param(d.ast.value.id) for d in pd)
            ck.require(ok, "C01.keyfaithful", w, r, "worker returns (its own path, hash_file(that path))", f"worker returns {why}: the hash is not keyed by the path it was computed from")
        # both size classes go through the same worker
    uses = [norm(c.args[0]) for c in walk_own(hf.node) if isinstance(c, ast.Call) and call_name(c) in ("map", "imap_unordered", "imap") and c.args]
    uses += [c.func.id for c in walk_own(hf.node) if isinstance(c, ast.Call) and isinstance(c.func, ast.Name) and c.func.id in hf.children]
    ck.require(len(set(uses)) == 1 and len(uses) >= 2, "C01.keyfaithful", hf, hf.node, "small and large files are hashed by the same worker", f"different workers for different size classes: {uses}", construct="_hash_files / one worker")
    gh = prog.func("hashfile.build", "_get_hashes")
    g = ck.cfg(gh)
    stores = [n for n in g.nodes.values() if n.kind == "stmt" and isinstance(n.ast, ast.Assign) and isinstance(n.ast.targets[0], ast.Subscript) and n.loops]
    for s in stores:
        h = g.nodes[s.loops[-1]]
        tnames = [norm(t) for t in (h.ast.target.elts if isinstance(h.ast.target, ast.Tuple) else [h.ast.target])]
        key = norm(s.ast.targets[0].slice)
        vals = {x.id for x in walk_expr(s.ast.value) if isinstance(x, ast.Name)}
        ok = key == tnames[0] and len(vals & set(tnames[1:])) >= 2
        ck.require(ok, "C01.keyfaithful", gh, s, "a state hit is filed under the path it was returned for", f"state hit is stored as {s.text()}: key and values are not components of one get_many row")
    retn = [r.value.id for r in walk_own(gh.node) if isinstance(r, ast.Return) and isinstance(r.value, ast.Name)]
    hfc = [c for c in walk_own(gh.node) if isinstance(c, ast.Call) and call_name(c) == "_hash_files"]
    merged = False
    for n in g.nodes.values():
        for c in calls_at(n):
            if is_method_call(c, "update") and retn and norm(c.func.value) == retn[0] and c.args:
                for alt in [c.args[0]] + [getattr(d.ast, "value", None) for d in (reaching_defs(g, n.id, c.args[0].id) if isinstance(c.args[0], ast.Name) else [])]:
                    if isinstance(alt, ast.Call) and call_name(alt) == "dict" and alt.args and flows_from_calls(g, n, alt.args[0], hfc):
                        merged = True
    ck.require(merged, "C01.keyfaithful", gh, gh.node, "fresh hashes are merged into the result by key (dict(rows) then update)", "fresh hashes are no longer merged into the result by path key", construct="result.update(dict(<fresh rows>))")
    hfile = prog.func("hashfile.hash", "hash_file")
    g2 = ck.cfg(hfile)
    inner = [c for c in walk_own(hfile.node) if isinstance(c, ast.Call) and call_name(c) == "_hash_file"]
    ck.require(bool(inner) and all(norm(c.args[0]) == "path" and norm(c.args[2]) == "name" for c in inner), "C01.keyfaithful", hfile, hfile.node, "hash_file hashes its own path with the requested algorithm", "hash_file does not pass its own (path, name) to _hash_file")
    for r in [n for n in g2.nodes.values() if n.kind == "stmt" and isinstance(n.ast, ast.Return)]:
        v = r.ast.value
        if isinstance(v, ast.Tuple) and len(v.elts) == 2 and isinstance(v.elts[1], ast.Name):
            defs = reaching_defs(g2, r.id, v.elts[1].id)
            for d in defs:
                dv = getattr(d.ast, "value", None)
                if isinstance(dv, ast.Call) and call_name(dv) == "HashInfo":
                    ck.require(get_arg(dv, None, "name", 0) is not None and get_arg(dv, None, "value", 1) is not None and norm(get_arg(dv, None, "name", 0)) == "name" and flows_from_calls(g2, d, get_arg(dv, None, "value", 1), inner), "C01.keyfaithful", hfile, d, "fresh HashInfo(name, oid) carries the oid just computed", f"fresh hash info is {norm(dv)}")
    h2 = prog.func("hashfile.hash", "_hash_file")
    fm = [c for c in walk_own(h2.node) if isinstance(c, ast.Call) and call_name(c) == "file_md5"]
    fmd = prog.func("hashfile.hash", "file_md5")
    ck.require(bool(fm) and all(get_arg(c, fmd, fmd.pos_params[0]) is not None and norm(get_arg(c, fmd, fmd.pos_params[0])) == "path" and get_arg(c, fmd, "name") is not None and norm(get_arg(c, fmd, "name")) == "name" for c in fm), "C01.keyfaithful", h2, h2.node, "_hash_file digests its own path", "_hash_file does not digest (path, name=name)")
    f3 = prog.func("hashfile.hash", "file_md5")
    op = [c for c in walk_own(f3.node) if isinstance(c, ast.Call) and is_method_call(c, "open")]
    ck.require(bool(op) and all(get_arg(c, None, "path", 0) is not None and norm(get_arg(c, None, "path", 0)) == f3.pos_params[0] for c in op), "C01.keyfaithful", f3, f3.node, "file_md5 opens the file it was given", "file_md5 opens a different path")


def _unordered(ck: Checker) -> None:
    n = 0
    for fn in ck.prog.all_funcs():
        for c, _ in ck.res.calls_in(fn):
            if not is_method_call(c, "imap_unordered"):
                continue
            n += 1
            p = parent(c)
            ok, why = False, f"consumed by {type(p).__name__}"
            if isinstance(p, ast.YieldFrom):
                ok, why = True, "forwarded with yield from (rows keep their own key)"
            elif isinstance(p, (ast.For, ast.comprehension)) and p.iter is c and isinstance(p.target, (ast.Tuple, ast.List)):
                # consumed row by row, directly: each row is unpacked into its own (key, value) pair
                ok, why = True, "consumed row by row (each row keeps its own pairing)"
            elif isinstance(p, ast.Call) and call_name(p) in ("list", "dict") and isinstance(parent(p), (ast.Assign, ast.AnnAssign)):
                tgt = parent(p).targets[0] if isinstance(parent(p), ast.Assign) else parent(p).target
                nm = norm(tgt)
                uses = [x for x in walk_own(fn.node) if isinstance(x, ast.Name) and x.id == nm and isinstance(x.ctx, ast.Load)]
                bad = []
                for u in uses:
                    pu = parent(u)
                    if isinstance(pu, ast.Starred) and isinstance(parent(pu), ast.Call) and call_name(parent(pu)) == "zip":
                        continue
                    if isinstance(pu, (ast.If, ast.IfExp, ast.UnaryOp, ast.BoolOp)) or (isinstance(pu, ast.Call) and call_name(pu) in ("len", "dict", "bool")):
                        continue
                    if isinstance(pu, ast.Call) and is_method_call(pu, "items", "update"):
                        continue
                    if isinstance(pu, (ast.For, ast.comprehension)) and pu.iter is u and isinstance(pu.target, (ast.Tuple, ast.List)):
                        continue  # consumed row by row: each row keeps its own (key, value) pairing
                    bad.append(norm(pu)[:60])
                ok, why = not bad, "unordered rows are only unzipped together / used as a mapping" if not bad else f"unordered results are used positionally: {bad}"
            ck.require(ok, "C01.unordered", fn, c, why, f"results of imap_unordered arrive in completion order but are {why}: hashes get attached to the wrong paths")
    ck.floor("C01.unordered", n, 2, "imap_unordered call sites")


def _dirsuffix(ck: Checker) -> None:
    prog = ck.prog
    dg = prog.func("hashfile.tree", "Tree.digest")
    g = ck.cfg(dg)
    from .tree_common import digest_model, is_metafree_as_bytes

    dm = digest_model(ck)
    ck.floor("C01.dirsuffix", len(dm.hcalls), 1, "hash_file calls in Tree.digest")
    hn, hc = dm.hn, dm.hc
    hp = norm(dm.path) if dm.path is not None else None
    wrote = [(n, c, a1) for n, c, a0, a1 in dm.pipes if norm(a0) == hp]
    ok = bool(wrote) and all(is_metafree_as_bytes(ck, a1) for _n, _c, a1 in wrote) and all(avoiding_path(g, hn.id, lambda x, n=n: x.id == n.id) is None for n, _c, _a in wrote)
    ck.require(ok, "C01.dirsuffix", dg, hn, "the hashed scratch file holds exactly self.as_bytes() (no metadata)", f"the bytes hashed for the directory id are not self.as_bytes(): {[norm(a1) for _n, _c, a1 in wrote]}", construct="digest / hashed bytes")
    sfx = [n for n, _ok in dm.suffix_nodes]
    ck.require(dm.suffix_once, "C01.dirsuffix", dg, sfx[0] if sfx else dg.node, "the '.dir' suffix is appended exactly once on every path", "the directory suffix is not appended exactly once to the digest", construct="hash_info.value += '.dir'")
    ck.require(dm.oid_ok, "C01.dirsuffix", dg, dm.oid_nodes[0] if dm.oid_nodes else dg.node, "oid is assigned from the suffixed value", "Tree.oid is not the suffixed hash value (assigned before the suffix or from something else)", construct="self.oid = self.hash_info.value")
    ck.require(dm.result_bound, "C01.dirsuffix", dg, hn, "hash_info is the result of hashing the listing", "self.hash_info is not taken from hash_file(listing)", construct="_, self.hash_info = hash_file(...)")
    ht = prog.func("hashfile.db.migrate", "_hash_task")
    g2 = ck.cfg(ht)
    sf2 = [n for n in g2.nodes.values() if n.kind == "stmt" and isinstance(n.ast, ast.AugAssign) and norm(n.ast.target).endswith(".value")]
    okm = False
    for n in sf2:
        from ..an import cut

        w = cut(g2, [n.id], lambda t, lab: t.kind == "test" and lab == "T" and norm(t.ast) in ("path.endswith('.dir')", "path.endswith(HASH_DIR_SUFFIX)"))
        okm = w is None and getattr(n.ast.value, "value", None) == ".dir" or norm(n.ast.value) == "HASH_DIR_SUFFIX"
        # and always on that edge
        for t in g2.nodes.values():
            if t.kind == "test" and norm(t.ast) in ("path.endswith('.dir')", "path.endswith(HASH_DIR_SUFFIX)"):
                r = g2.reach([d for lab, d in t.succ if lab == "T"], skip_node=lambda x: x.id == n.id)
                okm = okm and g2.exit not in r
    ck.require(okm, "C01.dirsuffix", ht, ht.node, "migrating a .dir object keeps the .dir suffix on the new name", "migration does not re-attach '.dir' exactly for paths ending in .dir")


def _treeobj(ck: Checker) -> None:
    prog = ck.prog
    fn = prog.func("hashfile.db", "add_update_tree")
    g = ck.cfg(fn)
    adds = [(n, c) for n in g.nodes.values() for c in calls_at(n) if is_method_call(c, "add") and len(c.args) >= 3]
    ck.floor("C01.treeobj", len(adds), 1, "odb.add in add_update_tree")
    an, ac = adds[0]
    gets = [c for c in walk_own(fn.node) if isinstance(c, ast.Call) and is_method_call(c, "get") and c.args and norm(c.args[0]) == "tree.oid"]
    sets = {norm(n.ast.targets[0]): n for n in g.nodes.values() if n.kind == "stmt" and isinstance(n.ast, ast.Assign) and norm(n.ast.targets[0]) in ("tree.fs", "tree.path")}
    ok = set(sets) == {"tree.fs", "tree.path"} and bool(gets)
    if ok:
        for k, n in sets.items():
            ok = ok and flows_from_calls(g, n, n.ast.value, gets) and norm(n.ast.value).endswith(k.split(".")[1]) and avoiding_path(g, n.id, lambda x: x.id == an.id) is None
    ck.require(ok, "C01.treeobj", fn, an, "after the add the tree is re-pointed at odb.get(tree.oid)", "add_update_tree does not re-point tree.fs/tree.path at the stored object odb.get(tree.oid) after adding it")


def _layout(ck: Checker) -> None:
    prog = ck.prog
    fn = prog.func("hashfile.db.local", "LocalHashFileDB.oid_to_path")
    rets = [r for r in walk_own(fn.node) if isinstance(r, ast.Return)]
    ok, why = False, "no f-string return"
    for r in rets:
        v = r.value
        if isinstance(v, ast.JoinedStr):
            parts = []
            for x in v.values:
                if isinstance(x, ast.FormattedValue):
                    parts.append(x.value)
                else:
                    parts.append(x)
            def _res(p):
                # `sep = os.sep` hoisted into a local
                if isinstance(p, ast.Name):
                    ds_ = scope_of(fn).get(p.id)
                    if len(ds_) == 1 and ds_[0].kind == "assign" and getattr(ds_[0], "value", None) is not None:
                        return ds_[0].value
                return p

            parts = [_res(p) for p in parts]
            txt = [norm(p) if not isinstance(p, ast.Constant) else repr(p.value) for p in parts]
            slices = [p for p in parts if isinstance(p, ast.Subscript) and norm(p.value) == "oid" and isinstance(p.slice, ast.Slice)]
            if len(slices) == 2:
                a, b = slices
                lo_a = getattr(a.slice.lower, "value", 0) if a.slice.lower is not None else 0
                up_a = getattr(a.slice.upper, "value", None)
                lo_b = getattr(b.slice.lower, "value", None)
                up_b = b.slice.upper
                seps = [t for t in txt if t in ("os.sep", "'/'", "self.fs.sep")]
                ok = lo_a == 0 and up_a == 2 and lo_b == 2 and up_b is None and txt[0] == "self.path" and len(seps) == 2 and txt.index(norm(a)) < txt.index(norm(b))
                why = f"layout parts {txt}"
        elif isinstance(v, ast.Call):
            ok, why = "oid[0:2]" in norm(v) or "oid[:2]" in norm(v), norm(v)
            ok = ok and "oid[2:]" in norm(v)
    ck.require(ok, "C01.layout", fn, fn.node, "store path is <root>/<oid[0:2]>/<oid[2:]> (complementary slices, two separators)", f"local store layout is not the 2-character fan-out the base class parses back ({why})")
