"""C05 - Checkout never destroys user data that is not recoverable from the cache."""
from __future__ import annotations

import ast
from typing import List, Optional, Set, Tuple

from ..an import avoiding_path, cut, is_method_call, is_name_call
from ..cfg import calls_at
from ..core import Checker
from ..effects import destructive_kind, fs_like
from ..loader import AnalysisError, Func, norm, walk_expr, walk_own
from ..prov import is_accumulator, ends_with_attrs, attr_chain, call_name, expand, get_arg, scope_of, is_marker, ELEM, ITEM, CTX
from .generic_lints import run_all as _lints


def _is_root(ck: Checker, fn: Func) -> bool:
    return not ck.res.call_sites_of(fn)


def value_tags(ck: Checker, fn: Func, e: ast.expr, public: Func) -> Set[str]:
    """Classify where a guard operand comes from.
    tags: force | prompt | in_cache_old | neutral | other:<text>"""
    tags: Set[str] = set()
    for alt in expand(ck.prog, fn, e):
        if ends_with_attrs(alt, "old", "in_cache"):
            tags.add("in_cache_old")
            continue
        if isinstance(alt, ast.Constant) and alt.value in (False, None):
            tags.add("neutral")
            continue
        if isinstance(alt, ast.Name):
            owner = fn
            while owner is not None and not owner.has_param(alt.id):
                owner = owner.parent
            if owner is not None and not [d for d in scope_of(owner).get(alt.id) if d.kind != "param"]:
                for ofn, oe in ck.res.param_origins(owner, alt.id, roots=(public.fq,)):
                    if isinstance(oe, ast.Name) and ofn.fq == public.fq and oe.id in ("force", "prompt") and ofn.has_param(oe.id):
                        tags.add(oe.id)
                    elif isinstance(oe, ast.Constant) and oe.value in (False, None):
                        tags.add("neutral")
                    else:
                        if ends_with_attrs(oe, "old", "in_cache"):
                            tags.add("in_cache_old")
                        else:
                            tags.add(f"other:{ofn.qual}:{norm(oe)}")
                continue
        tags.add(f"other:{fn.qual}:{norm(alt)}")
    return tags


def removal_guard_justified(ck: Checker, fn: Func, public: Func, _depth=None):
    """Edge predicate: edges that justify a destructive removal."""
    cache = {}
    _depth = _depth if _depth is not None else [0]

    def just(n, lab) -> bool:
        if n.kind != "test" or lab != "T":
            return False
        key = n.id
        if key not in cache:
            e = n.ast
            ok = False
            if isinstance(e, ast.Call):
                # prompt(msg) returned true
                t = value_tags(ck, fn, e.func, public) - {"neutral"}
                ok = t == {"prompt"}
                if not ok and _depth[0] < 3:
                    # a helper that returns a truthy value only after one of the justifying edges
                    for cal in ck.res.resolve(fn, e):
                        if cal.module is fn.module and cal.fq != fn.fq:
                            _depth[0] += 1
                            try:
                                gh = ck.cfg(cal)
                                jh = removal_guard_justified(ck, cal, public, _depth)
                                rets = [x for x in gh.nodes.values() if x.kind == "stmt" and isinstance(x.ast, ast.Return)
                                        and not (x.ast.value is None or (isinstance(x.ast.value, ast.Constant) and not x.ast.value.value))]
                                ok = bool(rets) and all(cut(gh, [r.id], jh) is None for r in rets)
                                # falling off the end returns None (falsy): fine
                            finally:
                                _depth[0] -= 1
            elif isinstance(e, (ast.Name, ast.Attribute)):
                t = value_tags(ck, fn, e, public) - {"neutral"}
                ok = t in ({"force"}, {"in_cache_old"})
            cache[key] = ok
        return cache[key]

    return just


def check(ck: Checker) -> None:
    prog, res = ck.prog, ck.res
    _lints(ck, "C05.aliasing", "hashfile.state", "hashfile.checkout")
    ck.decided = [
        "C05.owner: every filesystem-destructive call reachable from hashfile.checkout.checkout inside its module is enumerated",
        "C05.guard: each such call is unreachable once the edges {force true, OLD entry in_cache true, prompt(msg) true} are cut (operands traced to checkout()'s parameters / <change>.old.in_cache through all call sites); vanished entries are removed files-first, so a directory's (recursive) removal never precedes the guarded removal of the files below it",
        "C05.overwrite: every workspace write (link functor / generic.transfer) is dominated by the guarded removal of the same path or lies across '<change>.old.oid is falsy'",
        "C05.incache: TreeEntry.in_cache is `cache_meta is not None`, the OLD entry's cache_meta is the integrity-checked lookup of the OLD oid, and the lookup returns non-None only from cache.check(oid)",
        "C05.links: State.get_unused_links appends only keys of the link table, across path-not-in-used, fs.exists and record==(inode, mtime) edges; remove_links removes exactly the paths it was given",
        "C05.dirtoken: get_mtime_and_size records every walked file (only ENOENT is skipped)",
    ]
    ck.not_decided = [
        "that cache.check itself is right (C07)",
        "what dvc_objects.fs.generic.transfer does to an existing destination",
        "whether the user-supplied prompt answers truthfully",
        "byte-level recoverability of removed files",
    ]
    ck.trusted = ["dvc_objects.fs.generic.transfer never writes its source", "fs.remove removes only the given path"]

    public = ck.func("hashfile.checkout", "checkout")
    mod = public.module
    slice_ = res.reachable_funcs([public], within=lambda f: f.module is mod)
    ck.floor("C05.owner", len(slice_), 3, "functions reachable from checkout()")

    # ------------------------------------------------------ owner + guard
    sinks = []
    for fn in slice_:
        g = ck.cfg(fn)
        for n in g.nodes.values():
            for c in calls_at(n):
                k = destructive_kind(prog, fn, c)
                if k:
                    sinks.append((fn, g, n, c, k))
    ck.floor("C05.owner", len(sinks), 1, "destructive call sites in the checkout slice")
    guarded_removers: List[Func] = []
    for fn, g, n, c, k in sinks:
        just = removal_guard_justified(ck, fn, public)
        wit = cut(g, [n.id], just)
        if wit is None:
            ck.ok("C05.guard", fn, n, f"destructive call {k} is behind force / old.in_cache / prompt on every path")
            guarded_removers.append(fn)
        else:
            # explain which operands were not traceable
            bad = []
            for t in g.nodes.values():
                if t.kind == "test" and isinstance(t.ast, (ast.Name, ast.Attribute, ast.Call)):
                    tg = value_tags(ck, fn, t.ast.func if isinstance(t.ast, ast.Call) else t.ast, public)
                    oth = [x for x in tg if x.startswith("other:")]
                    if oth and (tg & {"force", "prompt", "in_cache_old"}):
                        bad.append(f"guard operand {norm(t.ast)} also comes from: {', '.join(oth)}")
            ck.fail(
                "C05.guard",
                fn,
                n,
                f"destructive call {k} is reachable without force, without the OLD entry being in cache and without an affirmative prompt",
                witness=bad + g.fmt_path(wit),
            )
    # transitive: a function that calls a guarded remover with its own path is also fine; a
    # function with a destructive sink that failed is already reported.

    # ----------------------------------------------------------- overwrite
    def is_generic_transfer(fn: Func, c: ast.Call) -> bool:
        if not isinstance(c.func, ast.Name):
            return False
        f2, target = fn, None
        while f2 is not None and target is None:
            target = f2.local_imports.get(c.func.id)
            f2 = f2.parent
        target = target or fn.module.imports.get(c.func.id)
        return bool(target and target[0].startswith("dvc_objects.fs.generic") and target[1] == "transfer")

    link_calls_found = 0
    writer_funcs = [f for f in slice_ if any(is_generic_transfer(f, c) for c, _ in res.calls_in(f))]
    for fn in slice_:
        g = ck.cfg(fn)
        for n in g.nodes.values():
            for c in calls_at(n):
                callees = res.resolve(fn, c)
                is_writer = any(w.fq == cal.fq for cal in callees for w in writer_funcs)
                if not is_writer and not (is_generic_transfer(fn, c) and fn not in writer_funcs):
                    continue
                if fn in writer_funcs and is_generic_transfer(fn, c):
                    continue
                link_calls_found += 1
                callee = callees[0] if callees else None
                dest = get_arg(c, callee, "to_path", pos=3)
                _check_overwrite(ck, fn, g, n, c, dest, guarded_removers, depth=0)
    ck.floor("C05.overwrite", link_calls_found, 2, "workspace-writing call sites")

    _check_scan(ck, slice_)
    _check_incache(ck)
    _check_linkrecord(ck, slice_)
    _check_links(ck)
    _check_dirtoken(ck)
    from . import round5 as _r5

    _r5.deleted_files_before_dirs(ck, "C05.guard")
    from . import round7 as _r7

    _r7.dir_token_exact(ck, "C05.dirtoken")
    from . import round8 as _r8

    _r8.nanoseconds_exact(ck, "C05.dirtoken")


def _check_overwrite(ck, fn, g, n, c, dest, guarded_removers, depth):
    res = ck.res
    dest_txt = norm(dest) if dest is not None else None

    def removes_same_path(m) -> bool:
        for c2 in calls_at(m):
            for cal in res.resolve(fn, c2):
                if any(cal.fq == r.fq for r in guarded_removers):
                    p = get_arg(c2, cal, "path", pos=0)
                    if p is not None and dest_txt is not None and norm(p) == dest_txt:
                        return True
        return False

    if avoiding_path(g, n.id, removes_same_path) is None:
        ck.ok("C05.overwrite", fn, n, f"write to {dest_txt} is dominated by the guarded removal of the same path")
        return

    def old_oid_false(t, lab) -> bool:
        if t.kind != "test" or lab != "F":
            return False
        for alt in expand(ck.prog, fn, t.ast):
            if ends_with_attrs(alt, "old", "oid"):
                return True
        return False

    if cut(g, [n.id], old_oid_false) is None:
        ck.ok("C05.overwrite", fn, n, f"write to {dest_txt} only where the change has no old object (nothing to overwrite)")
        return
    ck.fail(
        "C05.overwrite",
        fn,
        n,
        f"workspace write to {dest_txt} is neither preceded by the guarded removal of that path nor restricted to changes without an old object",
        witness=g.fmt_path(avoiding_path(g, n.id, removes_same_path) or []),
    )


def _check_incache(ck: Checker) -> None:
    prog = ck.prog
    te = prog.cls("hashfile.diff", "TreeEntry")
    ic = te.methods.get("in_cache")
    if ic is None:
        raise AnalysisError("TreeEntry.in_cache vanished")
    rets = [n for n in walk_own(ic.node) if isinstance(n, ast.Return)]
    okp = len(rets) == 1 and isinstance(rets[0].value, ast.Compare) and norm(rets[0].value) in (
        "self.cache_meta is not None",
        "None is not self.cache_meta",
    )
    ck.require(okp, "C05.incache", ic, rets[0] if rets else ic.node,
               "in_cache is `self.cache_meta is not None`",
               "TreeEntry.in_cache no longer means 'cache_meta is not None' (an integrity-checked lookup succeeded)")

    dfn = prog.func("hashfile.diff", "diff")
    # field order of TreeEntry (attrs class): positional constructor args
    fields = [s.target.id for s in te.node.body if isinstance(s, ast.AnnAssign) and isinstance(s.target, ast.Name)]
    found = 0
    for n in walk_own(dfn.node):
        if isinstance(n, ast.Call) and call_name(n) == "Change":
            for side in ("old", "new"):
                arg = next((k.value for k in n.keywords if k.arg == side), None)
                if arg is None:
                    idx = 0 if side == "old" else 1
                    arg = n.args[idx] if idx < len(n.args) else None
                if arg is None:
                    continue
                alts = [alt for alt in expand(prog, dfn, arg) if isinstance(alt, ast.Call) and call_name(alt) == "TreeEntry"]
                if alts:
                    found += 1
                    verdicts = [_tree_entry_verdict(ck, dfn, alt, fields) for alt in alts]
                    good = [v for v in verdicts if v[0] == "lookup"]
                    bad = [v for v in verdicts if v[0] == "bad"]
                    ck.require(bool(good) and not bad, "C05.incache", dfn, n,
                               f"{side}.cache_meta is the cache lookup of {side}'s own oid (or None when there is no oid)",
                               f"{side} TreeEntry: " + "; ".join(v[1] for v in bad or verdicts) + " - in_cache would describe a different object",
                               construct=f"TreeEntry[{side}] cache_meta / oid")
    ck.floor("C05.incache", found, 2, "TreeEntry constructions inside Change(...) in hashfile.diff.diff")

    # the cache-check helper returns non-None only from cache.check(oid)
    helpers = {}
    for n in walk_own(dfn.node):
        if isinstance(n, ast.Call):
            for cal in ck.res.resolve(dfn, n):
                if cal.module is dfn.module and any(
                    isinstance(x, ast.Call) and is_method_call(x, "check") for x in walk_own(cal.node)
                ):
                    helpers[cal.fq] = cal
    if not helpers:
        # lookup inlined into diff(): the calls to cache.check must be direct
        direct = [x for x in walk_own(dfn.node) if isinstance(x, ast.Call) and is_method_call(x, "check")]
        ck.require(bool(direct), "C05.incache", dfn, dfn.node,
                   "cache lookup is performed directly in diff() through cache.check",
                   "diff() no longer consults cache.check(oid) for the entries' cache_meta")
    for h in helpers.values():
        # memoisation must not outlive one diff() call: the store changes between checkouts
        for dec in h.node.decorator_list:
            d = norm(dec)
            if any(k in d for k in ("cache", "lru_cache", "memoize", "cached")):
                ck.require(h.parent is not None, "C05.incache", h, dec,
                           "memoised cache lookup is a closure of diff(): its memo dies with the call",
                           "memoised cache lookup lives at module/class level: a stale 'in cache' answer survives into later checkouts after the cache changed",
                           construct=f"@{d} def {h.name}")
        for r in [x for x in walk_own(h.node) if isinstance(x, ast.Return)]:
            v = r.value
            if v is None or (isinstance(v, ast.Constant) and v.value is None):
                ck.ok("C05.incache", h, r, "miss path returns None")
                continue
            good = isinstance(v, ast.Call) and is_method_call(v, "check") and v.args and isinstance(v.args[0], ast.Name) and h.has_param(v.args[0].id)
            if good:
                for k in v.keywords:
                    if k.arg == "check_hash" and not (isinstance(k.value, ast.Constant) and k.value.value is True):
                        good = False
                if len(v.args) > 1 and not (isinstance(v.args[1], ast.Constant) and v.args[1].value is True):
                    good = False
            ck.require(good, "C05.incache", h, r,
                       "non-None result is exactly cache.check(<oid parameter>) with hashing enabled",
                       "cache lookup helper can return a non-None value that is not the result of cache.check(oid) (with hash checking)")


def _tree_entry_verdict(ck, dfn, te_call: ast.Call, fields: List[str]):
    """('lookup'|'none'|'bad', text) for one (alias-expanded) TreeEntry(...) construction."""
    def arg(name):
        for k in te_call.keywords:
            if k.arg == name:
                return k.value
        if name in fields and fields.index(name) < len(te_call.args):
            return te_call.args[fields.index(name)]
        return None

    cm, oid = arg("cache_meta"), arg("oid")
    if cm is None or oid is None:
        return "bad", "TreeEntry built without cache_meta/oid"
    if isinstance(cm, ast.Constant) and cm.value is None:
        return "none", "cache_meta None"
    parts = [cm]
    if isinstance(cm, ast.IfExp):
        parts = [cm.body, cm.orelse]
    ok = False
    for part in parts:
        if isinstance(part, ast.Constant) and part.value is None:
            continue
        for sub in walk_expr(part):
            if isinstance(sub, ast.Call) and sub.args:
                a0 = sub.args[0]
                if isinstance(a0, ast.Attribute) and a0.attr == "value" and norm(a0.value) == norm(oid):
                    ok = True
    if ok:
        return "lookup", "cache lookup of own oid"
    return "bad", f"cache_meta ({norm(cm)[:80]}) is not the cache lookup of the same entry's oid ({norm(oid)[:60]})"


def _check_scan(ck: Checker, slice_) -> None:
    """The scan of the current workspace (dry-run build) may only be abandoned because the path does
    not exist: swallowing any other error leaves `old` empty, every entry then counts as 'added' and
    is written without the guarded removal."""
    n = 0
    for fn in slice_:
        g = ck.cfg(fn)
        for nd in g.nodes.values():
            if not any(call_name(c) == "build" for c in calls_at(nd)):
                continue
            hs = [g.nodes[d] for lab, d in nd.succ if lab == "exc" and g.nodes[d].kind == "handler"]
            for h in hs:
                n += 1
                t = h.ast.type
                types = [norm(x).split(".")[-1] for x in (t.elts if isinstance(t, ast.Tuple) else [t])] if t is not None else ["<bare>"]
                r = g.reach([h.id])
                swallows = g.exit in r or any(x != h.id and g.nodes[x].kind not in ("handler",) for x in r if not (g.nodes[x].kind == "stmt" and isinstance(g.nodes[x].ast, ast.Raise)))
                reraises_only = all(g.nodes[x].kind in ("handler",) or (g.nodes[x].kind == "stmt" and isinstance(g.nodes[x].ast, ast.Raise)) or x == g.raise_exit for x in r)
                ck.require(reraises_only or set(types) <= {"FileNotFoundError"}, "C05.scan", fn, h,
                           "the workspace scan is abandoned only when the path does not exist",
                           f"errors {types} from scanning the workspace are swallowed: the current content is then treated as absent and overwritten without the removal guard")
                if not reraises_only and set(types) <= {"FileNotFoundError"}:
                    # FileNotFoundError is also what a broken symlink *inside* an existing directory raises:
                    # carrying on is only sound across "the path itself does not exist"
                    def absent_edge(a, lab, b):
                        if lab == "exc":
                            return True
                        if a.kind != "test" or not isinstance(a.ast, ast.Call):
                            return False
                        nm = call_name(a.ast) or ""
                        return nm in ("exists", "lexists", "isdir") and lab == "F"

                    r2 = g.reach([h.id], skip_edge=absent_edge)
                    going_on = [x for x in r2 if x != h.id and g.nodes[x].kind == "stmt" and not isinstance(g.nodes[x].ast, (ast.Raise, ast.Pass))] + ([g.exit] if g.exit in r2 else [])
                    ck.require(not going_on, "C05.scan", fn, h,
                               "after a failed scan the checkout carries on only if the path itself does not exist",
                               "a FileNotFoundError raised from inside an existing workspace directory (e.g. a broken symlink) is taken for 'nothing there yet': every entry becomes an add and modified, uncached user files are overwritten without force or prompt",
                               construct=f"{h.text()[:40]} / only when absent")
    ck.floor("C05.scan", n, 1, "handlers around the workspace scan (build) in the checkout slice")


def _check_linkrecord(ck: Checker, slice_) -> None:
    """The (inode, mtime-token) recorded for the checked-out path must be computed from what
    checkout itself observed - the diff plus the mtimes of the files it just wrote - not from a
    fresh walk (which would absorb a concurrent user edit into the 'unmodified' record)."""
    prog, res = ck.prog, ck.res
    n_sites = 0
    for fn in slice_:
        for c, _cal in res.calls_in(fn):
            if not is_method_call(c, "set_link"):
                continue
            n_sites += 1
            mt = get_arg(c, None, "mtime", pos=2)
            ok = False
            why = "no mtime argument"
            if mt is not None:
                for alt in expand(prog, fn, mt):
                    why = norm(alt)
                    if isinstance(alt, ast.Call):
                        argnames = set()
                        for a in list(alt.args) + [k.value for k in alt.keywords]:
                            argnames |= {x.id for x in walk_expr(a) if isinstance(x, ast.Name)}
                        # both the diff result and the freshly written files' mtimes feed the token
                        origins = set()
                        for nm in argnames:
                            if fn.has_param(nm):
                                for ofn, oe in res.param_origins(fn, nm):
                                    origins.add((ofn.qual, norm(oe)))
                        has_diff = any("diff" == t or t.endswith(".diff") or t == "diff" for _q, t in origins) or "diff" in argnames
                        has_written = any(("mtime" in t) or t == "{}" for _q, t in origins)
                        for q, t in origins:
                            of = next((f for f in slice_ if f.qual == q), None)
                            if of is not None and t.isidentifier() and is_accumulator(of, t):
                                has_written = True
                        ok = has_diff and has_written
            ck.require(ok, "C05.linkrecord", fn, c,
                       "link record's mtime token is computed from the diff and the mtimes of the files checkout wrote",
                       f"link record's mtime token ({why}) is not derived from the diff / written-file mtimes that checkout observed (a fresh walk records concurrent user edits as 'unmodified')")
    ck.floor("C05.linkrecord", n_sites, 1, "set_link call sites in the checkout slice")


def _check_links(ck: Checker) -> None:
    prog = ck.prog
    fn = prog.func("hashfile.state", "State.get_unused_links")
    g = ck.cfg(fn)
    # the list that is returned
    ret_names = {norm(r.value) for r in walk_own(fn.node) if isinstance(r, ast.Return) and isinstance(r.value, ast.Name)}
    sinks = []
    for n in g.nodes.values():
        for c in calls_at(n):
            if is_method_call(c, "append", "add", "extend", "insert") and norm(c.func.value) in ret_names:
                sinks.append((n, c))
    ck.floor("C05.links", len(sinks), 1, "appends to the returned list in get_unused_links")
    # nothing else is ever returned: every return hands out the guarded accumulator or an empty list
    acc = {norm(c.func.value) for _, c in sinks}
    for r in walk_own(fn.node):
        if isinstance(r, ast.Return) and r.value is not None:
            v = r.value
            empty = (isinstance(v, (ast.List, ast.Tuple, ast.Set)) and not v.elts) or (isinstance(v, ast.Call) and isinstance(v.func, ast.Name) and v.func.id in ("list", "set", "tuple") and not v.args)
            okr = empty or (isinstance(v, ast.Name) and v.id in acc and all(d.kind != "assign" or (isinstance(d.value, (ast.List,)) and not d.value.elts) or (isinstance(d.value, ast.Call) and norm(d.value) == "list()") for d in scope_of(fn).get(v.id)))
            ck.require(okr, "C05.links", fn, r, "a link is reported unused only through the guarded accumulator",
                       f"`return {norm(v)[:60]}` reports links as unused without the per-link checks (not in use, still there, unmodified since recorded): remove_links then deletes workspace files that were modified after checkout",
                       construct=f"return {norm(v)[:50]} / guarded result only")

    def lit_not_used(t, lab):
        e = t.ast
        return t.kind == "test" and lab == "F" and isinstance(e, ast.Compare) and len(e.ops) == 1 and isinstance(e.ops[0], ast.In) and norm(e.comparators[0]) == "used"

    def lit_not_used_neg(t, lab):
        e = t.ast
        return t.kind == "test" and lab == "T" and isinstance(e, ast.Compare) and len(e.ops) == 1 and isinstance(e.ops[0], ast.NotIn) and norm(e.comparators[0]) == "used"

    def lit_exists(t, lab):
        e = t.ast
        return t.kind == "test" and lab == "T" and isinstance(e, ast.Call) and is_method_call(e, "exists", "lexists")

    def lit_record(t, lab):
        e = t.ast
        if not (t.kind == "test" and isinstance(e, ast.Compare) and len(e.ops) == 1):
            return False
        if isinstance(e.ops[0], ast.Eq) and lab != "T":
            return False
        if isinstance(e.ops[0], ast.NotEq) and lab != "F":
            return False
        if not isinstance(e.ops[0], (ast.Eq, ast.NotEq)):
            return False
        sides = [e.left, e.comparators[0]]
        has_rec = any(isinstance(s, ast.Subscript) for s in sides)
        fresh = False
        for s in sides:
            for alt in expand(prog, fn, s):
                if isinstance(alt, ast.Tuple) and len(alt.elts) == 2:
                    txt = norm(alt)
                    if ("get_inode(" in txt or "inode(" in txt) and "get_mtime_and_size(" in txt:
                        fresh = True
        return has_rec and fresh

    for n, c in sinks:
        for name, lit in (("path not in used", lambda t, l: lit_not_used(t, l) or lit_not_used_neg(t, l)),
                          ("fs.exists(path)", lit_exists),
                          ("stored record == freshly computed (inode, mtime)", lit_record)):
            wit = cut(g, [n.id], lit)
            ck.require(wit is None, "C05.links", fn, n,
                       f"append happens only across '{name}'",
                       f"a link can be reported unused without passing '{name}'",
                       witness=g.fmt_path(wit) if wit else None,
                       construct=f"{n.text()} / {name}")
        # appended value is a key of the link table itself
        val = c.args[0] if c.args else None
        okv = False
        if val is not None:
            for alt in expand(prog, fn, val):
                if is_marker(alt, ELEM):
                    src = alt.args[0]
                    for a2 in expand(prog, fn, src):
                        if "self.links" in norm(a2):
                            okv = True
        ck.require(okv, "C05.links", fn, n,
                   "reported paths are keys iterated from the link table (self.links)",
                   "a reported 'unused link' is not a key drawn from the link table",
                   construct=f"{n.text()} / provenance")

    # the path looked up in `used` is spelled like the caller's paths: join(self.root_dir, key) with the root exactly
    # as configured (set_link stores relpath(path, self.root_dir)); a normalised / resolved root changes the spelling
    from ..prov import expand_txt

    uparam = "used" if fn.has_param("used") else fn.pos_params[1]
    n_in = 0
    for t in g.nodes.values():
        e = t.ast
        if t.kind == "test" and isinstance(e, ast.Compare) and len(e.ops) == 1 and isinstance(e.ops[0], (ast.In, ast.NotIn)) and norm(e.comparators[0]) == uparam:
            n_in += 1
            alts = expand_txt(prog, fn, e.left)
            okp = bool(alts) and all(a.startswith(("os.path.join(self.root_dir, ", "fs.join(self.root_dir, ", "fs.path.join(self.root_dir, ")) for a in alts)
            ck.require(okp, "C05.links", fn, t, "the path compared with the caller's used paths is join(self.root_dir, key)",
                       f"the path compared with the caller's `used` paths is {alts}: it is not join(self.root_dir, key) with the root as configured (e.g. a resolved root), so when the workspace is reached through a symlink the spelling differs from the caller's and links that are in use are reported unused and deleted",
                       construct=f"{norm(e)} / spelling")
    ck.floor("C05.links", n_in, 1, "membership tests against the used paths in get_unused_links")

    rm = prog.func("hashfile.state", "State.remove_links")
    g2 = ck.cfg(rm)
    nrm = 0
    for n in g2.nodes.values():
        for c in calls_at(n):
            k = destructive_kind(prog, rm, c)
            if not k:
                continue
            nrm += 1
            a0 = c.args[0] if c.args else None
            ok = False
            if a0 is not None:
                for alt in expand(prog, rm, a0):
                    # os.path.join(self.root_dir, <elem of unused>)
                    elems = [x for x in walk_expr(alt) if is_marker(x, ELEM)]
                    if elems and all(norm(x.args[0]) == "unused" for x in elems) and "root_dir" in norm(alt):
                        ok = True
            ck.require(ok, "C05.links", rm, n,
                       "removes exactly join(root_dir, p) for p in the `unused` argument",
                       f"remove_links deletes a path that is not derived from its `unused` argument: {norm(a0) if a0 is not None else '?'}")
    ck.floor("C05.links", nrm, 1, "removal calls in remove_links")


def _check_dirtoken(ck: Checker) -> None:
    prog = ck.prog
    fn = prog.func("hashfile.utils", "get_mtime_and_size")
    g = ck.cfg(fn)
    loops = [n for n in g.nodes.values() if n.kind == "for"]
    ck.floor("C05.dirtoken", len(loops), 1, "walk loops in get_mtime_and_size")
    for head in loops:
        body = [n for n in g.nodes.values() if head.id in n.loops and n.id != head.id]
        stores = []
        for n in body:
            a = n.ast
            if n.kind == "stmt" and isinstance(a, ast.Assign) and isinstance(a.targets[0], ast.Subscript):
                key = a.targets[0].slice
                if any(is_marker(x, ELEM) for alt in expand(prog, fn, key) for x in [alt]):
                    stores.append(n)
        if not stores:
            ck.fail("C05.dirtoken", fn, head, "the walk loop no longer records path -> mtime for the files it visits")
            continue
        must = {s.id for s in stores}

        def enoent_skip(n, lab, d):
            # the only tolerated skip: `continue` reached inside an except handler (ENOENT / broken symlink)
            return lab == "exc"

        from ..an import escapes_without

        # from loop-body entry, every path back to the header passes the store, except via handler
        wit = None
        for lab, d in head.succ:
            if lab != "T":
                continue
            reached = g.reach([d], skip_node=lambda x: x.id in must, skip_edge=lambda a, l, b: l == "exc")
            if head.id in reached:
                wit = g.path_to(reached, head.id)
            elif d == head.id:
                wit = [(head.id, "T")]
        ck.require(wit is None, "C05.dirtoken", fn, head,
                   "every walked file contributes its (path, mtime) to the directory token (only an OSError handler may skip)",
                   "a walked file can be skipped on a normal path, so modifying it does not change the directory's token",
                   witness=g.fmt_path(wit) if wit else None)
        # handler may only skip ENOENT
        for n in body:
            if n.kind == "handler":
                t = norm(n.ast.type) if n.ast.type is not None else ""
                txt = " ".join(norm(s) for s in n.ast.body)
                ok = "ENOENT" in txt and "raise" in txt
                ck.require(ok, "C05.dirtoken", fn, n,
                           "the skipping handler re-raises everything but ENOENT",
                           "the handler that skips a file swallows errors other than ENOENT")
