"""Structural clauses added after the seventh round (breaking changes in *secondary* places: helpers, data
classes, modules the main functions merely call into).  Each is called from the property modules it belongs to."""
from __future__ import annotations

import ast

from ..an import avoiding_path, is_method_call, reaching_defs, yields_at
from ..cfg import calls_at
from ..core import Checker
from ..loader import norm, walk_expr, walk_own
from ..prov import call_name, get_arg, scope_of


def meta_from_info_own_keys(ck: Checker, rule: str) -> None:
    """Meta.from_info: a digest-carrying field is filled from the info key of the same algorithm only.  `_hash_file`
    trusts `getattr(meta, name)` as the digest for algorithm `name`: a field that may also carry another algorithm's
    value (md5 <- info['md5-dos2unix']) files content under a foreign digest."""
    fn = ck.prog.func("hashfile.meta", "Meta.from_info")
    cls = ck.prog.cls("hashfile.meta", "Meta")
    fields = [s.target.id for s in cls.node.body if isinstance(s, ast.AnnAssign) and isinstance(s.target, ast.Name) and not s.target.id.startswith("PARAM") and s.target.id not in ("fields",)]
    rets = [r.value for r in walk_own(fn.node) if isinstance(r, ast.Return) and isinstance(r.value, ast.Call) and call_name(r.value) in ("Meta", "cls")]
    ck.floor(rule, len(rets), 1, "Meta(...) constructions returned by Meta.from_info")
    for c in rets:
        for fname, algo_keys in (("md5", {"md5"}),):
            idx = fields.index(fname) if fname in fields else None
            v = get_arg(c, None, fname, idx)
            if v is None:
                continue
            alts = [v]
            if isinstance(v, ast.Name):
                alts = [d.value for d in scope_of(fn).get(v.id) if d.kind == "assign" and d.value is not None] or [v]
            keys = set()
            for a in alts:
                for x in walk_expr(a):
                    if isinstance(x, ast.Constant) and isinstance(x.value, str) and (isinstance(a, ast.Constant) is False):
                        keys.add(x.value)
            foreign = {k for k in keys if k not in algo_keys and ("md5" in k.lower() or "sha" in k.lower() or "hash" in k.lower() or "checksum" in k.lower() or "etag" in k.lower())}
            ck.require(not foreign, rule, fn, c, f"Meta.{fname} is read from the info key '{fname}' only",
                       f"Meta.{fname} can be filled from {sorted(foreign)}: `_hash_file` returns getattr(meta, name) as the digest for algorithm `name`, so a value computed by another algorithm (e.g. the text-normalising legacy md5) is taken for the plain digest and the content is filed under a name that is not its hash",
                       construct=f"Meta.from_info / {fname} source")


def collect_every_entry(ck: Checker, rule: str) -> None:
    """index.collect._collect_from_index: every entry below the prefix whose storage key resolves is copied into the
    collection cache - the only way round is the storage's own "not mine" (`get_key` raising ValueError).  An entry
    left out is never requested from transfer(), so neither sent nor counted as missing / failed."""
    fn = ck.prog.func("index.collect", "_collect_from_index")
    g = ck.cfg(fn)
    loops = [h for h in g.nodes.values() if h.kind == "for" and isinstance(h.ast.iter, ast.Call) and is_method_call(h.ast.iter, "iteritems", "items") and len(h.loops) == 1]
    ck.floor(rule, len(loops), 1, "entry loops in _collect_from_index")
    h = loops[0]
    stores = {n.id for n in g.nodes.values() if h.id in n.loops and n.kind == "stmt" and isinstance(n.ast, ast.Assign) and isinstance(n.ast.targets[0], ast.Subscript)
              and isinstance(n.ast.value, ast.Call) and call_name(n.ast.value) == "DataIndexEntry"}
    ck.floor(rule, len(stores), 1, "entries recorded per iteration in _collect_from_index")
    # handler of get_key's ValueError: the accepted skip
    ok_handlers = {x.id for x in g.nodes.values() if x.kind == "handler" and h.id in x.loops and "ValueError" in norm(x.ast.type) if x.ast.type is not None}
    r = g.reach([d for lab, d in h.succ if lab == "T"], skip_node=lambda x: x.id in stores or x.id in ok_handlers, skip_edge=lambda a, l, b: False)
    bad = h.id in r
    ck.require(not bad, rule, fn, h, "every entry whose storage key resolves is recorded in the collection cache",
               "an entry can be skipped by the collection loop for a reason other than `storage.get_key(entry)` raising ValueError (e.g. 'not in the local cache'): it is then never requested from transfer(), so a directory that lists it is uploaded without it and nothing is reported as missing or failed",
               witness=g.fmt_path(g.path_to(r, h.id)) if bad else None, construct="for _, entry in index.iteritems(prefix) / every entry recorded")


def dir_token_exact(ck: Checker, rule: str) -> None:
    """hashfile.utils._tokenize_mtimes: the directory token is a digest of the path -> mtime table as given (full
    precision).  Rounding the mtimes makes an edit within the same second invisible to the link clean-up, which then
    treats a modified directory as 'unmodified since recorded' and deletes it."""
    fn = ck.prog.func("hashfile.utils", "_tokenize_mtimes")
    p0 = fn.pos_params[0]
    dumps = [c for c in walk_own(fn.node) if isinstance(c, ast.Call) and call_name(c) in ("dumps", "json_dumps") and c.args]
    ck.floor(rule, len(dumps), 1, "serialisations in _tokenize_mtimes")
    for c in dumps:
        a = c.args[0]
        alts = [a]
        if isinstance(a, ast.Name) and a.id != p0:
            alts = [d.value for d in scope_of(fn).get(a.id) if d.kind in ("assign", "annassign") and d.value is not None]
        ok = bool(alts) and all(isinstance(x, ast.Name) and x.id == p0 or (isinstance(x, ast.Call) and call_name(x) in ("dict", "sorted") and x.args and norm(x.args[0]) in (p0, f"{p0}.items()")) for x in alts)
        ck.require(ok, rule, fn, c, "the token is computed from the mtime table exactly as recorded",
                   f"the directory token is computed from `{norm(alts[0])[:60] if alts else '?'}` rather than from the recorded path -> mtime table itself: a lossy transformation (whole seconds, rounding) makes a later in-place edit indistinguishable from the recorded state, and the link clean-up deletes the modified directory",
                   construct=f"{norm(c)[:50]} / exact table")


def ensure_loaded_by_kind(ck: Checker, rule: str) -> None:
    """DataIndex._ensure_loaded / _load: whether a directory entry still has to be loaded is decided from its kind
    (meta.isdir) and its loaded flag - not from its hash.  Directory entries without a hash (file-storage backed,
    intermediate directories) must be loaded as well when listed."""
    for q in ("DataIndex._ensure_loaded", "DataIndex._load"):
        fn = ck.prog.func("index.index", q)
        g = ck.cfg(fn)
        loads = [n for n in g.nodes.values() for c in calls_at(n) if (is_method_call(c, "_load") and norm(c.func.value) == "self") or call_name(c) == "_load_from_storage"]
        ck.floor(rule, len(loads), 1, f"load calls in {q}")
        for n in loads:
            # reachable without learning anything about hash_info being set?
            r = g.reach([g.entry], skip_edge=lambda a, l, b: l == "exc" or (a.kind == "test" and "hash_info" in norm(a.ast) and ((l == "T") != norm(a.ast).startswith("not "))))
            ck.require(n.id in r, rule, fn, n, "a directory entry is loaded whether or not it carries a hash",
                       f"in {q} the load is reached only for entries that have a hash (`hash_info`): an unhashed directory entry (file-storage backed index, intermediate directory) is listed without being loaded, so its children are missing from listings and diffs",
                       construct=f"{n.text()[:40]} / not conditioned on hash_info")


def build_entries_every_name(ck: Checker, rule: str) -> None:
    """index.build.build_entries: an entry is yielded for every name the walk reports - also for names whose stat
    failed (dangling symlinks).  What the workspace index does not contain can be neither deleted nor replaced."""
    fn = ck.prog.func("index.build", "build_entries")
    g = ck.cfg(fn)
    inner = [h for h in g.nodes.values() if h.kind == "for" and len(h.loops) == 2]
    ck.floor(rule, len(inner), 1, "per-name loops in build_entries")
    for h in inner:
        ys = {n.id for n in g.nodes.values() if h.id in n.loops and yields_at(n)}
        r = g.reach([d for lab, d in h.succ if lab == "T"], skip_node=lambda x: x.id in ys, skip_edge=lambda a, l, b: l == "exc")
        bad = h.id in r
        ck.require(bool(ys) and not bad, rule, fn, h, "every walked name yields a workspace entry",
                   "a walked name can pass through build_entries without an entry being yielded (e.g. names whose stat failed - dangling symlinks - are dropped): compare() never sees it, so it is neither deleted with delete=True nor removed when a target entry needs its path, and the second compare is not empty",
                   witness=g.fmt_path(g.path_to(r, h.id)) if bad else None, construct=f"for {norm(h.ast.target)} in ... / every name yielded")


def state_hit_full_meta(ck: Checker, rule: str) -> None:
    """State._get: the metadata served with a cached hash is Meta.from_info(<the stat the lookup was made with>) -
    the full stat, including the link facts (is_link, destination, nlink) checkout's relink decision reads."""
    fn = ck.prog.func("hashfile.state", "State._get")
    g = ck.cfg(fn)
    info_p = "info" if fn.has_param("info") else fn.pos_params[-1]
    n_r = 0
    for r in g.nodes.values():
        if not (r.kind == "stmt" and isinstance(r.ast, ast.Return) and isinstance(r.ast.value, ast.Tuple) and len(r.ast.value.elts) == 2):
            continue
        n_r += 1
        m = r.ast.value.elts[0]
        srcs = [m]
        if isinstance(m, ast.Name):
            srcs = [getattr(d.ast, "value", None) for d in reaching_defs(g, r.id, m.id) if isinstance(d.ast, (ast.Assign, ast.AnnAssign)) and isinstance((d.ast.targets[0] if isinstance(d.ast, ast.Assign) else d.ast.target), ast.Name)]
        ok = bool(srcs) and all(isinstance(s, ast.Call) and norm(s.func) in ("Meta.from_info",) and s.args and norm(s.args[0]) == info_p or (isinstance(s, ast.Call) and norm(s.func) == "Meta.from_info" and any(k.arg == "info" and norm(k.value) == info_p for k in s.keywords)) for s in srcs)
        ck.require(ok, rule, fn, r, "a state hit serves Meta.from_info(info) of the stat it was looked up with",
                   f"a state hit serves metadata built as `{norm(srcs[0])[:60] if srcs and srcs[0] is not None else '?'}`, not Meta.from_info({info_p}): fields the stat carries (is_link, destination, nlink ...) are lost, so a workspace file whose hash comes from the state looks like an independent copy and a relinking checkout leaves links into the cache in place",
                   construct=f"{r.text()[:40]} / full stat metadata")
    ck.floor(rule, n_r, 1, "(meta, hash) returns of State._get")


def on_error_names_oid(ck: Checker, rule: str) -> None:
    """HashFileDB.add: the post-copy handler reports the failing object by its *oid* (the loop's key), which is what
    transfer's failure set is keyed by - not by its path in the store."""
    fn = ck.prog.func("hashfile.db", "HashFileDB.add")
    g = ck.cfg(fn)
    from ..an import value_alts as _va

    def _is_report(n, c) -> bool:
        # on_error(...) itself, or a local that stands for it (`cb = None if already_failed else on_error`)
        return isinstance(c.func, ast.Name) and (c.func.id == "on_error" or (not fn.has_param(c.func.id) and c.func.id not in fn.children
                                                                              and any(isinstance(a_, ast.Name) and a_.id == "on_error" for a_ in _va(g, n, c.func, depth=3))))

    reps = [(n, c) for n in g.nodes.values() for c in calls_at(n) if _is_report(n, c) and n.loops]
    ck.floor(rule, len(reps), 1, "on_error calls in the post-copy loop of HashFileDB.add")
    for n, c in reps:
        h = g.nodes[n.loops[-1]]
        tgt = h.ast.target
        key = tgt.elts[0] if isinstance(tgt, (ast.Tuple, ast.List)) and tgt.elts else tgt
        a0 = c.args[0] if c.args else None
        # a loop over `.items()` binds (oid, path); a loop over the oids binds the oid
        it = h.ast.iter
        over_items = isinstance(it, ast.Call) and is_method_call(it, "items")
        ok = a0 is not None and norm(a0) == norm(key) and (over_items or not isinstance(tgt, (ast.Tuple, ast.List)))
        if ok and over_items:
            # the dict must be keyed by oid: {o: self.oid_to_path(o) for o in oids}
            src = it.func.value
            if isinstance(src, ast.Name):
                ds = [d for d in scope_of(fn).get(src.id) if d.kind in ("assign", "annassign") and isinstance(d.value, ast.DictComp)]
                if ds:
                    dc = ds[0].value
                    ok = isinstance(dc.key, ast.Name) and dc.key.id == norm(dc.generators[0].target) and "oid_to_path" in norm(dc.value)
        ck.require(ok, rule, fn, n, "a rejected object is reported under its oid",
                   f"`{norm(c)[:50]}` reports the rejected object as `{norm(a0) if a0 is not None else '?'}` instead of its oid: transfer() records a failure under an id nobody asked for, so the real object counts as transferred and a directory that shares it is sent although the file is absent",
                   construct=f"{norm(c)[:40]} / names the oid")


def protect_always_chmods(ck: Checker, rule: str) -> None:
    """LocalHashFileDB.protect: every normal path changes the mode (a failing chmod may be tolerated, skipping it may
    not): an intact object that is never marked read-only is re-hashed on every query and never 'trusted'."""
    fn = ck.prog.func("hashfile.db.local", "LocalHashFileDB.protect")
    g = ck.cfg(fn)
    ch = {n.id for n in g.nodes.values() for c in calls_at(n) if call_name(c) == "chmod"}
    ck.floor(rule, len(ch), 1, "chmod calls in LocalHashFileDB.protect")
    r = g.reach([g.entry], skip_node=lambda x: x.id in ch, skip_edge=lambda a, l, b: l == "exc")
    ck.require(g.exit not in r, rule, fn, fn.node, "protect changes the mode on every normal path",
               "LocalHashFileDB.protect can return without changing the mode (e.g. for a store opened read-only): objects that passed the integrity check are never marked, so they stay writable and are re-hashed by every later existence query",
               witness=g.fmt_path(g.path_to(r, g.exit)) if g.exit in r else None, construct="protect / always chmod")


def exists_missing_only_by_check(ck: Checker, rule: str) -> None:
    """LocalHashFileDB.oids_exist: an oid is answered 'missing' only because check() raised for it - never from cached
    knowledge about the store's layout (another handle / process may have added the object meanwhile)."""
    fn = ck.prog.func("hashfile.db.local", "LocalHashFileDB.oids_exist")
    g = ck.cfg(fn)
    loops = [h for h in g.nodes.values() if h.kind == "for" and len(h.loops) == 1]
    ck.floor(rule, len(loops), 1, "per-oid loop in oids_exist")
    for h in loops:
        lv = norm(h.ast.target)
        chk = {n.id for n in g.nodes.values() if h.id in n.loops for c in calls_at(n) if is_method_call(c, "check") and norm(c.func.value) == "self" and c.args and norm(c.args[0]) == lv}
        r = g.reach([d for lab, d in h.succ if lab == "T"], skip_node=lambda x: x.id in chk, skip_edge=lambda a, l, b: False)
        bad = h.id in r
        ck.require(bool(chk) and not bad, rule, fn, h, "every queried oid goes through check()",
                   "an oid can be answered 'missing' without check() having been asked (e.g. because its prefix directory is not in a cached listing): an object added through another handle or process is reported absent and is needlessly re-sent / reported as missing",
                   witness=g.fmt_path(g.path_to(r, h.id)) if bad else None, construct=f"for {lv} in ... / always checked")


def view_loads_only_unloaded(ck: Checker, rule: str) -> None:
    """DataIndexView._load_dir_keys: the keys of a directory are yielded by this helper only when it has just loaded
    the directory (`not entry.loaded`): for an already loaded directory the trie traversal yields them itself, and
    yielding them here as well duplicates every child on the second and later passes."""
    fn = ck.prog.func("index.view", "DataIndexView._load_dir_keys")
    g = ck.cfg(fn)
    ys = [n for n in g.nodes.values() if yields_at(n)]
    ck.floor(rule, len(ys), 1, "yields in _load_dir_keys")

    def unloaded(a, lab):
        if a.kind != "test":
            return False
        t = norm(a.ast)
        return (t.endswith(".loaded") and not t.startswith("not ") and lab == "F") or (t.startswith("not ") and t.endswith(".loaded") and lab == "T")

    from ..an import cut

    for y in ys:
        w = cut(g, [y.id], unloaded)
        ck.require(w is None, rule, fn, y, "children are yielded here only for a directory that was not loaded yet",
                   "the children of a directory are yielded by the in-place-load helper even when the directory was already loaded: the traversal yields them too, so from the second pass on every child of a loaded directory appears twice in the view",
                   witness=g.fmt_path(w) if w else None, construct=f"{y.text()[:40]} / only when just loaded")


def from_list_splits_raw_relpath(ck: Checker, rule: str) -> None:
    """Tree.from_list: the key tuple is the stored relative path split on the separator as stored - the reader applies
    no rewriting of the string the writer joined (a literal backslash is a legal POSIX file-name character)."""
    fn = ck.prog.func("hashfile.tree", "Tree.from_list")
    sp = [c for c in walk_own(fn.node) if isinstance(c, ast.Call) and is_method_call(c, "split", "rsplit")]
    ck.floor(rule, len(sp), 1, "split of the stored relative path in Tree.from_list")
    for c in sp:
        recv = c.func.value
        ok = False
        if isinstance(recv, ast.Name):
            ds = [d for d in scope_of(fn).get(recv.id) if d.kind in ("assign", "annassign")]
            ok = bool(ds) and all(isinstance(d.value, (ast.Call, ast.Subscript)) and (is_method_call(d.value, "pop", "get") if isinstance(d.value, ast.Call) else True) for d in ds)
        elif isinstance(recv, ast.Call) and is_method_call(recv, "pop", "get"):
            ok = True
        elif isinstance(recv, ast.Subscript):
            ok = True
        ck.require(ok, rule, fn, c, "the stored relative path is split as stored",
                   f"the key is derived from `{norm(recv)[:50]}`, a rewritten form of the stored relative path (e.g. backslashes replaced): a file whose name contains such a character comes back under a different key than the one that was written - an entry is renamed, or merged into another",
                   construct=f"{norm(c)[:50]} / raw relpath")


def failed_copy_never_trusted(ck: Checker, rule: str) -> None:
    """HashFileDB.add: an object whose copy was reported as failed is re-hashed (check with hashing on) before it can be
    write-protected - whatever the verify setting.  dvc_objects' batched copy reports a broken download through on_error
    from inside its atomic-write block, so truncated bytes can sit under the object's final name."""
    fn = ck.prog.func("hashfile.db", "HashFileDB.add")
    g = ck.cfg(fn)
    # sets filled by a local on_error wrapper with the failing oid
    failed = set()
    for child in fn.children.values():
        for x in walk_own(child.node):
            if isinstance(x, ast.Call) and is_method_call(x, "add") and x.args and isinstance(x.args[0], ast.Name) and child.has_param(x.args[0].id) and isinstance(x.func.value, ast.Name):
                failed.add(x.func.value.id)
    sup = [c for n in g.nodes.values() for c in calls_at(n) if isinstance(c.func, ast.Attribute) and c.func.attr == "add" and norm(c.func.value).startswith("super(")]
    # the wrapper is what the delegated add reports to (possibly `None if on_error is None else wrapper`)
    wrappers = set(fn.children)
    for _ in range(3):
        # `record_error = None; if on_error is not None: def _wrap(...); record_error = _wrap`: a local that holds the wrapper
        for a in walk_own(fn.node):
            if isinstance(a, (ast.Assign, ast.AnnAssign)) and getattr(a, "value", None) is not None and any(isinstance(x, ast.Name) and x.id in wrappers for x in walk_expr(a.value)) \
                    and not any(isinstance(x, ast.Call) for x in walk_expr(a.value)):
                wrappers |= {t.id for t in (a.targets if isinstance(a, ast.Assign) else [a.target]) if isinstance(t, ast.Name)}
    wrapped = any(any(isinstance(x, ast.Name) and x.id in wrappers for x in walk_expr(k.value)) for c in sup for k in c.keywords if k.arg == "on_error")
    prots = [n for n in g.nodes.values() for c in calls_at(n) if is_method_call(c, "protect") and norm(c.func.value) == "self" and n.loops]
    ck.floor(rule, len(prots), 1, "per-object protect in HashFileDB.add")
    for n in prots:
        h = g.nodes[n.loops[-1]]
        chk = {m.id for m in g.nodes.values() if h.id in m.loops for c2 in calls_at(m) if is_method_call(c2, "check") and norm(c2.func.value) == "self"
               and not any(k.arg == "check_hash" and isinstance(k.value, ast.Constant) and k.value.value is False for k in c2.keywords)}

        def not_failed(a, lab, b):
            if lab == "exc":
                return True
            e = a.ast
            if a.kind == "test" and isinstance(e, ast.Compare) and len(e.ops) == 1 and isinstance(e.ops[0], (ast.In, ast.NotIn)) and norm(e.comparators[0]) in failed:
                return (isinstance(e.ops[0], ast.In) and lab == "F") or (isinstance(e.ops[0], ast.NotIn) and lab == "T")
            return False

        from ..an import with_flags as _wf

        lifted = _wf(g, lambda a, lab: lab != "exc" and not_failed(a, lab, None), start=h.id)
        r = g.reach([d for lab, d in h.succ if lab == "T"], skip_node=lambda x: x.id in chk, skip_edge=lambda a, lab, b: not_failed(a, lab, b) or lifted(a, lab))
        ok = bool(failed) and wrapped and n.id not in r
        ck.require(ok, rule, fn, n, "an object whose copy was reported as failed is re-hashed before it may be protected",
                   "an object whose copy was reported as failed can still be write-protected without being re-hashed (verification off): a truncated download that the copy left under the object's final name becomes a trusted object that no later integrity check examines",
                   construct=f"{n.text()[:40]} / failed copies re-hashed")
