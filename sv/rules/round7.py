"""Structural clauses added after the seventh round (breaking changes in *secondary* places: helpers, data
classes, modules the main functions merely call into).  Each is called from the property modules it belongs to."""
from __future__ import annotations

import ast

from ..an import avoiding_path, is_method_call, reaching_defs, yields_at
from ..cfg import calls_at
from ..core import Checker
from ..loader import norm, walk_expr, walk_own
from ..prov import call_name, get_arg, scope_of


def meta_from_info_own_keys(ck: Checker, rule: str) -> None:
    """Meta.from_info: a digest-carrying field is filled from the info key of the same algorithm only.  `_hash_file`
    trusts `getattr(meta, name)` as the digest for algorithm `name`: a field that may also carry another algorithm's
    value (md5 <- info['md5-dos2unix']) files content under a foreign digest."""
    fn = ck.prog.func("hashfile.meta", "Meta.from_info")
    cls = ck.prog.cls("hashfile.meta", "Meta")
    fields = [s.target.id for s in cls.node.body if isinstance(s, ast.AnnAssign) and isinstance(s.target, ast.Name) and not s.target.id.startswith("PARAM") and s.target.id not in ("fields",)]
    rets = [r.value for r in walk_own(fn.node) if isinstance(r, ast.Return) and isinstance(r.value, ast.Call) and call_name(r.value) in ("Meta", "cls")]
    ck.floor(rule, len(rets), 1, "Meta(...) constructions returned by Meta.from_info")
    for c in rets:
        for fname, algo_keys in (("md5", {"md5"}),):
            idx = fields.index(fname) if fname in fields else None
            v = get_arg(c, None, fname, idx)
            if v is None:
                continue
            alts = [v]
            if isinstance(v, ast.Name):
                alts = [d.value for d in scope_of(fn).get(v.id) if d.kind == "assign" and d.value is not None] or [v]
            keys = set()
            for a in alts:
                for x in walk_expr(a):
                    if isinstance(x, ast.Constant) and isinstance(x.value, str) and (isinstance(a, ast.Constant) is False):
                        keys.add(x.value)
            foreign = {k for k in keys if k not in algo_keys and ("md5" in k.lower() or "sha" in k.lower() or "hash" in k.lower() or "checksum" in k.lower() or "etag" in k.lower())}
            ck.require(not foreign, rule, fn, c, f"Meta.{fname} is read from the info key '{fname}' only",
                       f"Meta.{fname} can be filled from {sorted(foreign)}: `_hash_file` returns getattr(meta, name) as the digest for algorithm `name`, so a value computed by another algorithm (e.g. the text-normalising legacy md5) is taken for the plain digest and the content is filed under a name that is not its hash",
                       construct=f"Meta.from_info / {fname} source")


def collect_every_entry(ck: Checker, rule: str) -> None:
    """index.collect._collect_from_index: every entry below the prefix whose storage key resolves is copied into the
    collection cache - the only way round is the storage's own "not mine" (`get_key` raising ValueError).  An entry
    left out is never requested from transfer(), so neither sent nor counted as missing / failed."""
    fn = ck.prog.func("index.collect", "_collect_from_index")
    g = ck.cfg(fn)
    loops = [h for h in g.nodes.values() if h.kind == "for" and isinstance(h.ast.iter, ast.Call) and is_method_call(h.ast.iter, "iteritems", "items") and len(h.loops) == 1]
    ck.floor(rule, len(loops), 1, "entry loops in _collect_from_index")
    h = loops[0]
    stores = {n.id for n in g.nodes.values() if h.id in n.loops and n.kind == "stmt" and isinstance(n.ast, ast.Assign) and isinstance(n.ast.targets[0], ast.Subscript)
              and isinstance(n.ast.value, ast.Call) and call_name(n.ast.value) == "DataIndexEntry"}
    ck.floor(rule, len(stores), 1, "entries recorded per iteration in _collect_from_index")
    # handler of get_key's ValueError: the accepted skip
    ok_handlers = {x.id for x in g.nodes.values() if x.kind == "handler" and h.id in x.loops and "ValueError" in norm(x.ast.type) if x.ast.type is not None}
    r = g.reach([d for lab, d in h.succ if lab == "T"], skip_node=lambda x: x.id in stores or x.id in ok_handlers, skip_edge=lambda a, l, b: False)
    bad = h.id in r
    ck.require(not bad, rule, fn, h, "every entry whose storage key resolves is recorded in the collection cache",
               "an entry can be skipped by the collection loop for a reason other than `storage.get_key(entry)` raising ValueError (e.g. 'not in the local cache'): it is then never requested from transfer(), so a directory that lists it is uploaded without it and nothing is reported as missing or failed",
               witness=g.fmt_path(g.path_to(r, h.id)) if bad else None, construct="for _, entry in index.iteritems(prefix) / every entry recorded")


def dir_token_exact(ck: Checker, rule: str) -> None:
    """hashfile.utils._tokenize_mtimes: the directory token is a digest of the path -> mtime table as given (full
    precision).  Rounding the mtimes makes an edit within the same second invisible to the link clean-up, which then
    treats a modified directory as 'unmodified since recorded' and deletes it."""
    fn = ck.prog.func("hashfile.utils", "_tokenize_mtimes")
    p0 = fn.pos_params[0]
    dumps = [c for c in walk_own(fn.node) if isinstance(c, ast.Call) and call_name(c) in ("dumps", "json_dumps") and c.args]
    ck.floor(rule, len(dumps), 1, "serialisations in _tokenize_mtimes")
    for c in dumps:
        a = c.args[0]
        alts = [a]
        if isinstance(a, ast.Name) and a.id != p0:
            alts = [d.value for d in scope_of(fn).get(a.id) if d.kind in ("assign", "annassign") and d.value is not None]
        ok = bool(alts) and all(isinstance(x, ast.Name) and x.id == p0 or (isinstance(x, ast.Call) and call_name(x) in ("dict", "sorted") and x.args and norm(x.args[0]) in (p0, f"{p0}.items()")) for x in alts)
        ck.require(ok, rule, fn, c, "the token is computed from the mtime table exactly as recorded",
                   f"the directory token is computed from `{norm(alts[0])[:60] if alts else '?'}` rather than from the recorded path -> mtime table itself: a lossy transformation (whole seconds, rounding) makes a later in-place edit indistinguishable from the recorded state, and the link clean-up deletes the modified directory",
                   construct=f"{norm(c)[:50]} / exact table")


def ensure_loaded_by_kind(ck: Checker, rule: str) -> None:
    """DataIndex._ensure_loaded / _load: whether a directory entry still has to be loaded is decided from its kind
    (meta.isdir) and its loaded flag - not from its hash.  Directory entries without a hash (file-storage backed,
    intermediate directories) must be loaded as well when listed."""
    for q in ("DataIndex._ensure_loaded", "DataIndex._load"):
        fn = ck.prog.func("index.index", q)
        g = ck.cfg(fn)
        loads = [n for n in g.nodes.values() for c in calls_at(n) if (is_method_call(c, "_load") and norm(c.func.value) == "self") or call_name(c) == "_load_from_storage"]
        ck.floor(rule, len(loads), 1, f"load calls in {q}")
        for n in loads:
            # reachable without learning anything about hash_info being set?
            r = g.reach([g.entry], skip_edge=lambda a, l, b: l == "exc" or (a.kind == "test" and "hash_info" in norm(a.ast) and ((l == "T") != norm(a.ast).startswith("not "))))
            ck.require(n.id in r, rule, fn, n, "a directory entry is loaded whether or not it carries a hash",
                       f"in {q} the load is reached only for entries that have a hash (`hash_info`): an unhashed directory entry (file-storage backed index, intermediate directory) is listed without being loaded, so its children are missing from listings and diffs",
                       construct=f"{n.text()[:40]} / not conditioned on hash_info")


def build_entries_every_name(ck: Checker, rule: str) -> None:
    """index.build.build_entries: an entry is yielded for every name the walk reports - also for names whose stat
    failed (dangling symlinks).  What the workspace index does not contain can be neither deleted nor replaced."""
    fn = ck.prog.func("index.build", "build_entries")
    g = ck.cfg(fn)
    inner = [h for h in g.nodes.values() if h.kind == "for" and len(h.loops) == 2]
    ck.floor(rule, len(inner), 1, "per-name loops in build_entries")
    for h in inner:
        ys = {n.id for n in g.nodes.values() if h.id in n.loops and yields_at(n)}
        r = g.reach([d for lab, d in h.succ if lab == "T"], skip_node=lambda x: x.id in ys, skip_edge=lambda a, l, b: l == "exc")
        bad = h.id in r
        ck.require(bool(ys) and not bad, rule, fn, h, "every walked name yields a workspace entry",
                   "a walked name can pass through build_entries without an entry being yielded (e.g. names whose stat failed - dangling symlinks - are dropped): compare() never sees it, so it is neither deleted with delete=True nor removed when a target entry needs its path, and the second compare is not empty",
                   witness=g.fmt_path(g.path_to(r, h.id)) if bad else None, construct=f"for {norm(h.ast.target)} in ... / every name yielded")


def state_hit_full_meta(ck: Checker, rule: str) -> None:
    """State._get: the metadata served with a cached hash is Meta.from_info(<the stat the lookup was made with>) -
    the full stat, including the link facts (is_link, destination, nlink) checkout's relink decision reads."""
    fn = ck.prog.func("hashfile.state", "State._get")
    g = ck.cfg(fn)
    info_p = "info" if fn.has_param("info") else fn.pos_params[-1]
    n_r = 0
    for r in g.nodes.values():
        if not (r.kind == "stmt" and isinstance(r.ast, ast.Return) and isinstance(r.ast.value, ast.Tuple) and len(r.ast.value.elts) == 2):
            continue
        n_r += 1
        m = r.ast.value.elts[0]
        srcs = [m]
        if isinstance(m, ast.Name):
            srcs = [getattr(d.ast, "value", None) for d in reaching_defs(g, r.id, m.id) if isinstance(d.ast, (ast.Assign, ast.AnnAssign)) and isinstance((d.ast.targets[0] if isinstance(d.ast, ast.Assign) else d.ast.target), ast.Name)]
        ok = bool(srcs) and all(isinstance(s, ast.Call) and norm(s.func) in ("Meta.from_info",) and s.args and norm(s.args[0]) == info_p or (isinstance(s, ast.Call) and norm(s.func) == "Meta.from_info" and any(k.arg == "info" and norm(k.value) == info_p for k in s.keywords)) for s in srcs)
        ck.require(ok, rule, fn, r, "a state hit serves Meta.from_info(info) of the stat it was looked up with",
                   f"a state hit serves metadata built as `{norm(srcs[0])[:60] if srcs and srcs[0] is not None else '?'}`, not Meta.from_info({info_p}): fields the stat carries (is_link, destination, nlink ...) are lost, so a workspace file whose hash comes from the state looks like an independent copy and a relinking checkout leaves links into the cache in place",
                   construct=f"{r.text()[:40]} / full stat metadata")
    ck.floor(rule, n_r, 1, "(meta, hash) returns of State._get")
