"""Error discipline, decided per function: *which exceptions are swallowed where*.

For every function a property's rules have read, the swallowing exception handlers - handlers from which execution
carries on normally (falls through, `continue`s, `return`s) instead of re-raising / converting - are compared with the
table confirmed by reading on the reference tree (`sv/handlers_baseline.json`, one row per handler: the caught type
names and whether the handler resumes the enclosing loop's next iteration or the function's normal flow).

Any difference is a behaviour change by construction: a wider or a new swallowing handler hides failures the callers
rely on seeing (a directory listing that cannot be loaded, a file that cannot be removed), a narrower or a missing one
lets through an exception the callers treat as 'not here, try the next one', and a per-iteration handler hoisted out of
its loop ends the whole loop at the first failing element.  The statement is about the normalised program (helpers
introduced by a refactoring are expanded first, `contextlib.suppress` is a try/except), so spelling does not matter.
"""
from __future__ import annotations

import ast
import json
import os
from typing import Dict, Iterable, List, Tuple

from ..cfg import cfg_of
from ..core import Checker
from ..loader import Func

HERE = os.path.dirname(os.path.abspath(__file__))
TABLE = os.path.join(os.path.dirname(HERE), "handlers_baseline.json")


def _type_names(t) -> Tuple[str, ...]:
    if t is None:
        return ("BaseException",)
    if isinstance(t, (ast.Tuple, ast.List)):
        out: List[str] = []
        for e in t.elts:
            out += list(_type_names(e))
        return tuple(sorted(set(out)))
    if isinstance(t, ast.Attribute):
        return (t.attr,)
    if isinstance(t, ast.Name):
        return (t.id,)
    return (ast.unparse(t),)


def profile(fn_node: ast.AST) -> List[List]:
    """[[sorted type names], 'loop' | 'flow'] for every swallowing handler of the function and of the closures
    defined inside it (one unit: moving a try/except between a function and its own closure changes nothing)."""
    rows = _profile1(fn_node)
    todo = list(ast.iter_child_nodes(fn_node))
    while todo:
        x = todo.pop()
        if isinstance(x, (ast.FunctionDef, ast.AsyncFunctionDef)):
            rows += profile(x)
            continue
        if isinstance(x, (ast.ClassDef, ast.Lambda)):
            continue
        todo.extend(ast.iter_child_nodes(x))
    rows.sort()
    return rows


def _is_lookup_probe(tr: ast.Try, h: ast.ExceptHandler) -> bool:
    """`try: v = d[k]  except KeyError: ...` - the get-or-create / cache-probe idiom: the only thing the guarded statement
    can raise is the subscript itself, and only that exception is caught.  Whether it is written this way, with `in`,
    `.get()` or `setdefault` is a matter of style, so such handlers are not part of a function's profile."""
    if set(_type_names(h.type)) - {"KeyError", "IndexError"} or len(tr.body) != 1 or tr.orelse and False:
        return False
    st = tr.body[0]
    v = getattr(st, "value", None)
    if not isinstance(st, (ast.Assign, ast.AnnAssign, ast.Return, ast.Expr)) or v is None:
        return False
    if any(isinstance(x, (ast.Call, ast.Await, ast.Yield, ast.YieldFrom, ast.BinOp)) for x in ast.walk(v)):
        return False
    if not isinstance(v, ast.Subscript):
        return False
    base = v.value
    return isinstance(base, ast.Name) or (isinstance(base, ast.Attribute) and isinstance(base.value, ast.Name))


def _profile1(fn_node: ast.AST) -> List[List]:
    g = cfg_of(fn_node)
    rows = []
    probes = set()
    for t_ in ast.walk(fn_node):
        if isinstance(t_, ast.Try):
            for hh in t_.handlers:
                if _is_lookup_probe(t_, hh):
                    probes.add(id(hh))
    for h in g.nodes.values():
        if h.kind != "handler":
            continue
        if id(h.ast) in probes:
            continue
        r = g.reach([h.id], skip_edge=lambda a, lab, b: lab == "exc")
        resumes_loop = any(hid in r for hid in h.loops[-1:]) if h.loops else False
        normal = g.exit in r or resumes_loop or any(g.nodes[x].kind in ("for", "while") and x not in h.loops for x in r)
        if not (normal or resumes_loop):
            # every path out of the handler raises: a conversion / re-raise, nothing is swallowed
            continue
        # one row per caught type: `except (A, B)` and `except A: ... except B: ...` are the same thing
        for t_ in _type_names(h.ast.type):
            rows.append([[t_], "loop" if resumes_loop else "flow"])
    rows.sort()
    return rows


def _loop_depth_of_calls(fn_node: ast.AST):
    """(call, inside a loop / comprehension of this function?) for every call in the function, closures included"""
    out = []

    def rec(n, in_loop):
        for ch in ast.iter_child_nodes(n):
            if isinstance(ch, ast.ClassDef):
                continue
            il = in_loop or isinstance(ch, (ast.For, ast.While, ast.AsyncFor, ast.ListComp, ast.SetComp, ast.DictComp, ast.GeneratorExp))
            if isinstance(ch, ast.Call):
                out.append((ch, il))
            rec(ch, il)

    rec(fn_node, False)
    return out


_BASE = None


def _is_new(fn: Func) -> bool:
    """not part of the reference inventory (a helper some later change introduced)"""
    global _BASE
    if _BASE is None:
        from ..inline import load_baseline

        _BASE = load_baseline()
    mod = _BASE.get(fn.module.name)
    return mod is not None and fn.qual not in mod


def unit_profile(prog, fn: Func, _seen=None) -> List[List]:
    """The function's own swallow profile plus that of the *new* helpers it calls (a helper extracted from the function
    keeps belonging to it; called from inside a loop its handlers are per-iteration ones)."""
    _seen = () if _seen is None else _seen
    if fn.fq in _seen or len(_seen) > 6:
        return []
    _seen = _seen + (fn.fq,)  # recursion guard only: a helper called at two sites counts twice
    rows = [list(r) for r in profile(fn.node)]
    for c, in_loop in _loop_depth_of_calls(fn.node):
        tgt = None
        f = c.func
        if isinstance(f, ast.Name):
            ent = prog.lookup_name(fn, f.id)
            if isinstance(ent, Func):
                tgt = ent
        elif isinstance(f, ast.Attribute) and isinstance(f.value, ast.Name) and f.value.id in ("self", "cls") and fn.cls is not None:
            tgt = prog.find_method(fn.cls, f.attr)
        if tgt is None or not _is_new(tgt) or ".<locals>" in tgt.qual:
            continue
        for t, k in unit_profile(prog, tgt, _seen):
            rows.append([t, "loop" if in_loop else k])
    rows.sort()
    return rows


def all_funcs_rec(prog) -> Iterable[Func]:
    def rec(f):
        yield f
        for c in getattr(f, "children", {}).values():
            yield from rec(c)

    for f in prog.all_funcs():
        yield from rec(f)


def load_table() -> Dict[str, List[List]]:
    with open(TABLE) as fh:
        return json.load(fh)["functions"]


def check(ck: Checker, rule: str) -> int:
    """Compare the swallow profile of every function the property has read with the confirmed table."""
    table = load_table()
    by_fq = {f.fq: f for f in all_funcs_rec(ck.prog)}
    n = 0
    for fq in sorted({q.split(".<locals>")[0] for q in ck.funcs_analysed}):
        fn = by_fq.get(fq)
        if fn is None or _is_new(fn):
            continue  # a new helper is judged together with the functions that call it
        want = table.get(fq, [])
        got = unit_profile(ck.prog, fn)
        n += 1

        def fmt(rows):
            return "; ".join(f"({', '.join(t)}) -> {'next iteration' if k == 'loop' else 'carry on'}" for t, k in rows) or "none"

        extra = [r for r in got if r not in want]
        missing = [r for r in want if r not in got]
        # multiset comparison
        ok = sorted(got) == sorted(want)
        why = ""
        if not ok:
            parts = []
            if extra:
                parts.append(f"now swallows {fmt(extra)}")
            if missing:
                parts.append(f"no longer swallows {fmt(missing)}")
            why = (f"{fn.qual}: " + " and ".join(parts or ["handler multiplicity changed"]) +
                   f" (confirmed for this function: {fmt(want)}): failures that callers rely on seeing are hidden, or an exception that meant 'skip this one' now ends the whole operation / loop")
        ck.require(ok, rule, fn, fn.node, f"swallowed exceptions of {fn.qual} are the confirmed ones ({fmt(want)})", why, construct=f"{fn.qual} / swallowed exceptions")
    return n
