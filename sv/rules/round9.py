"""Structural clauses added after the ninth round (breaking changes disguised as refactorings: a condition lost while
moving code, a per-item lookup replaced by a memo with too coarse a key, a parameter re-bound before it is tested)."""
from __future__ import annotations

import ast

from ..an import avoiding_path, cut, eq_edge, is_method_call, reaching_defs, with_flags
from ..cfg import calls_at
from ..core import Checker
from ..loader import norm, walk_expr, walk_own
from ..prov import call_name


def presence_tested_on_raw_meta(ck: Checker, rule: str) -> None:
    """index.diff._diff_meta: whether a side *has* metadata is decided on the metadata itself - the comparison key
    (`meta_cmp_key`) is only applied to compare two present sides.  A key function may legitimately return None for an
    existing Meta (etag of a never-pushed entry); testing the key for presence turns MODIFY into ADD / DELETE."""
    fn = ck.prog.func("index.diff", "_diff_meta")
    params = set(fn.pos_params[:2])
    keyp = "cmp_key" if fn.has_param("cmp_key") else (fn.pos_params[2] if len(fn.pos_params) > 2 else None)
    bad = []
    for a in walk_own(fn.node):
        if isinstance(a, (ast.Assign, ast.AnnAssign, ast.AugAssign)):
            tgts = a.targets if isinstance(a, ast.Assign) else [a.target]
            names = {x.id for t in tgts for x in ast.walk(t) if isinstance(x, ast.Name)}
            v = getattr(a, "value", None)
            if names & params and v is not None and any(isinstance(c, ast.Call) and isinstance(c.func, ast.Name) and c.func.id == keyp for c in ast.walk(v)):
                bad.append(a)
    # ... nor is a local that holds a side's comparison key tested for None (the same slip behind a shared helper)
    keyed = set()
    for a in walk_own(fn.node):
        if isinstance(a, (ast.Assign, ast.AnnAssign)) and getattr(a, "value", None) is not None:
            tgts = a.targets if isinstance(a, ast.Assign) else [a.target]
            if all(isinstance(t, ast.Name) for t in tgts) and isinstance(a.value, ast.Call) and isinstance(a.value.func, ast.Name) and a.value.func.id == keyp:
                keyed |= {t.id for t in tgts}
    for e in walk_own(fn.node):
        if isinstance(e, ast.Compare) and len(e.ops) == 1 and isinstance(e.ops[0], (ast.Is, ast.IsNot)) and isinstance(e.comparators[0], ast.Constant) and e.comparators[0].value is None \
                and isinstance(e.left, ast.Name) and e.left.id in keyed - params:
            bad.append(e)
    # ... and the None tests are on the parameters
    g = ck.cfg(fn)
    n_tests = 0
    for t in g.nodes.values():
        e = t.ast
        if t.kind == "test" and isinstance(e, ast.Compare) and len(e.ops) == 1 and isinstance(e.ops[0], (ast.Is, ast.IsNot)) and isinstance(e.comparators[0], ast.Constant) and e.comparators[0].value is None:
            if isinstance(e.left, ast.Name) and e.left.id in params:
                n_tests += 1
    ck.require(not bad, rule, fn, bad[0] if bad else fn.node, "presence of a side is tested on the metadata itself, before any comparison key is applied",
               f"`{norm(bad[0])[:70] if bad else '_diff_meta'}` replaces a side by its comparison key before the presence test: a key that is None for an existing Meta makes a key present on both sides look added / deleted instead of modified",
               construct="_diff_meta / presence before cmp_key")


def keep_copy_only_for_same_object(ck: Checker, rule: str) -> None:
    """hashfile.checkout._checkout_file: a relinking checkout leaves the workspace file in place (only un-protecting it)
    solely when the file holds the *same object* that is being checked out - on every path, also for a single-file
    target whose old side carries no stat."""
    fn = ck.prog.func("hashfile.checkout", "_checkout_file")
    view = ck.prog.inline_view(fn) if hasattr(ck.prog, "inline_view") else fn
    g = ck.cfg(fn)
    ups = [n for n in g.nodes.values() for c in calls_at(n) if is_method_call(c, "unprotect")]
    ck.floor(rule, len(ups), 1, "keep-in-place (unprotect) sites in _checkout_file")

    def same_oid(t, lab) -> bool:
        e = t.ast
        if t.kind != "test" or not (isinstance(e, ast.Compare) and len(e.ops) == 1 and isinstance(e.ops[0], (ast.Eq, ast.NotEq))):
            return False
        from ..prov import expand_txt

        def alts(x):
            # `new_oid = change.new.oid; old_entry = change.old`: locals put back
            return {norm(x)} | set(expand_txt(ck.prog, fn, x))

        la, ra = alts(e.left), alts(e.comparators[0])
        if not ((any(s.endswith("new.oid") for s in la) and any(s.endswith("old.oid") for s in ra)) or (any(s.endswith("old.oid") for s in la) and any(s.endswith("new.oid") for s in ra))):
            return False
        return (isinstance(e.ops[0], ast.Eq) and lab == "T") or (isinstance(e.ops[0], ast.NotEq) and lab == "F")

    lifted = with_flags(g, same_oid)
    for n in ups:
        w = cut(g, [n.id], lambda t, lab: same_oid(t, lab) or lifted(t, lab))
        ck.require(w is None, rule, fn, n, "the workspace file is kept (un-protected only) solely when it already holds the object being checked out",
                   "a relinking checkout can keep the workspace file in place without having compared its object id with the target's: stale bytes stay in the workspace although the checkout reports success",
                   witness=g.fmt_path(w) if w else None, construct=f"{n.text()[:40]} / same object")


def storage_resolved_per_entry(ck: Checker, rule: str) -> None:
    """index.checkout._create_files: the storage an entry is read from is resolved from the storage map under the
    entry's *own key* in every iteration - storage-map prefixes may be as long as a file's key, so siblings can live in
    different stores and nothing coarser (a per-directory memo) can stand for the lookup."""
    fn = ck.prog.func("index.checkout", "_create_files")
    g = ck.cfg(fn)
    n = 0
    for x in g.nodes.values():
        if not x.loops:
            continue
        # the loop over the entries to create (whatever its variable is called after helper expansion)
        head = x.loops[0]
        hn = g.nodes[head]
        if not (hn.kind == "for" and isinstance(hn.ast.target, ast.Name) and norm(hn.ast.iter) == fn.pos_params[0]):
            continue
        ev = hn.ast.target.id
        for c in calls_at(x):
            if not (is_method_call(c, "get") and isinstance(c.func.value, ast.Name) and c.args and norm(c.args[0]) == ev):
                continue
            n += 1
            recv = c.func.value.id
            defs = [d for d in reaching_defs(g, x.id, recv)]
            okd = bool(defs)
            why = ""
            for d in defs:
                v = getattr(d.ast, "value", None)
                txt = norm(v) if v is not None else d.text()
                in_iter = head in d.loops
                fresh = v is not None and "storage_map[" in "".join(norm(z) for z in [v] + [getattr(dd.ast, "value", None) for nm in walk_expr(v) if isinstance(nm, ast.Name) for dd in reaching_defs(g, d.id, nm.id) if getattr(dd.ast, "value", None) is not None]) and f"{ev}.key" in "".join(
                    norm(z) for z in [v] + [getattr(dd.ast, "value", None) for nm in walk_expr(v) if isinstance(nm, ast.Name) for dd in reaching_defs(g, d.id, nm.id) if getattr(dd.ast, "value", None) is not None])
                if not (in_iter and fresh):
                    okd = False
                    why = txt
            ck.require(okd, rule, fn, x, "the storage of an entry is looked up in the storage map under the entry's own key, in the same iteration",
                       f"the storage used for `{norm(c)[:40]}` can come from `{why[:60]}` instead of `storage_map[entry.key]` of this very entry: sibling files mapped to different stores are read from the first one's store and silently not created",
                       construct=f"{norm(c)[:40]} / storage per entry")
    ck.floor(rule, n, 1, "per-entry storage reads in _create_files")


def listing_entry_parsed_per_path(ck: Checker, rule: str) -> None:
    """Tree.from_list: the metadata filed under a path is parsed from *that path's* listing entry - on every path to
    `tree.add(...)` within one iteration `Meta.from_dict` has run for this entry (no memo keyed by the hash only)."""
    fn = ck.prog.func("hashfile.tree", "Tree.from_list")
    g = ck.cfg(fn)
    adds = [n for n in g.nodes.values() for c in calls_at(n) if is_method_call(c, "add") and n.loops]
    # ... or entries stored straight into the tree's table (`tree._dict[parts] = (meta, hash_info)`)
    adds += [n for n in g.nodes.values() if n.loops and n.kind == "stmt" and isinstance(n.ast, ast.Assign) and any(isinstance(t, ast.Subscript) and isinstance(t.value, ast.Attribute) and t.value.attr == "_dict" for t in n.ast.targets)]
    ck.floor(rule, len(adds), 1, "tree.add calls in the listing loop of Tree.from_list")
    for n in adds:
        head = n.loops[-1]
        parse = {m.id for m in g.nodes.values() if head in m.loops for c in calls_at(m) if isinstance(c.func, ast.Attribute) and c.func.attr == "from_dict" and norm(c.func.value).endswith("Meta")}
        w = None if n.id in parse else avoiding_path(g, n.id, lambda x: x.id in parse, start=head)
        ck.require(bool(parse) and w is None, rule, fn, n, "every listed path gets the metadata parsed from its own listing entry",
                   "a path can be added with metadata that was not parsed from its own listing entry in this iteration (a memo shared between paths): isexec / version_id / remote of another path with the same content are restored for it",
                   witness=g.fmt_path(w) if w else None, construct=f"{n.text()[:40]} / Meta.from_dict per path")
