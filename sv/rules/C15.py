"""C15 - A crash at any point leaves the store valid, and re-running recovers (effect ordering)."""
from __future__ import annotations

import ast

from ..an import avoiding_path, cut, is_method_call, node_defines, reaches, reaching_defs
from ..cfg import calls_at, node_exprs
from ..core import Checker
from ..loader import Func, norm, walk_expr, walk_own
from ..prov import call_name, expand1
from .C07 import _check_base, _check_exists, _check_local
from .C13 import _batch
from .transfer_common import build_model


def check(ck: Checker) -> None:
    from .C07 import check_fetch_verify

    check_fetch_verify(ck, "C15.add")
    ck.decided = [
        "C15.add: in HashFileDB.add the copy precedes the verify/protect loop, which precedes the hash-state rows; nothing vouches for an object before the call that creates it returned",
        "C15.check: check() protects an object only after its hash compared equal, deletes on mismatch",
        "C15.upload: streamed uploads go to a fresh temporary name under the store and are added under their digest only after the stream was closed",
        "C15.treelast: directory objects are written after their files: _build_tree (add_update_tree after all _build_files), index.save (all file adds before the first _save_dir_entry), transfer (C04.order)",
        "C15.statetx: hash-state rows are upserted in one transaction; save_many stats the file (or uses the caller's stat) before building the row and skips vanished files",
        "C15.heal: an unprotected local object is always re-hashed by the next existence query (exact-mode trust, check before report), and by LocalHashFileDB.add before the delegated add may skip it as existing",
    ]
    ck.not_decided = ["atomicity of a single copy (temp name + rename inside dvc_objects / fsspec)", "convergence of a re-run to the same store contents (needs execution)", "kill points inside library calls"]
    ck.trusted = ["dvc_objects' ObjectDB.add places objects atomically", "SQLite transactions"]
    prog = ck.prog
    # ------------------------------------------------------------------ add
    fn = prog.func("hashfile.db", "HashFileDB.add")
    g = ck.cfg(fn)
    copy = [n for n in g.nodes.values() for c in calls_at(n) if isinstance(c.func, ast.Attribute) and c.func.attr == "add" and norm(c.func.value).startswith("super(")]
    prot = [n for n in g.nodes.values() for c in calls_at(n) if is_method_call(c, "protect") and norm(c.func.value) == "self"]
    save = [n for n in g.nodes.values() for c in calls_at(n) if is_method_call(c, "save_many", "save") and "state" in norm(c.func.value)]
    ck.floor("C15.add", min(len(copy), len(prot), len(save)), 1, "copy / protect / state-save statements in HashFileDB.add")
    cp = copy[0]
    for p in prot:
        ck.require(avoiding_path(g, p.id, lambda x: x.id == cp.id) is None, "C15.add", fn, p, "protect only after the copy returned", "an object can be write-protected before the copy that creates it has returned")
    for s in save:
        ck.require(avoiding_path(g, s.id, lambda x: x.id == cp.id) is None, "C15.add", fn, s, "state rows only after the copy returned", "hash-state rows can be written before the objects exist")
        heads = {p.loops[-1] for p in prot if p.loops}
        ok = bool(heads) and all(avoiding_path(g, s.id, lambda x, h=h: x.id == h) is None for h in heads) and not any(reaches(g, s.id, p.id) for p in prot)
        ck.require(ok, "C15.add", fn, s, "state rows are written after the verify/protect loop",
                   "hash-state rows are written before the verify/protect loop: a crash in between leaves the state vouching for unverified objects (and verification then trusts the fresh state row)")
    # ---------------------------------------------------------------- check
    _check_base(ck, rule="C15.check")
    # --------------------------------------------------------------- upload
    up = prog.func("hashfile.build", "_upload_file")
    gu = ck.cfg(up)
    puts = [(n, c) for n in gu.nodes.values() for c in calls_at(n) if is_method_call(c, "put_file", "upload_fobj")]
    adds = [(n, c) for n in gu.nodes.values() for c in calls_at(n) if is_method_call(c, "add") and len(c.args) == 3]
    ck.floor("C15.upload", min(len(puts), len(adds)), 1, "upload / add statements in _upload_file")
    pn, pc = puts[0]
    an, ac = adds[0]
    dest = pc.args[1] if len(pc.args) > 1 else None
    dalts = " ".join(norm(a) for a in expand1(prog, up, dest, levels=2)) if dest is not None else ""
    ck.require("tmp_fname(" in dalts and "upload_odb.path" in dalts, "C15.upload", up, pn, "upload target is a fresh temporary name under the store path", f"upload target `{dalts}` is not a fresh temporary name under the store (a crash would leave partial data under a final or shared name)")
    ck.require("oid_to_path" not in dalts and "hash_value" not in dalts, "C15.upload", up, pn, "upload target is never derived from an object id", "upload streams directly to an object's final name", construct=f"{pn.text()[:50]} / not final name")
    ck.require(avoiding_path(gu, an.id, lambda x: x.id == pn.id) is None, "C15.upload", up, an, "add happens after the upload", "the object can be added before its bytes were uploaded")
    withs = [w for w in walk_own(up.node) if isinstance(w, ast.With) and any("open(" in norm(i.context_expr) for i in w.items)]
    inside = any(ac is x for w in withs for s in w.body for x in ast.walk(s))
    ck.require(bool(withs) and not inside, "C15.upload", up, an, "add happens after the source stream was closed (digest final)", "the object is added while the hashed stream is still open: its digest may not be final")
    ck.require(norm(ac.args[0]) == norm(dest) if dest is not None else False, "C15.upload", up, an, "the temporary upload is what gets added", f"added path {norm(ac.args[0])} is not the uploaded temporary {norm(dest) if dest is not None else None}", construct=f"{an.text()[:50]} / same temp")
    # ------------------------------------------------------------- treelast
    bt = prog.func("hashfile.build", "_build_tree")
    gb = ck.cfg(bt)
    tr = [n for n in gb.nodes.values() for c in calls_at(n) if call_name(c) == "add_update_tree"]
    bf = [n for n in gb.nodes.values() for c in calls_at(n) if call_name(c) == "_build_files"]
    ck.floor("C15.treelast", min(len(tr), len(bf)), 1, "tree add / file build statements in _build_tree")
    for t in tr:
        ck.require(not any(reaches(gb, t.id, b.id) for b in bf), "C15.treelast", bt, t, "no file is built after the directory object was stored", "files can still be staged after the directory object was stored")
    sv = prog.func("index.save", "save")
    gs = ck.cfg(sv)
    dirs = [n for n in gs.nodes.values() for c in calls_at(n) if call_name(c) == "_save_dir_entry"]
    fadds = [n for n in gs.nodes.values() for c in calls_at(n) if is_method_call(c, "add") and len(c.args) >= 3]
    ck.floor("C15.treelast", min(len(dirs), len(fadds)), 1, "dir-entry saves / file adds in index.save")
    for d in dirs:
        back = [f for f in fadds if reaches(gs, d.id, f.id)]
        ck.require(not back, "C15.treelast", sv, d, "directory objects are saved only after every file add",
                   "a directory object can be written before the file objects it lists were added (the index yields a directory before its children): a crash leaves a .dir whose files are missing")
        ck.require(all(avoiding_path(gs, d.id, lambda x, f=f: x.id == (f.loops[0] if f.loops else f.id)) is None for f in fadds), "C15.treelast", sv, d, "the file-add loop has completed before directories are saved", "directory saves are not dominated by the file-add loop", construct=f"{d.text()} / after file loop")
    m = build_model(ck)
    f_ids = {x.id for x, _ in m.files_add}
    for d, c in m.dir_add:
        w = avoiding_path(m.g, d.id, lambda n: n.id in f_ids, start=m.head.id)
        ck.require(w is None, "C15.treelast", m.move, d, "transfer sends the directory object after its files", "transfer can send the directory object before its files", witness=m.g.fmt_path(w) if w else None)
    from .transfer_common import check_missing_readonly

    check_missing_readonly(ck, m, "C15.treelast")
    from . import round10 as _r10

    _r10.save_always_writes_dirs(ck, "C15.treelast")
    # -------------------------------------------------------------- statetx
    _batch(ck)
    for o in ck.obs:
        if o.rule == "C13.batch":
            o.rule = "C15.statetx"
    sm = prog.func("hashfile.state", "State.save_many")
    g3 = ck.cfg(sm)
    apps = [n for n in g3.nodes.values() for c in calls_at(n) if is_method_call(c, "append")]
    for a in apps:
        # the stat the row is computed from: the argument of _checksum(...) inside the appended row (or in the
        # definition of a local the row mentions)
        exprs = [x for x in node_exprs(a)]
        for nm in {x.id for e in exprs for x in walk_expr(e) if isinstance(x, ast.Name)}:
            for d in reaching_defs(g3, a.id, nm):
                v = getattr(d.ast, "value", None)
                if d.kind == "stmt" and v is not None:
                    exprs.append(v)
        svars = {c.args[0].id for e in exprs for c in walk_expr(e) if isinstance(c, ast.Call) and call_name(c) == "_checksum" and c.args and isinstance(c.args[0], ast.Name)}
        ok = bool(svars)
        for sv_ in svars:
            stats = {n.id for n in g3.nodes.values() if n.kind == "stmt" and isinstance(n.ast, (ast.Assign, ast.AnnAssign)) and node_defines(n, sv_) and ".info(" in norm(n.ast.value)}
            supplied = lambda x, sv_=sv_: x.kind == "test" and norm(x.ast) in (sv_, f"{sv_} is not None", f"{sv_} is None", f"not {sv_}")
            # `stat = given or fs.info(path)`: the CFG splits this into  test(given) -T-> stat = given | -F-> stat = fs.info(path)
            for t in g3.nodes.values():
                if t.kind == "test" and isinstance(t.ast, ast.Name):
                    for lab, d in t.succ:
                        dn = g3.nodes[d]
                        if lab == "T" and dn.kind == "stmt" and isinstance(dn.ast, ast.Assign) and node_defines(dn, sv_) and norm(dn.ast.value) == t.ast.id:
                            stats.add(d)
            ok = ok and bool(stats) and avoiding_path(g3, a.id, lambda x: x.id in stats or supplied(x), start=a.loops[-1] if a.loops else None) is None
        ck.require(ok, "C15.statetx", sm, a, "a row is built only after the file was stat'ed (or the caller supplied its stat)", "a state row can be built without a stat of the file")
    hs = [h for h in g3.nodes.values() if h.kind == "handler" and "FileNotFoundError" in norm(h.ast.type or ast.Constant(value=""))]
    okh = False
    for h in hs:
        r = g3.reach([h.id], skip_node=lambda x: x.id in {a.id for a in apps})
        okh = bool(h.loops) and h.loops[-1] in r and not any(a.id in g3.reach([h.id], skip_node=lambda x: x.id == h.loops[-1]) for a in apps)
    ck.require(okh, "C15.statetx", sm, hs[0] if hs else sm.node, "vanished files are skipped, not recorded", "save_many does not skip files that vanished before they could be stat'ed")
    # ----------------------------------------------------------------- heal
    _check_local(ck, rule="C15.heal")
    _check_exists(ck, rule="C15.heal")
    from . import round5 as _r5

    _r5.local_add_rechecks_unprotected(ck, "C15.heal")
    from . import round7 as _r7

    _r7.failed_copy_never_trusted(ck, "C15.add")
    from . import round8 as _r8

    _r8.post_copy_loop_always_runs(ck, "C15.add")
    from . import round4 as _r4

    _r4.hashinfo_identity(ck, "C15.treelast")
    _r4.save_every_entry(ck, "C15.treelast")
