"""Structural clauses added after the eighth round (breaking changes at the *edges* of the mechanisms: expressions and
error / clean-up paths).  Each is called from the property modules it belongs to."""
from __future__ import annotations

import ast

from ..an import is_method_call
from ..cfg import calls_at
from ..core import Checker
from ..loader import norm, walk_expr, walk_own
from ..prov import call_name, scope_of


def post_copy_loop_always_runs(ck: Checker, rule: str) -> None:
    """HashFileDB.add: between the delegated copy and the loop that re-hashes reported failures / protects the objects
    there is no way out - not even when "nothing was transferred".  Copies that failed may have left bytes under final
    object names; skipping the loop leaves them there un-examined (and the successful ones unprotected)."""
    fn = ck.prog.func("hashfile.db", "HashFileDB.add")
    g = ck.cfg(fn)
    sup = [n for n in g.nodes.values() for c in calls_at(n) if isinstance(c.func, ast.Attribute) and c.func.attr == "add" and norm(c.func.value).startswith("super(")]
    ck.floor(rule, len(sup), 1, "delegated copy (super().add) in HashFileDB.add")
    heads = {n.loops[-1] for n in g.nodes.values() if n.loops for c in calls_at(n) if is_method_call(c, "protect") and norm(c.func.value) == "self"}
    ck.floor(rule, len(heads), 1, "post-copy protect loop in HashFileDB.add")
    for s_ in sup:
        r = g.reach([d for lab, d in s_.succ if lab != "exc"], skip_node=lambda x: x.id in heads, skip_edge=lambda a, lab, b: lab == "exc", include_start=True)
        ok = g.exit not in r
        ck.require(ok, rule, fn, s_, "after the delegated copy every normal path runs the post-copy loop (re-hash of failed copies, protect)",
                   "HashFileDB.add can return after the delegated copy without running the post-copy loop: a copy reported as failed may have left truncated bytes under the object's final name, and nothing re-hashes or removes them (the next add skips the object as present)",
                   witness=g.fmt_path(g.path_to(r, g.exit)) if not ok else None, construct="super().add(...) / post-copy loop always runs")


def nanoseconds_exact(ck: Checker, rule: str) -> None:
    """hashfile.utils.to_nanoseconds: the timestamp is scaled *before* it is rounded - rounding the float seconds first
    makes every edit within the same second invisible to the link clean-up (recorded mtime == current mtime)."""
    fn = ck.prog.func("hashfile.utils", "to_nanoseconds")
    p = fn.pos_params[0]
    n = 0
    for c in walk_own(fn.node):
        if isinstance(c, ast.Call) and call_name(c) in ("round", "int", "floor", "trunc", "ceil") and c.args:
            n += 1
            a = c.args[0]
            scaled = isinstance(a, ast.BinOp) and isinstance(a.op, ast.Mult) and any(isinstance(x, ast.Name) and x.id == p for x in walk_expr(a)) and \
                any(isinstance(x, ast.Constant) and isinstance(x.value, (int, float)) and x.value >= 10 ** 9 for x in walk_expr(a))
            digits = len(c.args) > 1  # round(ts, k) keeps sub-second digits only for k >= 9; not used by the repository
            ck.require(scaled and not digits, rule, fn, c, "the timestamp is multiplied by 10**9 before it is rounded to an integer",
                       f"`{norm(c)}` rounds the timestamp before scaling it: recorded link mtimes get whole-second resolution, a file rewritten within the same second still matches its record and is deleted as an 'unused, unmodified' link",
                       construct=f"{norm(c)[:40]} / scale before rounding")
    ck.floor(rule, n, 1, "integer conversions in to_nanoseconds")
    # ... and the scaled value is what is returned
    rets = [r for r in walk_own(fn.node) if isinstance(r, ast.Return) and r.value is not None]
    for r in rets:
        outer_mult = isinstance(r.value, ast.BinOp) and isinstance(r.value.op, (ast.Mult, ast.FloorDiv, ast.Div))
        ck.require(not outer_mult, rule, fn, r, "nothing is scaled after the integer conversion", f"`{norm(r.value)}` scales after rounding", construct="return / no late scaling")


def fs_hash_by_requested_name(ck: Checker, rule: str) -> None:
    """hashfile.hash._hash_file: a digest the filesystem already reports is trusted only when it is the field named by the
    *requested* algorithm - never a field of another algorithm (`md5` for `md5-dos2unix`: raw-bytes md5 served as the
    text-normalised legacy digest)."""
    fn = ck.prog.func("hashfile.hash", "_hash_file")
    namep = "name" if fn.has_param("name") else fn.pos_params[2]
    n = 0
    for c in walk_own(fn.node):
        if isinstance(c, ast.Call) and call_name(c) == "getattr" and len(c.args) >= 2 and not (isinstance(c.args[0], ast.Name) and c.args[0].id in ("hashlib",)):
            recv = norm(c.args[0])
            if "meta" not in recv.lower() and "info" not in recv.lower():
                continue
            n += 1
            a = c.args[1]
            ok = isinstance(a, ast.Name) and a.id == namep
            if isinstance(a, ast.Name) and a.id != namep:
                ds = [d for d in scope_of(fn).get(a.id) if d.kind in ("assign", "annassign")]
                ok = bool(ds) and all(isinstance(getattr(d, "value", None), ast.Name) and d.value.id == namep for d in ds)
            ck.require(ok, rule, fn, c, "the digest taken over from the filesystem's own metadata is the field named by the requested algorithm",
                       f"`{norm(c)}` reads the field `{norm(a)}`, not the requested algorithm `{namep}`: a digest of another algorithm (raw md5 for md5-dos2unix) is served as the requested one",
                       construct=f"{norm(c)[:50]} / field = requested algorithm")
    ck.floor(rule, n, 1, "metadata digest look-ups in _hash_file")


def db_writer_overwrites(ck: Checker, rule: str) -> None:
    """index.serialize.write_db: every entry is *stored* under its key (item assignment / set): `cache.add` is
    insert-if-absent in diskcache and would keep the stale row of an earlier write."""
    fn = ck.prog.func("index.serialize", "write_db")
    g = ck.cfg(fn)
    stores = [n for n in g.nodes.values() if n.kind == "stmt" and isinstance(n.ast, ast.Assign) and isinstance(n.ast.targets[0], ast.Subscript) and n.loops]
    stores += [n for n in g.nodes.values() for c in calls_at(n) if is_method_call(c, "set") and n.loops]
    adds = [(n, c) for n in g.nodes.values() for c in calls_at(n) if is_method_call(c, "add", "setdefault", "touch") and n.loops and not norm(c.func.value).startswith("index")]
    for n, c in adds:
        ck.fail(rule, fn, n, f"`{norm(c)[:60]}` only inserts when the key is absent: writing an index over an existing database keeps the old rows (stale hashes / metadata are read back)")
    ck.require(bool(stores) or bool(adds), rule, fn, fn.node, "write_db stores every entry by item assignment", "write_db no longer stores the entries by item assignment / set()", construct="write_db / overwrite")
