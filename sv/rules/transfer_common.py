"""Shared structural model of hashfile.transfer for C04 / C11 / C12 / C15."""
from __future__ import annotations

import ast
from dataclasses import dataclass, field
from typing import Dict, List, Optional, Set, Tuple

from ..an import avoiding_path, cut, is_method_call
from ..cfg import CFG, Node, calls_at
from ..core import Checker
from ..loader import AnalysisError, Func, norm, parent, walk_expr, walk_own
from ..prov import ELEM, ITEM, call_name, expand, get_arg, is_marker, scope_of


@dataclass
class TransferModel:
    public: Func
    move: Func  # _do_transfer
    adder: Func  # _add
    g: CFG
    head: Node  # per-directory loop header
    body: List[Node]
    dir_obj: str  # name of the loaded Tree in the loop
    entry_ids: Optional[str]
    failed: str  # cumulative failure set (returned)
    files_add: List[Tuple[Node, ast.Call]] = field(default_factory=list)
    dir_add: List[Tuple[Node, ast.Call]] = field(default_factory=list)
    trailing_add: List[Tuple[Node, ast.Call]] = field(default_factory=list)
    success_list: Optional[str] = None


def build_model(ck: Checker) -> TransferModel:
    prog, res = ck.prog, ck.res
    public = ck.func("hashfile.transfer", "transfer")
    mod = public.module
    # adder: function in the module that calls <dest>.add(...)
    adders = []
    for f in mod.funcs.values():
        if f.parent is not None:
            continue
        for c, _ in res.calls_in(f):
            if is_method_call(c, "add") and isinstance(c.func.value, ast.Name) and f.has_param(c.func.value.id) and "HashFileDB" in (f.param_annotation(c.func.value.id) or ""):
                adders.append(f)
                break
    if not adders:
        raise AnalysisError("hashfile.transfer: no helper that calls <dest>.add(...) (anchor vanished)")
    # move routine: callee of transfer() in this module that calls an adder
    move = None
    for c, callees in res.calls_in(public):
        for cal in callees:
            if cal.module is mod and any(a2.fq in {a.fq for a in adders} for _c2, cs in res.calls_in(cal) for a2 in cs):
                move = cal
    if move is None:
        # maybe inlined into transfer()
        if any(a2.fq in {a.fq for a in adders} for _c2, cs in res.calls_in(public) for a2 in cs):
            move = public
        else:
            raise AnalysisError("hashfile.transfer: cannot find the routine that performs the moves")
    adder = adders[0]
    g = ck.cfg(move)
    ck.cfg(adder)
    ck.cfg(public)

    def is_adder_call(c: ast.Call) -> bool:
        return any(cal.fq == adder.fq for cal in res.resolve(move, c))

    # the per-directory loop: a for-loop whose body holds >= 2 adder calls
    head = None
    for h in g.nodes.values():
        if h.kind != "for":
            continue
        n_calls = sum(1 for x in g.nodes.values() if h.id in x.loops and x.id != h.id for c in calls_at(x) if is_adder_call(c))
        if n_calls >= 2:
            head = h
    if head is None:
        raise AnalysisError("hashfile.transfer: per-directory loop (files add + dir add) not found")
    body = [x for x in g.nodes.values() if head.id in x.loops and x.id != head.id]
    # the tree object of the iteration
    sc = scope_of(move)
    dir_obj = None
    for x in body:
        a = x.ast
        if x.kind == "stmt" and isinstance(a, ast.Assign) and isinstance(a.targets[0], ast.Name) and isinstance(a.value, ast.Call):
            cn = call_name(a.value)
            if cn in ("find_tree_by_obj_id", "load", "_try_load") or "tree" in (cn or "").lower():
                dir_obj = a.targets[0].id
                break
    if dir_obj is None:
        raise AnalysisError("hashfile.transfer: directory object of the iteration not found")
    # `loaded = find_tree(...); assert loaded; dir_obj = loaded`: the name the rest of the iteration uses
    for _ in range(3):
        nxt = [x.ast.targets[0].id for x in body if x.kind == "stmt" and isinstance(x.ast, ast.Assign) and len(x.ast.targets) == 1 and isinstance(x.ast.targets[0], ast.Name)
               and isinstance(x.ast.value, ast.Name) and x.ast.value.id == dir_obj]
        n_defs = sum(1 for x in body if x.kind == "stmt" and isinstance(x.ast, (ast.Assign, ast.AnnAssign, ast.AugAssign))
                     and any(isinstance(t, ast.Name) and nxt and t.id == nxt[0] for t in (x.ast.targets if isinstance(x.ast, ast.Assign) else [x.ast.target])))
        if len(nxt) == 1 and n_defs == 1:
            dir_obj = nxt[0]
        else:
            break
    entry_ids = None
    from ..an import collection_builds

    cand = {x.ast.targets[0].id for x in body if x.kind == "stmt" and isinstance(x.ast, ast.Assign) and isinstance(x.ast.targets[0], ast.Name)}
    cand |= {x.ast.target.id for x in body if x.kind == "stmt" and isinstance(x.ast, ast.AnnAssign) and isinstance(x.ast.target, ast.Name)}
    for nm in sorted(cand):
        for b in collection_builds(g, move.node, nm):
            if isinstance(b.src, ast.Name) and b.src.id == dir_obj and b.unconditional and head.id in b.node.loops:
                tn = b.target_names()
                if tn and norm(b.elt) == tn[-1]:
                    entry_ids = nm
    rets = [r for r in walk_own(move.node) if isinstance(r, ast.Return) and isinstance(r.value, ast.Name)]
    failed = None
    for r in rets:
        failed = r.value.id
    if failed is None:
        raise AnalysisError("hashfile.transfer: cumulative failure set (returned name) not found")
    m = TransferModel(public, move, adder, g, head, body, dir_obj, entry_ids, failed)
    loopvar = head.ast.target.id if isinstance(head.ast.target, ast.Name) else None
    for x in g.nodes.values():
        for c in calls_at(x):
            if not is_adder_call(c):
                continue
            arg = get_arg(c, adder, "hash_infos", pos=2)
            is_dir = False
            if arg is not None:
                for alt in expand(prog, move, arg):
                    if isinstance(alt, (ast.List, ast.Tuple, ast.Set)) and len(alt.elts) == 1:
                        t = norm(alt.elts[0])
                        if t in (f"{dir_obj}.hash_info", loopvar) or t.startswith("find_tree_by_obj_id("):
                            is_dir = True
            if head.id in x.loops:
                (m.dir_add if is_dir else m.files_add).append((x, c))
            else:
                m.trailing_add.append((x, c))
    for x in body:
        for c in calls_at(x):
            if is_method_call(c, "append") and c.args and isinstance(c.func.value, ast.Name):
                from ..an import value_alts

                if any(norm(a_) == dir_obj for a_ in value_alts(g, x, c.args[0], depth=3)):
                    m.success_list = c.func.value.id
                # ... or a pair (directory, something computed from it) is remembered
                if isinstance(c.args[0], ast.Tuple) and c.args[0].elts and any(norm(a_) == dir_obj for a_ in value_alts(g, x, c.args[0].elts[0], depth=3)):
                    m.success_list = c.func.value.id
    return m


def is_dir_ident(ck: Checker, m: TransferModel, e: ast.expr) -> bool:
    """Does e denote this iteration's directory object id (dir_obj.hash_info / the loop variable),
    possibly through local aliases or wrapped in a one-element list/set?"""
    loopvar = m.head.ast.target.id if isinstance(m.head.ast.target, ast.Name) else None
    from ..prov import expand1

    for alt in expand1(ck.prog, m.move, e, levels=2):
        x = alt
        if isinstance(x, (ast.List, ast.Tuple, ast.Set)) and len(x.elts) == 1:
            x = x.elts[0]
        for a2 in expand1(ck.prog, m.move, x, levels=2):
            t = norm(a2)
            if t in (f"{m.dir_obj}.hash_info", loopvar):
                return True
    return False


def iteration_starts(m: TransferModel) -> List[int]:
    return [d for lab, d in m.head.succ if lab == "T"]



def check_rest_attempted(ck: Checker, m: "TransferModel", rule: str) -> None:
    """The files that belong to no directory are handed to the adding helper on every way out of the
    move routine that returns normally: a failure under some directory must not cancel unrelated files."""
    g, move = m.g, m.move
    ck.floor(rule, len(m.trailing_add), 1, "add of the loose (non-directory) files after the directory loop")
    tids = {x.id for x, _c in m.trailing_add}
    starts = [d for lab, d in m.head.succ if lab == "F"]
    # nothing to attempt when the pool of loose files is empty (`if file_ids:` around the call)
    pools = {norm(get_arg(c_, m.adder, "hash_infos", pos=2)) for _x, c_ in m.trailing_add if get_arg(c_, m.adder, "hash_infos", pos=2) is not None}

    def nothing_loose(a, lab, b):
        if lab == "exc":
            return True
        t_ = norm(a.ast) if a.kind == "test" and a.ast is not None else None
        return any((t_ == p_ and lab == "F") or (t_ == f"not {p_}" and lab == "T") for p_ in pools)

    reached = g.reach(starts, skip_node=lambda n: n.id in tids, skip_edge=nothing_loose, include_start=True)
    bad = g.exit in reached and not all(s_ in tids for s_ in starts)
    ck.require(not bad, rule, move, m.trailing_add[0][0] if m.trailing_add else move.node,
               "after the directory loop the loose files are always attempted before the routine returns",
               "the routine can return after the directory loop without attempting the loose files (e.g. fail-fast on a directory failure): they are neither transferred nor reported as failed",
               witness=g.fmt_path(g.path_to(reached, g.exit)) if bad else None, construct="loose files / always attempted")


_ONESHOT_CALLS = {"iter", "map", "filter", "zip", "reversed", "enumerate"}


def check_oneshot(ck: Checker, rule: str, fns) -> int:
    """A generator expression / iterator bound to a local must not be consumed inside a loop that does
    not also (re)create it, nor consumed twice in a row: the second consumer silently sees nothing."""
    from ..an import reaching_defs

    n_checked = 0
    for fn in fns:
        g = ck.cfg(fn)
        for d in g.nodes.values():
            a = d.ast
            if not (d.kind == "stmt" and isinstance(a, (ast.Assign, ast.AnnAssign))):
                continue
            tg = a.targets[0] if isinstance(a, ast.Assign) else a.target
            v = a.value
            if not isinstance(tg, ast.Name) or v is None:
                continue
            lazy = isinstance(v, ast.GeneratorExp) or (isinstance(v, ast.Call) and isinstance(v.func, ast.Name) and v.func.id in _ONESHOT_CALLS)
            if not lazy:
                continue
            n_checked += 1
            uses = []
            for x in g.nodes.values():
                if x.id == d.id:
                    continue
                from ..cfg import node_exprs

                for e in node_exprs(x):
                    for nm in walk_expr(e):
                        if isinstance(nm, ast.Name) and nm.id == tg.id and isinstance(nm.ctx, ast.Load) and d in reaching_defs(g, x.id, tg.id):
                            uses.append(x)
            bad_loop = [x for x in uses if any(lp not in d.loops for lp in x.loops)]
            ck.require(not bad_loop, rule, fn, bad_loop[0] if bad_loop else d,
                       f"one-shot iterator `{tg.id}` is not consumed inside a loop",
                       f"`{tg.id}` is a one-shot iterator ({norm(v)[:50]}) but is consumed inside a loop: from the second iteration on it is empty, so the test it feeds can no longer fire",
                       construct=f"{tg.id} = {norm(v)[:40]} / consumed in loop")
            twice = False
            for x in uses:
                r = g.reach([x.id], skip_node=lambda y, d=d: y.id == d.id)
                if any(y.id in r and y.id != x.id for y in uses):
                    twice = True
            if not bad_loop:
                ck.require(not twice, rule, fn, d, f"one-shot iterator `{tg.id}` is consumed once",
                           f"`{tg.id}` is a one-shot iterator ({norm(v)[:50]}) but is consumed more than once along a path", construct=f"{tg.id} = {norm(v)[:40]} / consumed twice")
    return n_checked


def check_claimed_attempted(ck: Checker, m: "TransferModel", rule: str) -> int:
    """Files taken out of the shared pool by a directory (`pool -= entry_ids`) are handed to the adding helper on
    every way to the next directory: once claimed, nobody else will send them, so skipping the upload (e.g. an
    early `continue` for a directory that also lists a missing file) leaves present files unsent *and* unreported."""
    g, move = m.g, m.move
    fids = {x.id for x, _c in m.files_add}
    n = 0
    for x in g.nodes.values():
        if m.head.id not in x.loops or x.kind != "stmt":
            continue
        a = x.ast
        pool = None
        if isinstance(a, ast.AugAssign) and isinstance(a.op, ast.Sub) and isinstance(a.target, ast.Name):
            pool = a.target.id
        elif isinstance(a, ast.Expr) and isinstance(a.value, ast.Call) and is_method_call(a.value, "difference_update") and isinstance(a.value.func.value, ast.Name):
            pool = a.value.func.value.id
        elif isinstance(a, ast.Assign) and len(a.targets) == 1 and isinstance(a.targets[0], ast.Name) and isinstance(a.value, ast.BinOp) and isinstance(a.value.op, ast.Sub) and norm(a.value.left) == a.targets[0].id:
            pool = a.targets[0].id
        if pool is None:
            continue
        # only the pool the loose-file add is fed from afterwards (or a plain alias of it: `p = file_ids; p -= ...`)
        tnames = {nm.id for _x, c in m.trailing_add for nm in ast.walk(c) if isinstance(nm, ast.Name)}
        aliases = {pool}
        for st in walk_own(move.node):
            if isinstance(st, ast.Assign) and len(st.targets) == 1 and isinstance(st.targets[0], ast.Name) and isinstance(st.value, ast.Name):
                if st.targets[0].id in aliases:
                    aliases.add(st.value.id)
                if st.value.id in aliases:
                    aliases.add(st.targets[0].id)
        if not (aliases & tnames):
            continue
        n += 1
        r = g.reach([d for lab, d in x.succ if lab != "exc"], skip_node=lambda y: y.id in fids, skip_edge=lambda p, lab, q: lab == "exc", include_start=True)
        bad = m.head.id in r and not any(d in fids for lab, d in x.succ)
        ck.require(not bad, rule, move, x, "files a directory claimed from the shared pool are always handed to the adding helper",
                   f"after `{x.text()[:40]}` the directory's own files can be skipped without being sent (e.g. `continue` before the upload when the directory also lists a missing file): they left the pool, so they are neither transferred nor reported as failed, and `new - failed` reports them as transferred",
                   witness=g.fmt_path(g.path_to(r, m.head.id)) if bad else None, construct=f"{x.text()[:40]} / claimed files attempted")
    return n


def check_missing_readonly(ck: Checker, m: "TransferModel", rule: str) -> None:
    """The set of ids missing on both sides is only read inside the per-directory loop: a directory that shares a
    missing file with an earlier one must still see it."""
    g, move = m.g, m.move
    mp = "missing_ids" if move.has_param("missing_ids") else None
    if mp is None:
        return
    MUT = ("difference_update", "discard", "remove", "pop", "clear", "intersection_update", "symmetric_difference_update")
    for x in g.nodes.values():
        if m.head.id not in x.loops:
            continue
        a = x.ast
        hit = False
        if x.kind == "stmt" and isinstance(a, ast.AugAssign) and isinstance(a.target, ast.Name) and a.target.id == mp and isinstance(a.op, (ast.Sub, ast.BitAnd, ast.BitXor)):
            hit = True
        for c in calls_at(x):
            if is_method_call(c, *MUT) and norm(c.func.value) == mp:
                hit = True
        if x.kind == "stmt" and isinstance(a, ast.Assign) and any(isinstance(t, ast.Name) and t.id == mp for t in a.targets):
            hit = True
        if hit:
            ck.fail(rule, move, x, f"`{x.text()[:50]}` shrinks / rebinds the set of ids missing on both sides inside the per-directory loop: a later directory that lists the same missing file no longer sees it, uploads its .dir object and is reported as transferred", construct=f"{x.text()[:40]} / missing set read-only")
    ck.ok(rule, move, move.node, "the missing-on-both-sides set is not modified inside the per-directory loop", construct="missing_ids / read-only in loop")
    # ... and neither is the directory's own listing: every later test ("a listed file failed earlier", "a listed file
    # is missing on both sides") is about *all* entries of the directory, not about those still unclaimed
    if m.entry_ids:
        n_bad = 0
        for x in g.nodes.values():
            if m.head.id not in x.loops:
                continue
            a = x.ast
            hit = x.kind == "stmt" and isinstance(a, ast.AugAssign) and isinstance(a.target, ast.Name) and a.target.id == m.entry_ids and isinstance(a.op, (ast.Sub, ast.BitAnd, ast.BitXor))
            for c in calls_at(x):
                if is_method_call(c, *MUT) and norm(c.func.value) == m.entry_ids:
                    hit = True
            if hit:
                n_bad += 1
                ck.fail(rule, move, x, f"`{x.text()[:50]}` shrinks the directory's own listing `{m.entry_ids}` before the tests that decide whether its .dir object may be sent: a listed file that failed under an earlier directory, or is missing on both sides, no longer blocks the directory object",
                        construct=f"{x.text()[:40]} / listing read-only")
        if not n_bad:
            ck.ok(rule, move, move.node, "the directory's listing is not shrunk inside the per-directory loop", construct="entry_ids / read-only in loop")
