"""C18 - Push and fetch through storage mappings move exactly the reachable objects."""
from __future__ import annotations

import ast

from ..an import avoiding_path, cut, flows_from_calls, is_method_call, reaches, reaching_defs, value_alts
from ..cfg import calls_at
from ..core import Checker
from ..loader import Func, norm, walk_expr, walk_own
from ..prov import call_name, expand1, get_arg, scope_of
from .C04 import _check_closed_requests, reported_rule
from .C17 import _accessors
from .transfer_common import build_model, check_rest_attempted
from .generic_lints import run_all as _lints

ROLES = ("data", "cache", "remote")


def check(ck: Checker) -> None:
    _lints(ck, "C18.aliasing", "index.push", "index.fetch", "index.collect")
    from .C07 import check_fetch_verify

    check_fetch_verify(ck, "C18.roles")
    ck.decided = [
        "C18.longest: StorageMapping.__getitem__ considers exactly the prefixes of the key, longest first, and each role independently takes the first non-None storage",
        "C18.roles: push transfers cache.odb -> data.odb with the remote's index as dest_index; fetch transfers data.odb -> cache.odb with the remote's index as src_index; data/cache are the root mapping's roles",
        "C18.closed: every hashed entry of the collected index is requested",
        "C18.counts: both counters advance by len(result.transferred) / len(result.failed) of that iteration's transfer; a withheld directory object is counted as failed, not as moved",
        "C18.objectpath: an entry's object path and object key are derived from the same hash value through the store's own layout functions",
        "C18.prefixload: collecting below a mapping prefix first loads the unloaded directory that contains the prefix",
        "C18.legacy: Tree.load names listed files with the store's algorithm (md5-dos2unix stores) when the caller gives none",
    ]
    ck.not_decided = ["the reachable set itself and the bytes moved (needs execution)", "retry completion", "file-storage (non object store) branches"]
    ck.trusted = ["hashfile.transfer (C04/C11)", "sqltrie views"]
    prog = ck.prog
    _longest(ck)
    _roles(ck)
    _check_closed_requests(ck, "C18.closed")
    m = build_model(ck)
    reported_rule(ck, m, "C18.counts")
    check_rest_attempted(ck, m, "C18.counts")
    from .C12 import check_index_read_after_validation

    check_index_read_after_validation(ck, "C18.closed")
    _collect_skip(ck, "C18.closed")
    from . import round7 as _r7

    _r7.collect_every_entry(ck, "C18.closed")
    from . import round9 as _r9

    _r9.storage_resolved_per_entry(ck, "C18.roles")
    _objectpath(ck)
    _accessors(ck)
    for o in ck.obs:
        if o.rule == "C17.accessors":
            o.rule = "C18.prefixload"
    _legacy(ck)
    _viewcopy(ck)


def _viewcopy(ck: Checker) -> None:
    """Each per-remote view gets its own storage mapping: collect() assigns view.storage_map[()] per remote."""
    fn = ck.prog.func("index.index", "DataIndex.view")
    asg = [x for x in walk_own(fn.node) if isinstance(x, ast.Assign) and norm(x.targets[0]).endswith(".storage_map")]
    ok = False
    why = "view() does not give the new index a storage map"
    for a in asg:
        v = a.value
        t = norm(v)
        if isinstance(v, ast.Call) and (norm(v.func) in ("copy.deepcopy", "deepcopy")) and v.args and norm(v.args[0]) == "self.storage_map":
            ok = True
        elif isinstance(v, ast.Call) and call_name(v) == "StorageMapping" and v.args:
            ok = True
        else:
            why = f"view() shares the mapping ({t}): assigning the root storage of one remote's view overwrites it for every other view, so objects are pushed to the wrong remote"
    ck.require(ok, "C18.viewcopy", fn, asg[0] if asg else fn.node, "a view owns an independent copy of the storage mapping", why)


def _longest(ck: Checker) -> None:
    prog = ck.prog
    fn = prog.func("index.index", "StorageMapping.__getitem__")
    g = ck.cfg(fn)
    # `prefix_len = len(prefix)` hoisted into a local: put back before the shapes are compared
    import re as _re

    _lens = {}
    for nm_, ds_ in scope_of(fn).defs.items():
        ds_ = [d for d in ds_ if d.kind in ("assign", "annassign")]
        if len(ds_) == 1 and len(scope_of(fn).get(nm_)) == 1 and isinstance(ds_[0].value, ast.Call) and call_name(ds_[0].value) == "len":
            _lens[nm_] = norm(ds_[0].value).replace(" ", "")

    def _txt(e) -> str:
        t = norm(e).replace(" ", "")
        for nm_, v_ in _lens.items():
            t = _re.sub(rf"(?<![\w.]){_re.escape(nm_)}(?!\w)", v_, t)
        return t

    def _is_prefix_cmp(e) -> bool:
        if not (isinstance(e, ast.Compare) and len(e.ops) == 1 and isinstance(e.ops[0], ast.Eq)):
            return False
        sides = {_txt(e.left), _txt(e.comparators[0])}
        for s_ in sides:
            other = (sides - {s_}).pop() if len(sides) == 2 else None
            if other and s_ == f"key[:len({other})]":
                return True
        return False

    def _is_len_guard(e) -> bool:
        t = _txt(e)
        return isinstance(e, ast.Compare) and ("len(" in t and "len(key)" in t)

    apps = [(n, c) for n in g.nodes.values() for c in calls_at(n) if is_method_call(c, "append")]
    lst = None
    if apps:
        lst = norm(apps[0][1].func.value)
    else:
        from ..an import collection_builds

        for n in g.nodes.values():
            a_ = n.ast
            if n.kind == "stmt" and isinstance(a_, ast.Assign) and isinstance(a_.targets[0], ast.Name):
                for bld in collection_builds(g, fn.node, a_.targets[0].id):
                    if bld.node is n and isinstance(bld.src, ast.Call) and is_method_call(bld.src, "items") and norm(bld.src.func.value) == "self._map":
                        lst = a_.targets[0].id
                        atoms = []
                        for i in bld.ifs:
                            atoms += i.values if isinstance(i, ast.BoolOp) and isinstance(i.op, ast.And) else [i]
                        okc = any(_is_prefix_cmp(x) for x in atoms) and all(_is_prefix_cmp(x) or _is_len_guard(x) for x in atoms)
                        ck.require(okc, "C18.longest", fn, n, "candidates are exactly the storages whose prefix is a prefix of the key", f"candidate filter {[norm(x) for x in atoms]} is not 'prefix is a prefix of the key'")
                        tn = bld.target_names()
                        ck.require(isinstance(bld.elt, ast.Tuple) and [norm(x) for x in bld.elt.elts] == tn, "C18.longest", fn, n, "candidates keep (prefix, storage) pairs", f"candidate element is {norm(bld.elt)}", construct=f"{n.text()[:60]} / element")
    if lst is None:
        ck.floor("C18.longest", 0, 1, "candidate collection in StorageMapping.__getitem__")
    for n, c in apps:
        def is_prefix(t, lab):
            return t.kind == "test" and lab == "T" and _is_prefix_cmp(t.ast)

        w = cut(g, [n.id], is_prefix)
        ck.require(w is None, "C18.longest", fn, n, "a storage is a candidate only if its prefix is a prefix of the key", "a storage whose prefix is not a prefix of the key can become a candidate", witness=g.fmt_path(w) if w else None)
        h = g.nodes[n.loops[-1]] if n.loops else None
        if h is not None:
            def skip(a, lab, b):
                if lab == "exc":
                    return True
                if a.kind == "test" and is_prefix(a, "T") and lab == "F":
                    return True
                if a.kind == "test" and _is_len_guard(a.ast):
                    return True
                return False

            r = g.reach([d for lab, d in h.succ if lab == "T"], skip_node=lambda x: x.id == n.id, skip_edge=skip)
            ck.require(h.id not in r, "C18.longest", fn, h, "every matching prefix becomes a candidate", "a matching prefix can be dropped from the candidates", construct="candidates / NODROP")
    # ordering: longest first
    ordered = False
    sort_node = None
    for n in g.nodes.values():
        a = n.ast
        if n.kind == "stmt" and isinstance(a, ast.Assign) and isinstance(a.value, ast.Call) and call_name(a.value) == "sorted" and a.value.args and norm(a.value.args[0]) == lst:
            key = next((k.value for k in a.value.keywords if k.arg == "key"), None)
            rev = next((k.value for k in a.value.keywords if k.arg == "reverse"), None)
            kt = norm(key).replace(" ", "") if key is not None else ""
            desc = isinstance(rev, ast.Constant) and rev.value is True and "len(" in kt and "[0]" in kt and "-len" not in kt
            neg = rev is None and "-len(" in kt and "[0]" in kt
            ordered = desc or neg
            sort_node = n
        for c in calls_at(n):
            if is_method_call(c, "sort") and norm(c.func.value) == lst:
                key = next((k.value for k in c.keywords if k.arg == "key"), None)
                rev = next((k.value for k in c.keywords if k.arg == "reverse"), None)
                kt = norm(key).replace(" ", "") if key is not None else ""
                ordered = (isinstance(rev, ast.Constant) and rev.value is True and "len(" in kt and "[0]" in kt) or (rev is None and "-len(" in kt)
                sort_node = n
    if not ordered and sort_node is not None and apps:
        # the length may be stored in the candidate itself: `matches.append((len(prefix), storage))`, key=lambda m: m[0]
        import re as _re2

        for n_ in g.nodes.values():
            for c_ in calls_at(n_):
                srt = c_ if is_method_call(c_, "sort") and norm(c_.func.value) == lst else (c_ if call_name(c_) == "sorted" and c_.args and norm(c_.args[0]) == lst else None)
                if srt is None:
                    continue
                key = next((k.value for k in srt.keywords if k.arg == "key"), None)
                rev = next((k.value for k in srt.keywords if k.arg == "reverse"), None)
                m_ = _re2.fullmatch(r"lambda(\w+):\1\[(\d+)\]", norm(key).replace(" ", "")) if key is not None else None
                if m_ and isinstance(rev, ast.Constant) and rev.value is True:
                    idx = int(m_.group(2))
                    rows = [c2.args[0] for _n2, c2 in apps if c2.args and isinstance(c2.args[0], ast.Tuple) and len(c2.args[0].elts) > idx]
                    if rows and len(rows) == len(apps) and all(_re2.fullmatch(r"len\(\w+\)", _txt(r_.elts[idx])) for r_ in rows):
                        ordered = True
    ck.require(ordered, "C18.longest", fn, sort_node or fn.node, "candidates are ordered by descending prefix length", "candidates are not ordered longest-prefix-first: a shorter prefix's storage can shadow the designated one")
    # per role: first non-None wins
    pick = [h for h in g.nodes.values() if h.kind == "for" and sort_node is not None and avoiding_path(g, h.id, lambda x: x.id == sort_node.id) is None and h.id != (apps[0][0].loops[-1] if apps and apps[0][0].loops else -1) and norm(h.ast.iter) == lst]
    ck.floor("C18.longest", len(pick), 1, "selection loop over ordered candidates")
    ph = pick[0]
    for role in ROLES:
        asg = [n for n in g.nodes.values() if ph.id in n.loops and n.kind == "stmt" and isinstance(n.ast, ast.Assign) and norm(n.ast.targets[0]) == role]
        ok = bool(asg) and all(norm(n.ast.value).endswith(f".{role}") for n in asg)
        for n in asg:
            w = cut(g, [n.id], lambda t, lab, role=role: t.kind == "test" and norm(t.ast) == f"{role} is None" and lab == "T", start=ph.id)
            ok = ok and w is None
        ck.require(ok, "C18.longest", fn, asg[0] if asg else ph, f"role `{role}` takes the first non-None storage in that order", f"role `{role}` is not resolved as 'first non-None along descending prefixes' (a longer prefix's storage can be overwritten by a shorter one, or roles are coupled)", construct=f"role {role} / first non-None")
    # early exit only when all roles are filled
    for n in g.nodes.values():
        if n.kind == "stmt" and isinstance(n.ast, ast.Break) and ph.id in n.loops:
            w = None
            for role in ROLES:
                w = w or cut(g, [n.id], lambda t, lab, role=role: t.kind == "test" and norm(t.ast) == role and lab == "T", start=ph.id)
            ck.require(w is None, "C18.longest", fn, n, "the search stops early only when every role is resolved", "the search can stop before every role is resolved (fallback to shorter prefixes lost)", witness=g.fmt_path(w) if w else None)
    rets = [r for r in walk_own(fn.node) if isinstance(r, ast.Return) and isinstance(r.value, ast.Call)]
    ck.require(any({k.arg: norm(k.value) for k in r.value.keywords} == {x: x for x in ROLES} for r in rets), "C18.longest", fn, fn.node, "result carries data/cache/remote in their own fields", "StorageInfo is not built as (data=data, cache=cache, remote=remote)", construct="return StorageInfo(...)")


def root_mapping_canon(fn: Func):
    """text -> text with `<alias>.` / `fs_index.storage_map[()].` stripped, where <alias> is a local bound to the root
    mapping `fs_index.storage_map[()]`: `root_info.data.odb` reads as `data.odb`."""
    aliases = ["fs_index.storage_map[()]"]
    for nm, ds in scope_of(fn).defs.items():
        vals = [getattr(d, "value", None) for d in ds if d.kind in ("assign", "annassign")]
        if vals and len(vals) == len(ds) and all(v is not None and norm(v) == "fs_index.storage_map[()]" for v in vals):
            aliases.append(nm)

    def canon(t: str) -> str:
        for a in aliases:
            t = t.replace(a + ".", "")
        return t

    return canon


def _roles(ck: Checker) -> None:
    prog = ck.prog
    tr = prog.func("hashfile.transfer", "transfer")
    expect = {"push": ("cache.odb", "data.odb", "dest_index"), "fetch": ("data.odb", "cache.odb", "src_index")}
    for name, (src, dest, idxrole) in expect.items():
        fn = prog.func(f"index.{name}", name)
        g = ck.cfg(fn)
        calls = [(n, c) for n in g.nodes.values() for c in calls_at(n) if any(x.fq == tr.fq for x in ck.res.resolve(fn, c))]
        ck.floor("C18.roles", len(calls), 1, f"transfer() calls in {name}")
        for n, c in calls:
            s, d = get_arg(c, tr, "src", pos=0), get_arg(c, tr, "dest", pos=1)
            canon = root_mapping_canon(fn)
            ck.require(s is not None and d is not None and canon(norm(s)) == src and canon(norm(d)) == dest, "C18.roles", fn, n, f"{name} moves {src} -> {dest}", f"{name} calls transfer({norm(s) if s is not None else None}, {norm(d) if d is not None else None}, ...): source and destination roles are wrong", construct=f"{name}: transfer(src, dest)")
            for role in ("data", "cache"):
                defs = reaching_defs(g, n.id, role)
                if not defs and role not in {x.id for x in walk_expr(c) if isinstance(x, ast.Name)}:
                    # no local of that name: the storages are read straight off the root mapping (checked above)
                    ck.ok("C18.roles", fn, n, f"`{role}` is read from the root mapping at the call", construct=f"{name}: {role} binding")
                    continue
                def _full(x):
                    v = getattr(x.ast, "value", None)
                    if v is None:
                        return []
                    out_ = [norm(v)]
                    # `info = fs_index.storage_map[()]; data = info.data`: the local is put back
                    if isinstance(v, ast.Attribute) and isinstance(v.value, ast.Name):
                        for d2 in reaching_defs(g, x.id, v.value.id):
                            v2 = getattr(d2.ast, "value", None)
                            if v2 is not None and isinstance(d2.ast, (ast.Assign, ast.AnnAssign)):
                                out_.append(f"{norm(v2)}.{v.attr}")
                    return out_

                ok = bool(defs) and all(f"fs_index.storage_map[()].{role}" in _full(x) for x in defs)
                ck.require(ok, "C18.roles", fn, n, f"`{role}` is the root mapping's {role} storage", f"`{role}` is bound to {[norm(getattr(x.ast, 'value', None)) for x in defs]}", construct=f"{name}: {role} binding")
            # guarded by both being object storages
            w = cut(g, [n.id], lambda t, lab: t.kind == "test" and lab == "T" and canon(norm(t.ast)) == "isinstance(data, ObjectStorage)")
            ck.require(w is None, "C18.roles", fn, n, "object transfer is used only between object stores", "object transfer can be attempted on a non-object storage", construct=f"{name}: isinstance guard")
            res_name = None
            for x in g.nodes.values():
                if x.kind == "stmt" and isinstance(x.ast, ast.Assign) and x.ast.value is c:
                    res_name = norm(x.ast.targets[0])
            first = "pushed" if name == "push" else "fetched"
            want = {first: f"len({res_name}.transferred)", "failed": f"len({res_name}.failed)"}
            for counter, expr_txt in want.items():
                augs = [x for x in g.nodes.values() if x.kind == "stmt" and isinstance(x.ast, ast.AugAssign) and isinstance(x.ast.op, ast.Add) and norm(x.ast.target) == counter]
                hit = [x for x in augs if any(norm(a) == expr_txt for a in value_alts(g, x, x.ast.value, depth=3)) and reaches(g, n.id, x.id, skip_edge=lambda a, l, b: bool(n.loops) and b.id == n.loops[0])]
                ck.require(bool(hit), "C18.counts", fn, n, f"{counter} += {expr_txt} for this iteration's transfer", f"{name}: counter `{counter}` is never advanced by {expr_txt} after the transfer (advanced by {[norm(x.ast.value) for x in augs]})", construct=f"{name}: {counter} += {expr_txt}")
        rets = [norm(r.value) for r in walk_own(fn.node) if isinstance(r, ast.Return) and r.value is not None]
        first = "pushed" if name == "push" else "fetched"
        ck.require(rets == [f"({first}, failed)"], "C18.counts", fn, fn.node, f"returns ({first}, failed)", f"{name} returns {rets}", construct=f"{name}: return")


def _objectpath(ck: Checker) -> None:
    prog = ck.prog
    get = prog.func("index.index", "ObjectStorage.get")
    gk = prog.func("index.index", "ObjectStorage.get_key")
    def _canon_self(fn_, t):
        # `odb = self.odb` / `hash_info = entry.hash_info` read once into a local: put back
        import re as _re3

        for nm_, ds_ in scope_of(fn_).defs.items():
            vals = [getattr(d_, "value", None) for d_ in ds_ if d_.kind in ("assign", "annassign")]
            if len(vals) == 1 and len(ds_) == 1 and isinstance(vals[0], ast.Attribute) and not fn_.has_param(nm_):
                t = _re3.sub(rf"(?<![\w.]){_re3.escape(nm_)}(?!\w)", norm(vals[0]), t)
        return t

    r1 = [_canon_self(get, norm(r.value)) for r in walk_own(get.node) if isinstance(r, ast.Return) and r.value is not None]
    r2 = [_canon_self(gk, norm(r.value)) for r in walk_own(gk.node) if isinstance(r, ast.Return) and r.value is not None]
    ck.require(r1 == ["(self.odb.fs, self.odb.oid_to_path(entry.hash_info.value))"], "C18.objectpath", get, get.node, "object path is odb.oid_to_path(entry.hash_info.value) on the store's fs", f"ObjectStorage.get returns {r1}")
    ck.require(r2 == ["self.odb._oid_parts(entry.hash_info.value)"], "C18.objectpath", gk, gk.node, "object key is odb._oid_parts(entry.hash_info.value)", f"ObjectStorage.get_key returns {r2}")


def _legacy(ck: Checker) -> None:
    prog = ck.prog
    ld = prog.func("hashfile.tree", "Tree.load")
    g = ck.cfg(ld)
    fl = [(n, c) for n in g.nodes.values() for c in calls_at(n) if is_method_call(c, "from_list")]
    ck.floor("C18.legacy", len(fl), 1, "from_list call in Tree.load")
    n, c = fl[0]
    hn = next((k.value for k in c.keywords if k.arg == "hash_name"), None)
    ok = False
    if isinstance(hn, ast.Name):
        defs = reaching_defs(g, n.id, hn.id)
        for d in defs:
            v = getattr(d.ast, "value", None)
            if isinstance(v, ast.Constant) and v.value == "md5-dos2unix":
                w = cut(g, [d.id], lambda t, lab: t.kind == "test" and lab == "T" and norm(t.ast) in ("odb.hash_name == 'md5-dos2unix'", "'md5-dos2unix' == odb.hash_name"))
                ok = w is None
            elif v is not None and norm(v) == "odb.hash_name":
                ok = True
    ck.require(ok, "C18.legacy", ld, n, "a legacy (md5-dos2unix) store's listings are parsed with the store's algorithm name",
               "Tree.load no longer falls back to the store's md5-dos2unix algorithm when parsing a listing: listed files get hash name 'md5', do not match the collected entries, and the directory object is transferred without its files")


def _collect_skip(ck: Checker, rule: str) -> None:
    """index.collect.collect(): a storage is skipped as "already in the persistent collection cache" only the first
    time this call meets it (`key not in storage_by_fs`).  Once the call itself has started filling that storage,
    the cache has the node because of *this* call - skipping then drops every later prefix that resolves to the
    same storage, so its entries are never requested (and nothing is counted as failed)."""
    fn = ck.prog.func("index.collect", "collect")
    g = ck.cfg(fn)
    # the per-call table of storages: the dict the final loop iterates with .items()
    tables = {norm(h.ast.iter.func.value) for h in g.nodes.values() if h.kind == "for" and not h.loops[:-1] and isinstance(h.ast.iter, ast.Call) and is_method_call(h.ast.iter, "items") and isinstance(h.ast.iter.func.value, ast.Name)
              and any(d.kind in ("assign", "annassign") and isinstance(d.value, (ast.Dict,)) and not d.value.keys for d in scope_of(fn).get(norm(h.ast.iter.func.value)))}
    skips = [(n, c) for n in g.nodes.values() for c in calls_at(n) if is_method_call(c, "add") and isinstance(c.func.value, ast.Name) and n.loops
             and any(isinstance(t.ast, ast.Compare) and len(t.ast.ops) == 1 and isinstance(t.ast.ops[0], (ast.In, ast.NotIn)) and norm(t.ast.comparators[0]) == c.func.value.id for t in g.nodes.values() if t.kind == "test")
             and any(d.kind in ("assign", "annassign") and isinstance(d.value, ast.Call) and norm(d.value) == "set()" for d in scope_of(fn).get(c.func.value.id))]
    ck.floor(rule, len(tables), 1, "per-call storage tables in collect()")
    if not skips and tables:
        # no remembered skip set: the "already in the collection cache" test (has_node) decides on the spot
        def first_time_any(t, lab):
            if t.kind != "test" or not isinstance(t.ast, ast.Compare) or len(t.ast.ops) != 1:
                return False
            e = t.ast
            if norm(e.comparators[0]) not in tables:
                return False
            return (isinstance(e.ops[0], ast.NotIn) and lab == "T") or (isinstance(e.ops[0], ast.In) and lab == "F")

        hn = [t for t in g.nodes.values() if t.kind == "test" and t.loops and any(isinstance(x, ast.Call) and is_method_call(x, "has_node") for x in walk_expr(t.ast))]
        colls = {n.id for n in g.nodes.values() for c in calls_at(n) if call_name(c) == "_collect_from_index"}
        n_dec = 0
        for t in hn:
            pos_lab = "F" if (isinstance(t.ast, ast.UnaryOp) and isinstance(t.ast.op, ast.Not)) else "T"
            head = t.loops[-1]
            reach_t = cut(g, [t.id], first_time_any, start=head)
            skipped = g.reach([d for lab, d in t.succ if lab == pos_lab], skip_node=lambda x: x.id in colls, skip_edge=lambda a, lab, b: lab == "exc")
            if head in skipped:
                n_dec += 1
                ck.require(reach_t is None, rule, fn, t, "a storage is skipped as already collected only when this call has not met it yet",
                           f"`{norm(t.ast)[:60]}` decides on the spot whether a storage was already collected, with no `key not in <per-call table>` before it: once this very call has started filling that storage the cache has the node, so every later prefix (or index) that resolves to the same storage is left out, its entries are never requested and nothing is reported as failed",
                           witness=g.fmt_path(reach_t) if reach_t else None, construct=f"{norm(t.ast)[:40]} / first meeting only")
        if n_dec:
            return
    ck.floor(rule, len(skips), 1, "skip-set insertions in collect()")
    for n, c in skips:
        k = norm(c.args[0]) if c.args else "?"

        def first_time(t, lab, k=k):
            if t.kind != "test" or not isinstance(t.ast, ast.Compare) or len(t.ast.ops) != 1:
                return False
            e = t.ast
            if norm(e.left) != k or norm(e.comparators[0]) not in tables:
                return False
            return (isinstance(e.ops[0], ast.NotIn) and lab == "T") or (isinstance(e.ops[0], ast.In) and lab == "F")

        wit = cut(g, [n.id], first_time, start=n.loops[-1])
        ck.require(wit is None, rule, fn, n, "a storage is skipped as already collected only when this call has not met it yet",
                   f"`{norm(c)}` can mark a storage as already collected although this very call has just started collecting it (no `{k} not in <per-call table>` on the way): every later prefix that resolves to the same storage is then left out, its entries are never requested and nothing is reported as failed",
                   witness=g.fmt_path(wit) if wit else None, construct=f"{norm(c)} / first meeting only")
