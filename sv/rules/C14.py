"""C14 - Hashing is correct, chunking-independent, and a faithful pass-through."""
from __future__ import annotations

import ast
from typing import Optional

from ..an import count_on_paths, cut, flows_from_calls, is_method_call, reaching_defs, value_alts
from ..cfg import calls_at
from ..core import Checker
from ..loader import AnalysisError, Func, norm, walk_expr, walk_own
from ..prov import call_name, expand1, scope_of


def const_eval(ck: Checker, scope, e: ast.expr, depth=0) -> Optional[int]:
    if depth > 5:
        return None
    if isinstance(e, ast.Constant) and isinstance(e.value, int):
        return e.value
    if isinstance(e, ast.BinOp):
        a, b = const_eval(ck, scope, e.left, depth + 1), const_eval(ck, scope, e.right, depth + 1)
        if a is None or b is None:
            return None
        if isinstance(e.op, ast.Pow):
            return a ** b
        if isinstance(e.op, ast.Mult):
            return a * b
        if isinstance(e.op, ast.Add):
            return a + b
        if isinstance(e.op, ast.LShift):
            return a << b
    if isinstance(e, ast.Name):
        ent = ck.prog.lookup_name(scope, e.id)
        if isinstance(ent, tuple) and ent[0] == "const":
            return const_eval(ck, ent[2], ent[1], depth + 1)
    return None


def check(ck: Checker) -> None:
    ck.decided = [
        "C14.passthrough: every read() of the hashing streams returns exactly what the wrapped file returned, feeds the hasher exactly once per read with that chunk (or its normalisation) and advances the byte counter by the length of what was hashed",
        "C14.driver: the chunked driver leaves its loop only on an empty read and takes the digest from the same stream",
        "C14.select: the normalising stream is chosen iff the algorithm is md5-dos2unix, which maps to md5; the algorithm name is lower-cased",
        "C14.window: chunk sizes reaching the normalising stream are >= the text-sniffing window",
        "C14.nul: a block containing a NUL byte is classified binary",
    ]
    ck.not_decided = ["digest values (hashlib / blake3)", "the 30% text heuristic", "CRLF/LF equivalence across read boundaries"]
    ck.trusted = ["hashlib update/hexdigest"]
    prog = ck.prog
    base = prog.cls("hashfile.hash", "HashStreamFile")
    classes = [base] + prog.subclasses(base)
    reads = [c.methods["read"] for c in classes if "read" in c.methods]
    ck.floor("C14.passthrough", len(reads), 2, "read() implementations of the hashing streams")
    for rd in reads:
        _read(ck, rd)
    _driver(ck)
    _select(ck)
    _nul(ck)
    from . import round4 as _r4

    _r4.text_ratio_exact(ck, "C14.ratio")
    _r4.hash_file_digest_sources(ck, "C14.select")
    from . import round7 as _r7

    _r7.meta_from_info_own_keys(ck, "C14.select")
    from . import round8 as _r8

    _r8.fs_hash_by_requested_name(ck, "C14.select")
    from . import round11 as _r11

    _r11.text_chars_exact(ck, "C14.ratio")



def _read(ck: Checker, rd: Func) -> None:
    g = ck.cfg(rd)
    src_calls = [c for c in walk_own(rd.node) if isinstance(c, ast.Call) and is_method_call(c, "read") and norm(c.func.value) == "self.fobj"]
    ck.require(len(src_calls) == 1 and [norm(a) for a in src_calls[0].args] == [rd.pos_params[1]] if len(rd.pos_params) > 1 else False, "C14.passthrough", rd, rd.node,
               "reads once from the wrapped file with the caller's size", f"read() does not read exactly once from self.fobj with the caller's size: {[norm(c) for c in src_calls]}", construct=f"{rd.qual} / source read")
    if not src_calls:
        return
    sc = src_calls[0]
    rets = [n for n in g.nodes.values() if n.kind == "stmt" and isinstance(n.ast, ast.Return)]
    for r in rets:
        v = r.ast.value
        ok = isinstance(v, ast.Name)
        if ok:
            defs = reaching_defs(g, r.id, v.id)
            ok = bool(defs) and all(getattr(d.ast, "value", None) is sc for d in defs)
        ck.require(ok, "C14.passthrough", rd, r, "returns exactly the bytes read from the wrapped file", f"read() returns {norm(v) if v is not None else None}, which is not the untouched chunk read from the wrapped file", construct=f"{rd.qual}: {r.text()}")

    def w_update(n):
        return sum(1 for c in calls_at(n) if is_method_call(c, "update") and norm(c.func.value) == "self.hasher")

    lo, hi, wit = count_on_paths(g, [(g.entry, None)], {g.exit}, w_update)
    ck.require(lo == 1 and hi == 1, "C14.passthrough", rd, rd.node, "the hasher is fed exactly once per read", f"the hasher is fed {lo}..{hi} times per read (bytes skipped or hashed twice)", witness=g.fmt_path(wit["min"] if lo != 1 else wit["max"]) if (lo, hi) != (1, 1) else None, construct=f"{rd.qual} / hasher.update count")
    hashed = None
    for n in g.nodes.values():
        for c in calls_at(n):
            if is_method_call(c, "update") and norm(c.func.value) == "self.hasher" and c.args:
                hashed = c.args[0]
                # hashed value is the chunk or a function of the chunk alone
                ok = flows_from_calls(g, n, hashed, [sc])
                ck.require(ok, "C14.passthrough", rd, n, "what is hashed derives from the chunk just read", f"hashed value {norm(hashed)} does not derive from the chunk read", construct=f"{rd.qual}: {n.text()}")
                if isinstance(hashed, ast.Name):
                    for d in reaching_defs(g, n.id, hashed.id):
                        v = getattr(d.ast, "value", None)
                        if v is not None and v is not sc:
                            nm = {x.id for x in walk_expr(v) if isinstance(x, ast.Name)}
                            ok2 = isinstance(v, ast.Call) and call_name(v) == "dos2unix" or (isinstance(v, ast.Name))
                            ck.require(ok2, "C14.passthrough", rd, d, "normalisation is dos2unix(chunk) or the chunk itself", f"hashed data is {norm(v)}", construct=f"{rd.qual}: {d.text()}")
    augs = [n for n in g.nodes.values() if n.kind == "stmt" and isinstance(n.ast, (ast.AugAssign, ast.Assign)) and norm(n.ast.target if isinstance(n.ast, ast.AugAssign) else n.ast.targets[0]) == "self.total_read"]
    okc = len(augs) >= 1
    upd = [(n, norm(c.args[0])) for n in g.nodes.values() for c in calls_at(n) if is_method_call(c, "update") and norm(c.func.value) == "self.hasher" and c.args]
    for a in augs:
        okc = okc and isinstance(a.ast, ast.AugAssign) and isinstance(a.ast.op, ast.Add) and isinstance(a.ast.value, ast.Call) and call_name(a.ast.value) == "len" and bool(a.ast.value.args)
        if okc:
            y = norm(a.ast.value.args[0])
            # the update(s) this counter statement can follow (or precede) on one path hash exactly that value
            around = [t for n, t in upd if a.id in g.reach([n.id], skip_edge=lambda p, l, q: l == "exc") or n.id in g.reach([a.id], skip_edge=lambda p, l, q: l == "exc")]
            okc = bool(around) and all(t == y for t in around)
    ck.require(okc, "C14.passthrough", rd, augs[0] if augs else rd.node, "byte counter advances by len() of what was hashed",
               f"byte counter is not advanced by len(<hashed bytes>): {[a.text() for a in augs]}", construct=f"{rd.qual} / total_read")

    def w_cnt(n):
        return 1 if n in augs else 0

    lo, hi, _ = count_on_paths(g, [(g.entry, None)], {g.exit}, w_cnt)
    ck.require(lo == 1 and hi == 1, "C14.passthrough", rd, rd.node, "counter advanced exactly once per read", f"counter advanced {lo}..{hi} times per read", construct=f"{rd.qual} / total_read count")
    if rd.cls is not None and rd.cls.name != "HashStreamFile":
        # normalising stream: window assertion
        asserts = [x for x in walk_own(rd.node) if isinstance(x, ast.Assert)]
        ck.require(any("DEFAULT_CHUNK_SIZE" in norm(a.test) and ">=" in norm(a.test) for a in asserts), "C14.window", rd, rd.node,
                   "the normalising read refuses reads smaller than the sniffing window", "the normalising read no longer asserts n >= DEFAULT_CHUNK_SIZE", construct=f"{rd.qual} / assert window")


def _driver(ck: Checker) -> None:
    prog = ck.prog
    fn = prog.func("hashfile.hash", "fobj_md5")
    g = ck.cfg(fn)
    reads = [c for c in walk_own(fn.node) if isinstance(c, ast.Call) and is_method_call(c, "read")]
    ck.floor("C14.driver", len(reads), 1, "stream reads in fobj_md5")
    loop_nodes = [n for n in g.nodes.values() if n.loops]
    exits = []
    for n in loop_nodes:
        for lab, d in n.succ:
            if lab != "exc" and not g.nodes[d].loops and d not in (g.raise_exit,):
                exits.append((n, lab, d))
    ck.floor("C14.driver", len(exits), 1, "loop exits in fobj_md5")

    def empty_read(t, lab):
        if t.kind != "test" or lab != "F":
            return False
        e = t.ast.value if isinstance(t.ast, ast.NamedExpr) else t.ast
        if any(e is r for r in reads):
            return True  # `while stream.read(n): ...`  /  `while (data := stream.read(n)): ...`
        if not (flows_from_calls(g, t, t.ast, reads) and isinstance(t.ast, ast.Name)):
            return False
        # the flag must stand for "the read returned something": the data itself, its length / truthiness, or a comparison
        # of those with a constant - not a comparison with the requested size (a short read is not EOF)
        from ..an import value_alts as _va

        def emptiness(e, depth=4) -> bool:
            if any(e is r for r in reads):
                return True
            if isinstance(e, ast.Name):
                alts = [a for a in _va(g, t, e, depth=3) if not isinstance(a, ast.Name)]
                return bool(alts) and all(emptiness(a, depth - 1) for a in alts) if depth > 0 else False
            if isinstance(e, ast.Call) and isinstance(e.func, ast.Name) and e.func.id in ("len", "bool") and len(e.args) == 1:
                return emptiness(e.args[0], depth - 1)
            if isinstance(e, ast.UnaryOp) and isinstance(e.op, ast.Not):
                return emptiness(e.operand, depth - 1)
            if isinstance(e, ast.Compare) and len(e.ops) == 1 and isinstance(e.comparators[0], ast.Constant):
                return emptiness(e.left, depth - 1)
            return False

        return emptiness(t.ast)

    after = {d for _n, _l, d in exits}
    w = cut(g, list(after), empty_read)
    ck.require(w is None, "C14.driver", fn, exits[0][0], "the read loop ends only when a read returned no data",
               "the read loop can end although the last read returned data (e.g. on a short read): the rest of the content is not hashed", witness=g.fmt_path(w) if w else None, construct="while True: ... if not data: break")
    rets = [n for n in g.nodes.values() if n.kind == "stmt" and isinstance(n.ast, ast.Return)]
    for r in rets:
        v = r.ast.value
        ok = isinstance(v, ast.Attribute) and v.attr == "hash_value" and isinstance(v.value, ast.Name) and any(norm(c.func.value) == v.value.id for c in reads)
        ck.require(ok, "C14.driver", fn, r, "digest is taken from the stream that was read", f"returned {norm(v)} is not the hash_value of the stream that was read")
    gs = [c for c in walk_own(fn.node) if isinstance(c, ast.Call) and call_name(c) == "get_hash_stream"]
    ck.require(bool(gs) and norm(gs[0].args[0]) == fn.pos_params[0] and any(k.arg == "name" and norm(k.value) == "name" for k in gs[0].keywords), "C14.driver", fn, fn.node, "stream wraps the given file with the requested algorithm", "fobj_md5 does not build the stream from (fobj, name=name)", construct="get_hash_stream(fobj, name=name)")
    cs = fn.param_default("chunk_size")
    lim = const_eval(ck, fn, ast.Name(id="DEFAULT_CHUNK_SIZE", ctx=ast.Load()))
    val = const_eval(ck, fn, cs) if cs is not None else None
    ck.require(val is not None and lim is not None and val >= lim, "C14.window", fn, fn.node, f"default chunk size {val} >= sniffing window {lim}", f"default chunk size {val} is smaller than the text-sniffing window {lim}", construct="fobj_md5 chunk_size default")
    for c in reads:
        ck.require([norm(a) for a in c.args] == ["chunk_size"], "C14.window", fn, c, "reads use the configured chunk size", f"read is called with {[norm(a) for a in c.args]}")


def _select(ck: Checker) -> None:
    prog = ck.prog
    fn = prog.func("hashfile.hash", "get_hash_stream")
    ok = False
    for x in walk_own(fn.node):
        if isinstance(x, ast.IfExp):
            t = norm(x.test)
            ok = t in ("name == 'md5-dos2unix'", "'md5-dos2unix' == name") and norm(x.body) == "Dos2UnixHashStreamFile" and norm(x.orelse) == "HashStreamFile"
    g = ck.cfg(fn)
    if not ok:
        # if/else form
        for t in g.nodes.values():
            if t.kind == "test" and norm(t.ast) in ("name == 'md5-dos2unix'", "'md5-dos2unix' == name"):
                tr = g.reach([d for lab, d in t.succ if lab == "T"])
                fr = g.reach([d for lab, d in t.succ if lab == "F"])
                ok = any("Dos2UnixHashStreamFile" in g.nodes[i].text() for i in tr) and any("HashStreamFile" in g.nodes[i].text() and "Dos2Unix" not in g.nodes[i].text() for i in fr)
    ck.require(ok, "C14.select", fn, fn.node, "normalising stream iff the algorithm is md5-dos2unix", "get_hash_stream does not select Dos2UnixHashStreamFile exactly for 'md5-dos2unix'")
    calls = [c for c in walk_own(fn.node) if isinstance(c, ast.Call) and any(k.arg == "hash_name" and norm(k.value) == "name" for k in c.keywords)]
    ck.require(bool(calls), "C14.select", fn, fn.node, "the algorithm name is forwarded to the stream", "get_hash_stream does not forward the algorithm name", construct="cls(fobj, hash_name=name)")
    gh = prog.func("hashfile.hash", "get_hasher")
    g2 = ck.cfg(gh)
    okm = False
    for t in g2.nodes.values():
        if t.kind == "test" and norm(t.ast) in ("name == 'md5-dos2unix'", "'md5-dos2unix' == name"):
            for i in g2.reach([d for lab, d in t.succ if lab == "T"]):
                n = g2.nodes[i]
                if n.kind == "stmt" and isinstance(n.ast, (ast.Assign, ast.AnnAssign)) and isinstance(n.ast.value, ast.Constant) and n.ast.value.value == "md5":
                    # the remapped name is what the hashlib lookup uses
                    tgt = norm(n.ast.targets[0] if isinstance(n.ast, ast.Assign) else n.ast.target)
                    lookups = [x for x in g2.nodes.values() for c in calls_at(x) if (call_name(c) == "getattr" and len(c.args) >= 2 and norm(c.args[1]) == tgt) or (is_method_call(c, "new") and c.args and norm(c.args[0]) == tgt)]
                    okm = okm or bool(lookups)
    ck.require(okm, "C14.select", gh, gh.node, "md5-dos2unix is hashed with md5", "get_hasher no longer maps 'md5-dos2unix' to md5")
    init = prog.func("hashfile.hash", "HashStreamFile.__init__")
    g3 = ck.cfg(init)
    gcalls = [n for n in g3.nodes.values() for c in calls_at(n) if call_name(c) == "get_hasher"]
    okl = False
    for n in gcalls:
        for c in calls_at(n):
            if call_name(c) == "get_hasher" and c.args and isinstance(c.args[0], ast.Name):
                defs = reaching_defs(g3, n.id, c.args[0].id)
                okl = bool(defs) and all(isinstance(getattr(d.ast, "value", None), ast.Call) and is_method_call(d.ast.value, "lower") for d in defs)
            elif call_name(c) == "get_hasher" and c.args and isinstance(c.args[0], ast.Call) and is_method_call(c.args[0], "lower"):
                okl = True
    ck.require(okl, "C14.select", init, init.node, "algorithm name is lower-cased before lookup", "the algorithm name is no longer lower-cased before get_hasher")


def _nul(ck: Checker) -> None:
    prog = ck.prog
    fn = prog.func("hashfile.istextfile", "istextblock")
    g = ck.cfg(fn)
    ok = False
    for t in g.nodes.values():
        e = t.ast
        if t.kind == "test" and isinstance(e, ast.Compare) and isinstance(e.ops[0], (ast.In, ast.NotIn)) and isinstance(e.left, ast.Constant) and e.left.value == b"\x00" and norm(e.comparators[0]) == fn.pos_params[0]:
            # the edge that means "a NUL byte is in the block"
            nul_lab = "T" if isinstance(e.ops[0], ast.In) else "F"
            tsucc = [d for lab, d in t.succ if lab == nul_lab]
            r = g.reach(tsucc, include_start=True)
            rets = [g.nodes[i] for i in r if g.nodes[i].kind == "stmt" and isinstance(g.nodes[i].ast, ast.Return)]

            def is_false_on_nul(x) -> bool:
                v = x.ast.value
                if isinstance(v, ast.Constant):
                    return v.value is False
                if not isinstance(v, ast.Name):
                    return False
                # a result variable: every definition that can still be current at this return after the
                # NUL edge was taken assigns the constant False
                from ..an import node_defines, reaching_defs

                defs = [d for d in reaching_defs(g, x.id, v.id) if d.id in r]
                unset = x.id in g.reach(tsucc, skip_node=lambda y: node_defines(y, v.id), include_start=False) or any(node_defines(g.nodes[s_], v.id) is False and s_ == x.id for s_ in tsucc)
                if unset and not all(node_defines(g.nodes[s_], v.id) for s_ in tsucc):
                    defs += [d for d in reaching_defs(g, x.id, v.id) if d.id not in r]
                return bool(defs) and all(isinstance(getattr(d.ast, "value", None), ast.Constant) and d.ast.value.value is False for d in defs)

            ok = bool(rets) and all(is_false_on_nul(x) for x in rets)
            # and the test dominates the ratio computation
    # the non-text share is measured against the block's own length
    okr = False
    for n in g.nodes.values():
        if n.kind == "stmt" and isinstance(n.ast, ast.Return) and n.ast.value is not None and not isinstance(n.ast.value, ast.Constant):
            txt = " ".join(norm(a) for a in [n.ast.value] + [x for nm in walk_expr(n.ast.value) if isinstance(nm, ast.Name) for x in value_alts(g, n, nm, depth=3)])
            okr = f"len({fn.pos_params[0]})" in txt and "translate(" in txt
    ck.require(okr, "C14.ratio", fn, fn.node, "the non-text ratio is relative to the length of the block examined",
               "the text/binary decision no longer relates the non-text bytes to len(block): short binary files are classified as text and get normalised")
    ck.require(ok, "C14.nul", fn, fn.node, "a block containing NUL is binary", "istextblock no longer classifies blocks containing a NUL byte as binary: binary content with CRLF sequences would be normalised before hashing")
