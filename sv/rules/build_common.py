"""Shared rules over hashfile.build / migrate: pairing, alignment, key-faithful summaries."""
from __future__ import annotations

import ast
from typing import List, Optional, Tuple

from ..an import flows_from_calls, is_method_call, order_source, reaching_defs
from ..cfg import calls_at
from ..core import Checker
from ..loader import Func, norm, walk_expr, walk_own
from ..prov import ELEM, ITEM, call_name, expand1, get_arg, is_marker, scope_of


def node_of(g, call: ast.AST):
    for n in g.nodes.values():
        for c in calls_at(n):
            if c is call:
                return n
        if n.ast is call:
            return n
    return None


def check_zip_alignment_all(ck: Checker, rule: str, fn: Func, why: str) -> int:
    """Every zip(A, B) in fn pairs two sequences that take order and length from one source."""
    g = ck.cfg(fn)
    n_z = 0
    for n in g.nodes.values():
        zips = [z for z in (x for e in ([n.ast] if n.ast is not None else []) for x in walk_expr(e)) if isinstance(z, ast.Call) and call_name(z) == "zip" and isinstance(z.func, ast.Name)]
        if n.kind == "for":
            zips = [z for z in walk_expr(n.ast.iter) if isinstance(z, ast.Call) and call_name(z) == "zip" and isinstance(z.func, ast.Name)]
        for z in zips:
            if len(z.args) < 2 or any(isinstance(a, ast.Starred) for a in z.args):
                continue
            n_z += 1
            srcs = [order_source(g, n, a, fn.has_param) for a in z.args]
            flat = [s for s in srcs]
            same = all(len(s) == 1 for s in flat) and len({next(iter(s)) for s in flat}) == 1 and not any(next(iter(s)).split(":")[0] in ("unknown", "reordered", "filtered", "collapsed") for s in flat)
            ck.require(same, rule, fn, n,
                       f"zip({', '.join(norm(a) for a in z.args)}) pairs sequences with one common order source ({sorted(flat[0])[0]})",
                       f"zip({', '.join(norm(a) for a in z.args)}) pairs sequences whose order/length come from different sources {[sorted(s) for s in flat]}: {why}",
                       construct=f"zip({', '.join(norm(a) for a in z.args)})")
    return n_z


def zip_columns(fn: Func, g, n, a: ast.expr, b: ast.expr) -> Optional[Tuple[ast.expr, int, int]]:
    """If a and b are list(X), list(Y) with `X, Y = zip(*rows)` (one assignment): (rows expr, ix, iy)."""
    def col(e):
        inner = e
        if isinstance(inner, ast.Call) and call_name(inner) in ("list", "tuple") and len(inner.args) == 1:
            inner = inner.args[0]
        if not isinstance(inner, ast.Name):
            return None
        out = []
        for d in reaching_defs(g, n.id, inner.id):
            st = d.ast
            if isinstance(st, ast.Assign) and isinstance(st.targets[0], (ast.Tuple, ast.List)) and isinstance(st.value, ast.Call) and call_name(st.value) == "zip" and len(st.value.args) == 1 and isinstance(st.value.args[0], ast.Starred):
                names = [norm(t) for t in st.targets[0].elts]
                if inner.id in names:
                    out.append((st, names.index(inner.id), st.value.args[0].value, d))
            elif isinstance(st, ast.Assign) and isinstance(st.value, ast.Tuple) and all(isinstance(x, ast.Tuple) and not x.elts for x in st.value.elts):
                continue  # the `else: paths, oids = (), ()` arm
            elif isinstance(st, (ast.Assign, ast.AnnAssign)) and st.value is not None:
                # projection of one column by a comprehension:  xs = [x for x, _ in rows]
                v = st.value
                if isinstance(v, ast.Call) and call_name(v) in ("list", "tuple") and len(v.args) == 1:
                    v = v.args[0]
                if isinstance(v, (ast.ListComp, ast.GeneratorExp)) and len(v.generators) == 1 and not v.generators[0].ifs and isinstance(v.generators[0].target, (ast.Tuple, ast.List)) and isinstance(v.elt, ast.Name):
                    names = [norm(t) for t in v.generators[0].target.elts]
                    if v.elt.id in names:
                        out.append(("proj:" + norm(v.generators[0].iter), names.index(v.elt.id), v.generators[0].iter, d))
                        continue
                return None
            else:
                return None
        return out

    ca, cb = col(a), col(b)
    if not ca or not cb:
        return None
    ka, kb = ca[0][0], cb[0][0]
    if isinstance(ka, str) or isinstance(kb, str):
        if ka != kb:
            return None
    elif ka is not kb:
        return None
    return ca[0][2], ca[0][1], cb[0][1], ca[0][3]


def rows_appended(ck: Checker, fn: Func, g, at, rows_expr: ast.expr) -> List[ast.Tuple]:
    """Tuples appended to the container the rows come from."""
    names = set()
    todo = [(at, rows_expr)]
    seen = set()
    while todo:
        nd, e = todo.pop()
        if isinstance(e, ast.Name):
            if e.id in seen:
                continue
            seen.add(e.id)
            names.add(e.id)
            for d in reaching_defs(g, nd.id, e.id):
                if d.kind == "for":
                    it = d.ast.iter
                    if isinstance(it, ast.Call) and is_method_call(it, "items", "values"):
                        todo.append((d, it.func.value))
                    else:
                        todo.append((d, it))
                else:
                    v = getattr(d.ast, "value", None)
                    if isinstance(v, ast.Name):
                        todo.append((d, v))
    out = []
    for x in walk_own(fn.node):
        if isinstance(x, ast.Call) and is_method_call(x, "append") and x.args and isinstance(x.args[0], ast.Tuple):
            base = x.func.value
            while isinstance(base, ast.Subscript):
                base = base.value
            if isinstance(base, ast.Name) and base.id in names:
                out.append(x.args[0])
    return out


def same_object_pair(p: ast.expr, o_alts: List[ast.expr]) -> Optional[str]:
    """p is X.path and oid is X.oid / X.hash_info.value for the same X."""
    if isinstance(p, ast.Attribute) and p.attr == "path":
        base = norm(p.value)
        for o in o_alts:
            t = norm(o)
            if t in (f"{base}.oid", f"{base}.hash_info.value"):
                return base
    return None
