"""Shared rules over hashfile.build / migrate: pairing, alignment, key-faithful summaries."""
from __future__ import annotations

import ast
from typing import List, Optional, Tuple

from ..an import flows_from_calls, is_method_call, order_source, reaching_defs
from ..cfg import calls_at
from ..core import Checker
from ..loader import Func, norm, walk_expr, walk_own
from ..prov import ELEM, ITEM, call_name, expand1, get_arg, is_marker, scope_of


def node_of(g, call: ast.AST):
    for n in g.nodes.values():
        for c in calls_at(n):
            if c is call:
                return n
        if n.ast is call:
            return n
    return None


def check_zip_alignment_all(ck: Checker, rule: str, fn: Func, why: str) -> int:
    """Every zip(A, B) in fn pairs two sequences that take order and length from one source."""
    g = ck.cfg(fn)
    n_z = 0
    for n in g.nodes.values():
        zips = [z for z in (x for e in ([n.ast] if n.ast is not None else []) for x in walk_expr(e)) if isinstance(z, ast.Call) and call_name(z) == "zip" and isinstance(z.func, ast.Name)]
        if n.kind == "for":
            zips = [z for z in walk_expr(n.ast.iter) if isinstance(z, ast.Call) and call_name(z) == "zip" and isinstance(z.func, ast.Name)]
        for z in zips:
            if len(z.args) < 2 or any(isinstance(a, ast.Starred) for a in z.args):
                continue
            n_z += 1
            srcs = [order_source(g, n, a, fn.has_param) for a in z.args]
            flat = [s for s in srcs]
            same = all(len(s) == 1 for s in flat) and len({next(iter(s)) for s in flat}) == 1 and not any(next(iter(s)).split(":")[0] in ("unknown", "reordered", "filtered", "collapsed") for s in flat)
            ck.require(same, rule, fn, n,
                       f"zip({', '.join(norm(a) for a in z.args)}) pairs sequences with one common order source ({sorted(flat[0])[0]})",
                       f"zip({', '.join(norm(a) for a in z.args)}) pairs sequences whose order/length come from different sources {[sorted(s) for s in flat]}: {why}",
                       construct=f"zip({', '.join(norm(a) for a in z.args)})")
    return n_z


def zip_columns(fn: Func, g, n, a: ast.expr, b: ast.expr) -> Optional[Tuple[ast.expr, int, int]]:
    """If a and b are list(X), list(Y) with `X, Y = zip(*rows)` (one assignment): (rows expr, ix, iy)."""
    def col(e):
        inner = e
        if isinstance(inner, ast.Call) and call_name(inner) in ("list", "tuple") and len(inner.args) == 1:
            inner = inner.args[0]
        if isinstance(inner, (ast.ListComp, ast.GeneratorExp)) and len(inner.generators) == 1 and not inner.generators[0].ifs and isinstance(inner.generators[0].target, (ast.Tuple, ast.List)) and isinstance(inner.elt, ast.Name):
            names = [norm(t) for t in inner.generators[0].target.elts]
            if inner.elt.id in names:
                return [("proj:" + norm(inner.generators[0].iter), names.index(inner.elt.id), inner.generators[0].iter, n)]
        if not isinstance(inner, ast.Name):
            return None
        out = []
        for d in reaching_defs(g, n.id, inner.id):
            st = d.ast
            if isinstance(st, ast.Assign) and isinstance(st.targets[0], (ast.Tuple, ast.List)) and isinstance(st.value, ast.Call) and call_name(st.value) == "zip" and len(st.value.args) == 1 and isinstance(st.value.args[0], ast.Starred):
                names = [norm(t) for t in st.targets[0].elts]
                if inner.id in names:
                    out.append((st, names.index(inner.id), st.value.args[0].value, d))
            elif isinstance(st, ast.Assign) and isinstance(st.value, ast.Tuple) and all(isinstance(x, ast.Tuple) and not x.elts for x in st.value.elts):
                continue  # the `else: paths, oids = (), ()` arm
            elif isinstance(st, (ast.Assign, ast.AnnAssign)) and st.value is not None:
                # projection of one column by a comprehension:  xs = [x for x, _ in rows]
                v = st.value
                if isinstance(v, ast.Call) and call_name(v) in ("list", "tuple") and len(v.args) == 1:
                    v = v.args[0]
                if isinstance(v, (ast.ListComp, ast.GeneratorExp)) and len(v.generators) == 1 and not v.generators[0].ifs and isinstance(v.generators[0].target, (ast.Tuple, ast.List)) and isinstance(v.elt, ast.Name):
                    names = [norm(t) for t in v.generators[0].target.elts]
                    if v.elt.id in names:
                        out.append(("proj:" + norm(v.generators[0].iter), names.index(v.elt.id), v.generators[0].iter, d))
                        continue
                return None
            else:
                return None
        return out

    ca, cb = col(a), col(b)
    if not ca or not cb:
        return loop_columns(fn, g, n, a, b)
    ka, kb = ca[0][0], cb[0][0]
    if isinstance(ka, str) or isinstance(kb, str):
        if ka != kb:
            return None
    elif ka is not kb:
        return None
    return ca[0][2], ca[0][1], cb[0][1], ca[0][3]


def loop_columns(fn: Func, g, n, a: ast.expr, b: ast.expr):
    """a / b are two lists filled only by `a.append(x); b.append(y)` side by side inside one
    `for ..x..y.. in rows:` loop: the same columns as `a, b = zip(*rows)`.  -> (rows expr, ix, iy, loop node)"""
    from ..an import avoiding_path

    def unwrap(e):
        if isinstance(e, ast.Call) and call_name(e) in ("list", "tuple") and len(e.args) == 1:
            e = e.args[0]
        return e if isinstance(e, ast.Name) else None

    na, nb = unwrap(a), unwrap(b)
    if na is None or nb is None or na.id == nb.id:
        return None
    info = {}
    for nm in (na.id, nb.id):
        defs = reaching_defs(g, n.id, nm)
        if not defs or any(not (d.kind == "stmt" and isinstance(d.ast, (ast.Assign, ast.AnnAssign)) and isinstance(getattr(d.ast, "value", None), ast.List) and not d.ast.value.elts) for d in defs):
            return None
        apps = [(x, c) for x in g.nodes.values() for c in calls_at(x) if isinstance(c.func, ast.Attribute) and isinstance(c.func.value, ast.Name) and c.func.value.id == nm and c.func.attr in ("append", "extend", "insert", "remove", "pop", "sort", "reverse", "clear")]
        if not apps or any(c.func.attr != "append" or len(c.args) != 1 for _x, c in apps):
            return None
        info[nm] = apps
    if len(info[na.id]) != len(info[nb.id]):
        return None
    found = None
    used = set()
    for xa, c_a in info[na.id]:
        mate = None
        for j, (xb, c_b) in enumerate(info[nb.id]):
            if j in used or xa.loops != xb.loops or not xa.loops:
                continue
            first, second = (xa, xb) if avoiding_path(g, xb.id, lambda y, q=xa.id: y.id == q) is None else (xb, xa)
            if avoiding_path(g, second.id, lambda y, q=first.id: y.id == q) is not None:
                continue
            nxt = [d for lab, d in first.succ if lab != "exc"]
            if nxt != [second.id]:
                r = g.reach(nxt, skip_node=lambda y, q=second.id: y.id == q, skip_edge=lambda p_, lab, d_: lab == "exc", include_start=True)
                if first.loops[-1] in r or g.exit in r:
                    continue
            mate = j
            break
        if mate is None:
            return None
        used.add(mate)
        xb, c_b = info[nb.id][mate]
        va, vb = c_a.args[0], c_b.args[0]
        if not (isinstance(va, ast.Name) and isinstance(vb, ast.Name)):
            return None
        h = g.nodes[xa.loops[-1]]
        if h.kind != "for":
            return None
        pa, pb = _target_path(h.ast.target, va.id), _target_path(h.ast.target, vb.id)
        if pa is None or pb is None or len(pa) != 1 or len(pb) != 1:
            return None
        if reaching_defs(g, xa.id, va.id) != [h] or reaching_defs(g, xb.id, vb.id) != [h]:
            return None
        cur = (norm(h.ast.iter), pa[0], pb[0])
        if found is not None and (found[0], found[1], found[2]) != cur:
            return None
        found = (cur[0], cur[1], cur[2], h)
    if found is None:
        return None
    h = found[3]
    return h.ast.iter, found[1], found[2], h


def rows_appended(ck: Checker, fn: Func, g, at, rows_expr: ast.expr) -> List[ast.Tuple]:
    """Tuples appended to the container the rows come from."""
    names = set()
    todo = [(at, rows_expr)]
    seen = set()
    while todo:
        nd, e = todo.pop()
        if isinstance(e, ast.Name):
            if e.id in seen:
                continue
            seen.add(e.id)
            names.add(e.id)
            for d in reaching_defs(g, nd.id, e.id):
                if d.kind == "for":
                    it = d.ast.iter
                    if isinstance(it, ast.Call) and is_method_call(it, "items", "values"):
                        todo.append((d, it.func.value))
                    else:
                        todo.append((d, it))
                else:
                    v = getattr(d.ast, "value", None)
                    if isinstance(v, ast.Name):
                        todo.append((d, v))
    out = []
    for x in walk_own(fn.node):
        if isinstance(x, ast.Call) and is_method_call(x, "append") and x.args and isinstance(x.args[0], ast.Tuple):
            base = x.func.value
            while isinstance(base, ast.Subscript) or (isinstance(base, ast.Call) and is_method_call(base, "setdefault", "get")):
                base = base.value if isinstance(base, ast.Subscript) else base.func.value
            if isinstance(base, ast.Name) and base.id in names:
                out.append(x.args[0])
    return out


def same_object_pair(p: ast.expr, o_alts: List[ast.expr]) -> Optional[str]:
    """p is X.path and oid is X.oid / X.hash_info.value for the same X."""
    if isinstance(p, ast.Attribute) and p.attr == "path":
        base = norm(p.value)
        for o in o_alts:
            t = norm(o)
            if t in (f"{base}.oid", f"{base}.hash_info.value"):
                return base
    return None


# --------------------------------------------------------------------------
# parallel columns: two lists kept index-aligned by always appending to both together
# --------------------------------------------------------------------------

def _target_path(target: ast.AST, name: str, prefix=()):
    """position of Name `name` inside a (nested) tuple target, e.g. `fs, (paths, oids)` -> (1, 1)."""
    if isinstance(target, ast.Name):
        return prefix if target.id == name else None
    if isinstance(target, (ast.Tuple, ast.List)):
        for i, e in enumerate(target.elts):
            r = _target_path(e, name, prefix + (i,))
            if r is not None:
                return r
    return None


def _target_at(target: ast.AST, path):
    for i in path:
        if not isinstance(target, (ast.Tuple, ast.List)) or i >= len(target.elts):
            return None
        target = target.elts[i]
    return target


def column_of(g, n, e: ast.AST, depth: int = 4):
    """(container name, selector tuple, key text) when expression e at node n denotes one list column of a
    keyed container: D[k] / D[k][i] / D.setdefault(k, ...) / the value element of `for k, v in D.items()`."""
    from ..an import is_method_call, reaching_defs

    if depth <= 0:
        return None
    if isinstance(e, ast.Call) and isinstance(e.func, ast.Name) and e.func.id in ("list", "tuple") and len(e.args) == 1 and not e.keywords:
        return column_of(g, n, e.args[0], depth)
    if isinstance(e, ast.Subscript):
        if isinstance(e.slice, ast.Constant) and isinstance(e.slice.value, int) and not isinstance(e.value, ast.Name):
            inner = column_of(g, n, e.value, depth)
            if inner is not None:
                return inner[0], inner[1] + (e.slice.value,), inner[2]
        if isinstance(e.value, ast.Name):
            # D[k]  - or  slot[i] where slot is itself a column holder
            defs = reaching_defs(g, n.id, e.value.id)
            if isinstance(e.slice, ast.Constant) and isinstance(e.slice.value, int) and defs:
                inner = column_of(g, n, e.value, depth - 1)
                if inner is not None:
                    return inner[0], inner[1] + (e.slice.value,), inner[2]
            return e.value.id, (), norm(e.slice)
        return None
    if isinstance(e, ast.Call) and is_method_call(e, "setdefault") and isinstance(e.func.value, ast.Name) and len(e.args) == 2:
        return e.func.value.id, (), norm(e.args[0])
    if isinstance(e, ast.Call) and is_method_call(e, "get") and isinstance(e.func.value, ast.Name) and len(e.args) == 1 and not e.keywords:
        return e.func.value.id, (), norm(e.args[0])
    if isinstance(e, ast.Name):
        defs = reaching_defs(g, n.id, e.id)
        if len(defs) > 1:
            # `slot = D.get(k); if slot is None: slot = D[k] = ([], [])`: every definition names the same slot
            cols = set()
            for d in defs:
                a_ = d.ast
                if not (d.kind == "stmt" and isinstance(a_, ast.Assign)):
                    return None
                subs = [t for t in a_.targets if isinstance(t, ast.Subscript) and isinstance(t.value, ast.Name)]
                tup = [t for t in a_.targets if isinstance(t, (ast.Tuple, ast.List)) and _target_path(t, e.id) is not None]
                if len(a_.targets) == 2 and len(subs) == 1 and any(isinstance(t, ast.Name) and t.id == e.id for t in a_.targets):
                    cols.add((subs[0].value.id, (), norm(subs[0].slice)))
                elif tup and len(a_.targets) == 2 and len(subs) == 1:
                    # `paths, oids = D[k] = ([], [])`
                    cols.add((subs[0].value.id, tuple(_target_path(tup[0], e.id)), norm(subs[0].slice)))
                elif tup and len(a_.targets) == 1:
                    # `paths, oids = D[k]`
                    inner = column_of(g, d, a_.value, depth - 1)
                    if inner is None:
                        return None
                    cols.add((inner[0], inner[1] + tuple(_target_path(tup[0], e.id)), inner[2]))
                elif len(a_.targets) == 1 and isinstance(a_.targets[0], ast.Name):
                    inner = column_of(g, d, a_.value, depth - 1)
                    if inner is None:
                        return None
                    cols.add(inner)
                else:
                    return None
            return cols.pop() if len(cols) == 1 else None
        if len(defs) != 1:
            return None
        d = defs[0]
        if d.kind == "for":
            it = d.ast.iter
            pos = _target_path(d.ast.target, e.id)
            if pos is None or not (isinstance(it, ast.Call) and is_method_call(it, "items") and isinstance(it.func.value, ast.Name)) or len(pos) < 1 or pos[0] != 1:
                return None
            k = _target_at(d.ast.target, (0,))
            return it.func.value.id, tuple(pos[1:]), norm(k) if k is not None else None
        if d.kind == "stmt" and isinstance(d.ast, ast.Assign) and len(d.ast.targets) == 1:
            pos = _target_path(d.ast.targets[0], e.id)
            if pos is None:
                return None
            inner = column_of(g, d, d.ast.value, depth - 1)
            if inner is None:
                return None
            return inner[0], inner[1] + tuple(pos), inner[2]
    return None


def parallel_columns(ck, fn, g, n, p: ast.AST, o: ast.AST):
    """None when p / o are not two columns of keyed containers; otherwise (ok, reason).  ok when the two
    columns are read under the same key and every append to one is accompanied - in the same straight-line
    block, under the same key - by an append to the other, the two appended values being .path / .oid of
    one object."""
    from ..an import avoiding_path, is_method_call
    from ..prov import expand1

    cp, co = column_of(g, n, p), column_of(g, n, o)
    if cp is None or co is None or (cp[0], cp[1]) == (co[0], co[1]):
        return None
    if cp[2] != co[2]:
        return False, f"path column {cp[0]}{list(cp[1])} is read under key `{cp[2]}` but oid column {co[0]}{list(co[1])} under key `{co[2]}`"
    apps = {"p": [], "o": []}
    for x in g.nodes.values():
        for c in calls_at(x):
            if is_method_call(c, "append", "extend", "insert") :
                col = column_of(g, x, c.func.value)
                if col is None:
                    continue
                for side, want in (("p", cp), ("o", co)):
                    if (col[0], col[1]) == (want[0], want[1]):
                        apps[side].append((x, c, col[2]))
    if not apps["p"] or not apps["o"]:
        return False, f"no append sites found for columns {cp[0]}{list(cp[1])} / {co[0]}{list(co[1])}"
    if len(apps["p"]) != len(apps["o"]):
        return False, f"{len(apps['p'])} append site(s) fill the path column but {len(apps['o'])} fill the oid column: the two lists can get out of step"
    used = set()
    for xp, c_p, kp in apps["p"]:
        mate = None
        for j, (xo, c_o, ko) in enumerate(apps["o"]):
            if j in used or ko != kp or xo.loops != xp.loops or c_o.func.attr != "append" or c_p.func.attr != "append":
                continue
            first, second = (xp, xo) if avoiding_path(g, xo.id, lambda y, a=xp.id: y.id == a) is None else (xo, xp)
            if avoiding_path(g, second.id, lambda y, a=first.id: y.id == a) is not None:
                continue
            # post-dominance (ignoring exceptions): leaving `first` one always reaches `second`
            stop = set(first.loops[-1:]) | {g.exit}
            r = g.reach([d for lab, d in first.succ if lab != "exc"], skip_node=lambda y, b=second.id: y.id == b, skip_edge=lambda a, lab, b: lab == "exc", include_start=True)
            if second.id in {d for lab, d in first.succ if lab != "exc"}:
                r = set()
            if r & stop:
                continue
            mate = j
            break
        if mate is None:
            return False, f"the append to the path column at line {getattr(xp.ast, 'lineno', '?')} has no matching append to the oid column in the same block / under the same key"
        used.add(mate)
        c_o = apps["o"][mate][1]
        if len(c_p.args) != 1 or len(c_o.args) != 1:
            return False, "append with unexpected arguments"
        base = same_object_pair(c_p.args[0], expand1(ck.prog, fn, c_o.args[0], levels=2))
        if not base:
            return False, f"parallel appends add `{norm(c_p.args[0])}` and `{norm(c_o.args[0])}`, which are not .path / .oid of one object"
    return True, f"paths/oids are parallel columns {cp[0]}{list(cp[1])} / {co[0]}{list(co[1])} read under one key and always appended together with one object's .path / .oid"
