"""Writer/reader agreement rules for Tree listings, shared by C02 / C03 / C20."""
from __future__ import annotations

import ast
from typing import List, Optional, Set

from ..an import is_method_call, reaching_defs
from ..cfg import calls_at
from ..core import Checker
from ..loader import Func, norm, walk_expr, walk_own
from ..prov import call_name, expand1, scope_of


def resolve_const(ck: Checker, fn: Func, e: ast.expr) -> Optional[str]:
    """String value of a simple constant expression (literal, posixpath.sep, cls/self.PARAM_X)."""
    if isinstance(e, ast.Constant) and isinstance(e.value, str):
        return e.value
    t = norm(e)
    if t in ("posixpath.sep",):
        return "/"
    if t in ("os.sep", "os.path.sep"):
        return "<os.sep>"
    if isinstance(e, ast.Attribute) and isinstance(e.value, ast.Name) and e.value.id in ("self", "cls"):
        c = ck.res.enclosing_class(fn)
        if c is not None:
            v = ck.prog.class_const(c, e.attr)
            if v is not None:
                return resolve_const(ck, fn, v)
    if isinstance(e, ast.Name) and not fn.has_param(e.id):
        # a local bound once to a constant expression (e.g. `relpath_key = self.PARAM_RELPATH`)
        owner = fn
        while owner is not None:
            defs = [a for a in walk_own(owner.node) if isinstance(a, (ast.Assign, ast.AnnAssign)) and a.value is not None
                    and any(isinstance(t, ast.Name) and t.id == e.id for t in (a.targets if isinstance(a, ast.Assign) else [a.target]))]
            if len(defs) == 1 and not (isinstance(defs[0].value, ast.Name) and defs[0].value.id == e.id):
                return resolve_const(ck, owner, defs[0].value)
            if defs:
                return None
            owner = owner.parent
    if isinstance(e, ast.Name):
        # a module-level constant (not shadowed by a parameter / local of fn)
        v = fn.module.consts.get(e.id)
        if v is not None and not fn.has_param(e.id) and not any(isinstance(x, ast.Name) and x.id == e.id and isinstance(x.ctx, ast.Store) for x in ast.walk(fn.node)):
            return resolve_const(ck, fn, v)
    return None


def _writer_funcs(ck: Checker, al: Func):
    """as_list itself, its closures and the module-level helpers it calls directly."""
    fns = [al] + list(al.children.values())
    for c, cals in ck.res.calls_in(al):
        for cal in cals:
            if cal.module is al.module and cal.fq != al.fq and cal not in fns:
                fns.append(cal)
    return fns


def check_sep(ck: Checker, rule: str) -> None:
    """Tree.as_list joins key parts with separator S under key K; Tree.from_list pops K and splits on S."""
    prog = ck.prog
    al = prog.func("hashfile.tree", "Tree.as_list")
    fl = prog.func("hashfile.tree", "Tree.from_list")
    # writer: a join() whose value is stored under a dict key (literal or subscript store)
    w_key = w_sep = None
    for d in walk_own(al.node):
        if isinstance(d, ast.Dict):
            for k, v in zip(d.keys, d.values):
                if k is not None and isinstance(v, ast.Call) and is_method_call(v, "join"):
                    w_key = resolve_const(ck, al, k)
                    w_sep = resolve_const(ck, al, v.func.value)
        if isinstance(d, ast.Assign) and isinstance(d.targets[0], ast.Subscript) and isinstance(d.value, ast.Call) and is_method_call(d.value, "join"):
            w_key = resolve_const(ck, al, d.targets[0].slice)
            w_sep = resolve_const(ck, al, d.value.func.value)
    r_key = r_sep = None
    maxsplit = False
    for c in walk_own(fl.node):
        if isinstance(c, ast.Call) and is_method_call(c, "pop") and c.args:
            r_key = resolve_const(ck, fl, c.args[0]) or r_key
        if isinstance(c, ast.Call) and is_method_call(c, "split", "rsplit") and c.args:
            r_sep = resolve_const(ck, fl, c.args[0])
            maxsplit = len(c.args) > 1 or any(k.arg == "maxsplit" for k in c.keywords) or c.func.attr == "rsplit"
    ck.require(w_key is not None and w_key == r_key, rule, al, al.node, f"writer and reader use the same path field '{w_key}'", f"listing writer stores the path under '{w_key}' but the reader pops '{r_key}'", construct="relpath key")
    ck.require(w_sep is not None and w_sep == r_sep == "/", rule, al, al.node, "key parts are joined and split with '/'", f"listing writer joins with {w_sep!r} but the reader splits on {r_sep!r}", construct="relpath separator")
    ck.require(not maxsplit, rule, fl, fl.node, "the reader splits the whole path", "the reader splits with a maxsplit / from the right: nested keys are not restored", construct="relpath split / unbounded")
    # legacy hash-field table: writer emits {'md5': value} for md5-dos2unix; reader reads field 'md5' for it
    w_ok = False
    for f in _writer_funcs(ck, al):
        gf = ck.cfg(f)
        for t in gf.nodes.values():
            if t.kind == "test" and "md5-dos2unix" in norm(t.ast) and ".name" in norm(t.ast):
                r = gf.reach([d for lab, d in t.succ if lab == "T"])
                for i in r:
                    n = gf.nodes[i]
                    if n.ast is not None:
                        for x in walk_expr(n.ast):
                            if isinstance(x, ast.Dict) and any(isinstance(k, ast.Constant) and k.value == "md5" for k in x.keys):
                                w_ok = True
    r_ok = False
    for x in walk_own(fl.node):
        if isinstance(x, ast.IfExp) and "md5-dos2unix" in norm(x.test) and isinstance(x.body, ast.Constant) and x.body.value == "md5":
            r_ok = True
    gfl = ck.cfg(fl)
    for t in gfl.nodes.values():
        if t.kind == "test" and "md5-dos2unix" in norm(t.ast):
            for i in gfl.reach([d for lab, d in t.succ if lab == "T"]):
                n = gfl.nodes[i]
                if n.kind == "stmt" and isinstance(n.ast, ast.Assign) and isinstance(n.ast.value, ast.Constant) and n.ast.value.value == "md5":
                    r_ok = True
    ck.require(w_ok and r_ok, rule, al, al.node, "writer and reader both map md5-dos2unix to the 'md5' field", f"legacy hash-field mapping differs (writer maps to 'md5': {w_ok}, reader reads 'md5': {r_ok})", construct="md5-dos2unix field")


def check_from_list_rows(ck: Checker, rule: str) -> None:
    """Each parsed row is built from its own list entry only; one tree.add per entry."""
    prog = ck.prog
    fl = prog.func("hashfile.tree", "Tree.from_list")
    g = ck.cfg(fl)
    loops = [h for h in g.nodes.values() if h.kind == "for"]
    ck.floor(rule, len(loops), 1, "entry loop in Tree.from_list")
    h = loops[0]
    adds = [(n, c) for n in g.nodes.values() if h.id in n.loops for c in calls_at(n) if is_method_call(c, "add") and len(c.args) == 3]
    ck.floor(rule, len(adds), 1, "tree.add sites in Tree.from_list")
    body_ids = {n.id for n in g.nodes.values() if h.id in n.loops}
    for n, c in adds:
        starts = [d for lab, d in h.succ if lab == "T"]
        aids_ = {a_.id for a_, _c in adds}
        r = g.reach(starts, skip_node=lambda x: x.id in aids_, skip_edge=lambda a, l, b: l == "exc")
        ck.require(h.id not in r, rule, fl, n, "every list entry produces a tree row", "a list entry can be skipped without producing a tree row", construct=f"{n.text()} / NODROP")
        # no loop-carried state flows into the row
        bad: List[str] = []
        seen: Set[str] = set()
        todo = [(n, x.id) for a in c.args for x in walk_expr(a) if isinstance(x, ast.Name)]
        while todo:
            at, name = todo.pop()
            if (at.id, name) in seen:
                continue
            seen.add((at.id, name))
            for d in reaching_defs(g, at.id, name):
                if d.id not in body_ids and d.id != h.id:
                    # defined before the loop: values computed from parameters / constants are loop
                    # invariants; containers that persist across entries are not
                    v = getattr(d.ast, "value", None)
                    if v is not None and not isinstance(v, ast.Constant) and name not in ("tree", "cls"):
                        if not (isinstance(v, ast.Call) and call_name(v) in ("cls", "Tree")):
                            from ..prov import is_empty_container

                            vnames = {x.id for x in walk_expr(v) if isinstance(x, ast.Name)}
                            invariant = not is_empty_container(v) and not isinstance(v, (ast.Dict, ast.List, ast.Set)) and all(fl.has_param(x) for x in vnames)
                            if not invariant:
                                bad.append(f"{name} := {norm(d.ast)[:80]} (defined outside the loop)")
                    continue
                src = d.ast.iter if d.kind == "for" else getattr(d.ast, "value", None)
                if src is None:
                    continue
                for x in walk_expr(src):
                    if isinstance(x, ast.Name) and isinstance(x.ctx, ast.Load):
                        todo.append((d, x.id))
        ck.require(not bad, rule, fl, n, "each row's key, meta and hash are computed from its own list entry only",
                   "a row takes values from state shared across entries (" + "; ".join(bad[:3]) + "): entries with the same hash but different per-path metadata come back with another entry's metadata",
                   construct=f"{n.text()} / per-entry provenance")
    margs = [norm(x.args[0]) for x in walk_own(fl.node) if isinstance(x, ast.Call) and norm(x.func) == "Meta.from_dict" and x.args]
    hargs = [norm(x.args[0]) for x in walk_own(fl.node) if isinstance(x, ast.Call) and norm(x.func) == "HashInfo.from_dict" and x.args]
    ck.require(bool(margs) and bool(hargs) and set(margs) == set(hargs) and len(set(margs)) == 1, rule, fl, fl.node, "meta and hash are parsed from the same entry dict", f"from_list does not parse Meta and HashInfo from the same entry (Meta from {margs}, HashInfo from {hargs})", construct="Meta.from_dict(entry) + HashInfo.from_dict(entry)")


# --------------------------------------------------------------------------
# Tree.digest: one structural reading shared by C01 / C03 (robust to locals and keyword arguments)
# --------------------------------------------------------------------------

class DigestModel:
    pass


def digest_model(ck: Checker) -> "DigestModel":
    from ..an import avoiding_path, count_on_paths, value_alts
    from ..prov import get_arg

    prog = ck.prog
    m = DigestModel()
    m.fn = dg = prog.func("hashfile.tree", "Tree.digest")
    m.g = g = ck.cfg(dg)
    hf = prog.func("hashfile.hash", "hash_file")
    m.hcalls = [(n, c) for n in g.nodes.values() for c in calls_at(n) if call_name(c) == "hash_file"]
    if not m.hcalls:
        return m
    m.hn, m.hc = hn, hc = m.hcalls[0]
    arg = lambda name, pos: get_arg(hc, hf, name, pos=pos)  # noqa: E731
    m.path, m.fs, m.algo, m.state = arg("path", 0), arg("fs", 1), arg("name", 2), arg("state", 3)
    # writes of the scratch files
    m.pipes = []
    for n in g.nodes.values():
        for c in calls_at(n):
            if is_method_call(c, "pipe_file", "pipe"):
                a0 = c.args[0] if c.args else next((k.value for k in c.keywords if k.arg in ("path", "rpath")), None)
                a1 = c.args[1] if len(c.args) > 1 else next((k.value for k in c.keywords if k.arg in ("value", "data")), None)
                if a0 is not None and a1 is not None:
                    m.pipes.append((n, c, a0, a1))
    # the hash result and its aliases (self.hash_info / a local)
    aliases: Set[str] = set()
    for n in g.nodes.values():
        a = n.ast
        if n.kind == "stmt" and isinstance(a, ast.Assign) and a.value is hc and isinstance(a.targets[0], (ast.Tuple, ast.List)) and len(a.targets[0].elts) == 2:
            aliases.add(norm(a.targets[0].elts[1]))
    changed = True
    while changed:
        changed = False
        for n in g.nodes.values():
            a = n.ast
            if n.kind == "stmt" and isinstance(a, ast.Assign) and len(a.targets) == 1 and isinstance(a.value, (ast.Name, ast.Attribute)) and isinstance(a.targets[0], (ast.Name, ast.Attribute)):
                l, r = norm(a.targets[0]), norm(a.value)
                if (l in aliases) != (r in aliases) and not l.endswith(".value") and not r.endswith(".value") and not l.endswith(".oid"):
                    aliases |= {l, r}
                    changed = True
    m.aliases = aliases

    def is_suffix(e) -> bool:
        return (isinstance(e, ast.Constant) and e.value == ".dir") or norm(e) == "HASH_DIR_SUFFIX"

    def suffixed_expr(e) -> bool:
        return isinstance(e, ast.BinOp) and isinstance(e.op, ast.Add) and is_suffix(e.right) and norm(e.left) in {f"{a}.value" for a in aliases}

    m.suffix_nodes = []
    for n in g.nodes.values():
        a = n.ast
        if n.kind != "stmt":
            continue
        if isinstance(a, ast.AugAssign) and isinstance(a.op, ast.Add) and norm(a.target) in {f"{x}.value" for x in aliases}:
            m.suffix_nodes.append((n, is_suffix(a.value)))
        elif isinstance(a, ast.Assign) and len(a.targets) == 1 and norm(a.targets[0]) in {f"{x}.value" for x in aliases}:
            m.suffix_nodes.append((n, any(suffixed_expr(v) for v in value_alts(g, n, a.value, depth=2))))
    m.suffix_once = False
    if len(m.suffix_nodes) == 1 and m.suffix_nodes[0][1]:
        sid = m.suffix_nodes[0][0].id
        lo, hi, _ = count_on_paths(g, [(g.entry, None)], {g.exit}, lambda x: 1 if x.id == sid else 0)
        m.suffix_once = lo == 1 and hi == 1
    # self.oid
    m.oid_nodes = [n for n in g.nodes.values() if n.kind == "stmt" and isinstance(n.ast, ast.Assign) and any(norm(t) == "self.oid" for t in n.ast.targets)]
    m.oid_ok = bool(m.oid_nodes) and bool(m.suffix_nodes)
    for n in m.oid_nodes:
        alts = value_alts(g, n, n.ast.value, depth=2)
        sn = m.suffix_nodes[0][0] if m.suffix_nodes else None
        after = sn is not None and avoiding_path(g, n.id, lambda x: x.id == sn.id) is None
        ok = any((norm(v) in {f"{a}.value" for a in aliases} and after) or suffixed_expr(v) for v in alts)
        m.oid_ok = m.oid_ok and ok
    m.result_bound = bool(aliases) and any(a.startswith("self.") for a in aliases)
    return m


def is_metafree_as_bytes(ck, e) -> bool:
    """`self.as_bytes()` / `self.as_bytes(with_meta=False)` / `self.as_bytes(False)`: the metadata-free listing (an
    omitted argument counts only while the parameter's default is the constant False)."""
    import ast as _ast

    from ..loader import norm as _norm

    if not (isinstance(e, _ast.Call) and isinstance(e.func, _ast.Attribute) and e.func.attr == "as_bytes" and _norm(e.func.value) == "self"):
        return False
    ab = ck.prog.func("hashfile.tree", "Tree.as_bytes")
    arg = None
    if e.args:
        arg = e.args[0]
    for k in e.keywords:
        if k.arg == "with_meta":
            arg = k.value
        elif k.arg is None or k.arg != "with_meta":
            return False
    if len(e.args) > 1:
        return False
    if arg is None:
        d = ab.param_default("with_meta") if ab.has_param("with_meta") else None
        return isinstance(d, _ast.Constant) and d.value is False
    return isinstance(arg, _ast.Constant) and arg.value is False
