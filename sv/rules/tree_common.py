"""Writer/reader agreement rules for Tree listings, shared by C02 / C03 / C20."""
from __future__ import annotations

import ast
from typing import List, Optional, Set

from ..an import is_method_call, reaching_defs
from ..cfg import calls_at
from ..core import Checker
from ..loader import Func, norm, walk_expr, walk_own
from ..prov import call_name, expand1, scope_of


def resolve_const(ck: Checker, fn: Func, e: ast.expr) -> Optional[str]:
    """String value of a simple constant expression (literal, posixpath.sep, cls/self.PARAM_X)."""
    if isinstance(e, ast.Constant) and isinstance(e.value, str):
        return e.value
    t = norm(e)
    if t in ("posixpath.sep",):
        return "/"
    if t in ("os.sep", "os.path.sep"):
        return "<os.sep>"
    if isinstance(e, ast.Attribute) and isinstance(e.value, ast.Name) and e.value.id in ("self", "cls"):
        c = ck.res.enclosing_class(fn)
        if c is not None:
            v = ck.prog.class_const(c, e.attr)
            if v is not None:
                return resolve_const(ck, fn, v)
    return None


def check_sep(ck: Checker, rule: str) -> None:
    """Tree.as_list joins key parts with separator S under key K; Tree.from_list pops K and splits on S."""
    prog = ck.prog
    al = prog.func("hashfile.tree", "Tree.as_list")
    fl = prog.func("hashfile.tree", "Tree.from_list")
    # writer
    w_key = w_sep = None
    for d in walk_own(al.node):
        if isinstance(d, ast.Dict):
            for k, v in zip(d.keys, d.values):
                if k is not None and isinstance(v, ast.Call) and is_method_call(v, "join"):
                    w_key = resolve_const(ck, al, k)
                    w_sep = resolve_const(ck, al, v.func.value)
                    w_arg = norm(v.args[0]) if v.args else None
    r_key = r_sep = None
    maxsplit = False
    for c in walk_own(fl.node):
        if isinstance(c, ast.Call) and is_method_call(c, "pop") and c.args:
            r_key = resolve_const(ck, fl, c.args[0]) or r_key
        if isinstance(c, ast.Call) and is_method_call(c, "split", "rsplit") and c.args:
            r_sep = resolve_const(ck, fl, c.args[0])
            maxsplit = len(c.args) > 1 or any(k.arg == "maxsplit" for k in c.keywords) or c.func.attr == "rsplit"
    ck.require(w_key is not None and w_key == r_key, rule, al, al.node, f"writer and reader use the same path field '{w_key}'", f"listing writer stores the path under '{w_key}' but the reader pops '{r_key}'", construct="relpath key")
    ck.require(w_sep is not None and w_sep == r_sep == "/", rule, al, al.node, "key parts are joined and split with '/'", f"listing writer joins with {w_sep!r} but the reader splits on {r_sep!r}", construct="relpath separator")
    ck.require(not maxsplit, rule, fl, fl.node, "the reader splits the whole path", "the reader splits with a maxsplit / from the right: nested keys are not restored", construct="relpath split / unbounded")
    # legacy hash-field table
    w_tab = [norm(t.test) + " -> " + norm(t.body[0]) for t in walk_own(al.node) if isinstance(t, ast.If) and "md5-dos2unix" in norm(t.test)]
    for f in al.children.values():
        w_tab += [norm(t.test) + " -> " + norm(t.body[0]) for t in walk_own(f.node) if isinstance(t, ast.If) and "md5-dos2unix" in norm(t.test)]
    r_tab = [norm(x) for x in walk_own(fl.node) if isinstance(x, ast.IfExp) and "md5-dos2unix" in norm(x)]
    ok = any("{'md5': " in t for t in w_tab) and any(t.startswith("'md5' if") for t in r_tab)
    ck.require(ok, rule, al, al.node, "writer and reader both map md5-dos2unix to the 'md5' field", f"legacy hash-field mapping differs: writer {w_tab}, reader {r_tab}", construct="md5-dos2unix field")


def check_from_list_rows(ck: Checker, rule: str) -> None:
    """Each parsed row is built from its own list entry only; one tree.add per entry."""
    prog = ck.prog
    fl = prog.func("hashfile.tree", "Tree.from_list")
    g = ck.cfg(fl)
    loops = [h for h in g.nodes.values() if h.kind == "for"]
    ck.floor(rule, len(loops), 1, "entry loop in Tree.from_list")
    h = loops[0]
    adds = [(n, c) for n in g.nodes.values() if h.id in n.loops for c in calls_at(n) if is_method_call(c, "add") and len(c.args) == 3]
    ck.floor(rule, len(adds), 1, "tree.add sites in Tree.from_list")
    body_ids = {n.id for n in g.nodes.values() if h.id in n.loops}
    for n, c in adds:
        starts = [d for lab, d in h.succ if lab == "T"]
        r = g.reach(starts, skip_node=lambda x: x.id == n.id, skip_edge=lambda a, l, b: l == "exc")
        ck.require(h.id not in r, rule, fl, n, "every list entry produces a tree row", "a list entry can be skipped without producing a tree row", construct=f"{n.text()} / NODROP")
        # no loop-carried state flows into the row
        bad: List[str] = []
        seen: Set[str] = set()
        todo = [(n, x.id) for a in c.args for x in walk_expr(a) if isinstance(x, ast.Name)]
        while todo:
            at, name = todo.pop()
            if (at.id, name) in seen:
                continue
            seen.add((at.id, name))
            for d in reaching_defs(g, at.id, name):
                if d.id not in body_ids and d.id != h.id:
                    # defined before the loop: parameters / constants are fine, containers are not
                    v = getattr(d.ast, "value", None)
                    if v is not None and not isinstance(v, ast.Constant) and name not in ("tree", "cls"):
                        if not (isinstance(v, ast.Call) and call_name(v) in ("cls", "Tree")):
                            bad.append(f"{name} := {norm(d.ast)[:80]} (defined outside the loop)")
                    continue
                src = d.ast.iter if d.kind == "for" else getattr(d.ast, "value", None)
                if src is None:
                    continue
                for x in walk_expr(src):
                    if isinstance(x, ast.Name) and isinstance(x.ctx, ast.Load):
                        todo.append((d, x.id))
        ck.require(not bad, rule, fl, n, "each row's key, meta and hash are computed from its own list entry only",
                   "a row takes values from state shared across entries (" + "; ".join(bad[:3]) + "): entries with the same hash but different per-path metadata come back with another entry's metadata",
                   construct=f"{n.text()} / per-entry provenance")
    src = " ".join(norm(x) for x in walk_own(fl.node) if isinstance(x, ast.Call))
    ck.require("Meta.from_dict(entry)" in src and ("HashInfo.from_dict(entry)" in src), rule, fl, fl.node, "meta and hash are parsed from the same entry dict", "from_list does not parse Meta and HashInfo from the same entry", construct="Meta.from_dict(entry) + HashInfo.from_dict(entry)")
