"""C10 - Object checkout converges, is idempotent, honours link types, spares the cache."""
from __future__ import annotations

import ast
from typing import Dict, List, Set, Tuple

from ..an import avoiding_path, cut, flows_from_calls, is_method_call, reaching_defs
from ..cfg import calls_at
from ..core import Checker
from ..effects import DESTRUCTIVE_METHODS, destructive_kind
from ..loader import Func, norm, walk_expr, walk_own
from ..prov import call_name, expand1, expand_txt, get_arg, scope_of
from .shared_state import check_class_level_state

# (callee name, parameter) positions through which a cache path may legitimately flow
ALLOWED_CACHE_SINKS = {("_relink", "cache_info"), ("__call__", "from_path"), ("protect", "path"), ("transfer", "from_path"), ("_needs_relink", "cache"), ("is_protected", "path")}
FORBIDDEN_METHODS = {"unprotect", "remove", "rm", "rmdir", "rmtree", "unlink", "rename", "replace", "move", "chmod", "put_file", "pipe_file", "makedirs", "write", "truncate", "set_exec"}


def check(ck: Checker) -> None:
    from .generic_lints import run_all as _lints_

    _lints_(ck, "C10.aliasing", "hashfile.checkout")
    ck.decided = [
        "C10.cacheimmutable: a cache object path (cache.oid_to_path(...)) flows only into link sources, protect and read-only queries - never into removal, unprotect, chmod or a copy destination",
        "C10.reprotect: after relinking, the cache object is protected again on every normal path",
        "C10.state: hash-state rows are (path, change.new.oid, stat of that path) recorded only for successfully checked-out files and saved after the loop; mtimes of freshly written files take precedence over pre-checkout mtimes in the link token",
        "C10.unprotect: un-protecting a link copies to a fresh temp name, removes the link, renames the temp over it, then makes it writable",
        "C10.linkkind: whether a workspace file counts as copy / hardlink / symlink depends only on that file's own metadata; the hard-link identity test (inode equality with the cache object's own stat) is never applied to a symlink",
        "C10.memo: no per-checkout memo (created directories) is shared between Link instances",
    ]
    ck.not_decided = ["idempotence / second checkout reports nothing (needs execution)", "the full link-type decision table of _needs_relink", "actual link kinds created by the OS"]
    ck.trusted = ["generic.transfer never writes to its source path", "os.rename is atomic"]
    prog, res = ck.prog, ck.res
    public = ck.func("hashfile.checkout", "checkout")
    mod = public.module
    slice_ = res.reachable_funcs([public], within=lambda f: f.module is mod)
    _taint(ck, slice_)
    _reprotect(ck)
    _state(ck)
    _unprotect(ck)
    _linkkind(ck)
    classes = [c for c in mod.classes.values()] + [prog.cls("hashfile.db.local", "LocalHashFileDB"), prog.cls("hashfile.db", "HashFileDB")]
    n = check_class_level_state(ck, "C10.memo", classes, "a later checkout in the same process skips work the earlier one recorded (e.g. parent directories believed to exist), so files are not restored")
    ck.floor("C10.memo", n, 3, "classes examined for shared mutable state")
    from .shared_state import check_process_wide_memo

    n2 = check_process_wide_memo(ck, "C10.memo", ["hashfile.checkout", "hashfile.diff", "hashfile.utils"], "a later checkout in the same process trusts what an earlier one established (a directory was created, an object was verified) although the workspace / cache changed in between")
    ck.floor("C10.memo", n2, 10, "module-level functions examined for process-wide memoisation")
    from . import round4 as _r4

    _r4.failures_always_raised(ck, "C10.state")
    _r4.relink_skip_only_dirs(ck, "C10.linkkind")
    from . import round11 as _r11

    _r11.link_destination_is_link_text(ck, "C10.linkkind")



def _taint(ck: Checker, slice_: List[Func]) -> None:
    prog, res = ck.prog, ck.res
    tainted: Dict[str, Set[str]] = {f.fq: set() for f in slice_}
    by_fq = {f.fq: f for f in slice_}

    def expr_tainted(fn: Func, e: ast.AST) -> bool:
        for x in walk_expr(e):
            if isinstance(x, ast.Call) and is_method_call(x, "oid_to_path") and "cache" in norm(x.func.value):
                return True
            if isinstance(x, ast.Name) and x.id in tainted[fn.fq]:
                return True
        return False

    changed = True
    rounds = 0
    while changed and rounds < 10:
        changed = False
        rounds += 1
        for fn in slice_:
            for name, defs in scope_of(fn).defs.items():
                if name in tainted[fn.fq]:
                    continue
                for d in defs:
                    if d.kind in ("assign", "walrus") and d.value is not None and expr_tainted(fn, d.value) and not (isinstance(d.value, ast.Compare)):
                        # comparisons yield booleans, not paths
                        if isinstance(d.value, ast.Call) and call_name(d.value) in ("_needs_relink",):
                            continue
                        tainted[fn.fq].add(name)
                        changed = True
            for c, cals in res.calls_in(fn):
                for cal in cals:
                    if cal.fq not in by_fq:
                        continue
                    for p in cal.params:
                        a = get_arg(c, cal, p)
                        if a is not None and expr_tainted(fn, a) and p not in tainted[cal.fq]:
                            tainted[cal.fq].add(p)
                            changed = True
    n_flows = 0
    for fn in slice_:
        for c, cals in res.calls_in(fn):
            targs = [(i, a) for i, a in enumerate(c.args) if expr_tainted(fn, a) and not isinstance(a, ast.Compare)] + [(k.arg, k.value) for k in c.keywords if k.arg and expr_tainted(fn, k.value)]
            if not targs:
                continue
            cname = call_name(c) or "?"
            for pos, a in targs:
                n_flows += 1
                pname = None
                if cals:
                    cal = cals[0]
                    if isinstance(pos, int):
                        pp = cal.pos_params
                        off = 1 if (cal.is_method and pp and pp[0] in ("self", "cls")) else 0
                        pname = pp[pos + off] if pos + off < len(pp) else None
                    else:
                        pname = pos
                    key = (cal.name, pname)
                else:
                    key = (cname, pos if not isinstance(pos, int) else {0: "path"}.get(pos, str(pos)))
                if cname == "transfer" and not cals:
                    key = ("transfer", "from_path" if pos == 1 else ("to_path" if pos == 3 else str(pos)))
                recv_is_cache = isinstance(c.func, ast.Attribute) and "cache" in norm(c.func.value)
                ok = key in ALLOWED_CACHE_SINKS
                if not ok and cname in FORBIDDEN_METHODS | DESTRUCTIVE_METHODS | {"_remove"}:
                    ok = False
                elif not ok:
                    # unknown consumer: accept only pure queries
                    ok = cname in ("exists", "isfile", "isdir", "info", "debug", "warning", "join", "str", "inode", "_localfs_info", "iscopy", "is_symlink", "is_hardlink", "get")
                ck.require(ok, "C10.cacheimmutable", fn, c,
                           f"cache path flows into {key[0]}({key[1]}) (link source / protect / query)",
                           f"a cache object path ({norm(a)}) is passed to {norm(c.func)}(...) as `{key[1]}`: checkout may modify or delete an object in the cache",
                           construct=f"{norm(c)[:80]} / arg {pos}")
    ck.floor("C10.cacheimmutable", n_flows, 4, "uses of cache object paths in the checkout slice")


def _reprotect(ck: Checker) -> None:
    prog = ck.prog
    fn = prog.func("hashfile.checkout", "_relink")
    g = ck.cfg(fn)
    links = [n for n in g.nodes.values() for c in calls_at(n) if any(x.name == "__call__" for x in ck.res.resolve(fn, c))]
    ck.floor("C10.reprotect", len(links), 1, "link calls in _relink")
    for ln in links:
        lc = [c for c in calls_at(ln) if any(x.name == "__call__" for x in ck.res.resolve(fn, c))][0]
        src = norm(lc.args[1]) if len(lc.args) > 1 else None
        prot = {n.id for n in g.nodes.values() for c in calls_at(n) if is_method_call(c, "protect") and c.args and norm(c.args[0]) == src}
        r = g.reach([d for _l, d in ln.succ if _l != "exc"], skip_node=lambda x: x.id in prot, skip_edge=lambda a, l, b: l == "exc")
        ck.require(bool(prot) and g.exit not in r, "C10.reprotect", fn, ln, "the cache object is re-protected after the link was made", "relinking can finish without re-protecting the cache object (removing a hardlink may have reset its permissions)")


def _state(ck: Checker) -> None:
    prog = ck.prog
    co = prog.func("hashfile.checkout", "_checkout")
    g = ck.cfg(co)
    saves = [(n, c) for n in g.nodes.values() for c in calls_at(n) if is_method_call(c, "save_many") and "state" in norm(c.func.value)]
    ck.floor("C10.state", len(saves), 1, "state.save_many in _checkout")
    for n, c in saves:
        ck.require(not n.loops, "C10.state", co, n, "hash-state rows are saved once, after all files were processed", "hash-state rows are saved inside the per-file loop")
        rows = norm(c.args[0]) if c.args else None
        apps = [(x, cc) for x in g.nodes.values() for cc in calls_at(x) if is_method_call(cc, "append") and norm(cc.func.value) == rows and cc.args and isinstance(cc.args[0], ast.Tuple)]
        ck.floor("C10.state", len(apps), 1, "row appends for the hash-state update")
        for x, cc in apps:
            t = cc.args[0]
            p, oid, info = [norm(e) for e in t.elts[:3]] if len(t.elts) >= 3 else (None, None, None)
            from ..an import value_alts

            ialts = [norm(a) for a in value_alts(g, x, t.elts[2], depth=2) if not isinstance(a, ast.Name)] if len(t.elts) >= 3 else []
            palts = {norm(a) for a in value_alts(g, x, t.elts[0], depth=2)} if len(t.elts) >= 3 else set()
            oalts = list(expand_txt(prog, co, t.elts[1])) if len(t.elts) >= 3 else []
            stat_ok = bool(ialts) and all(any(a in (f"_localfs_info({q})", f"fs.info({q})") for q in palts) for a in ialts)
            ok = bool(oalts) and all(o.endswith(".new.oid") for o in oalts) and stat_ok
            ck.require(ok, "C10.state", co, x, "row is (path, change.new.oid, fresh stat of that path)", f"state row {norm(t)} does not pair the path with the target hash and that path's own stat ({ialts})")
            # only on the success (try-else) branch: not reachable from the CheckoutError handler
            hs = [h for h in g.nodes.values() if h.kind == "handler" and x.loops and x.loops[-1] in h.loops]
            for h in hs:
                r = g.reach([h.id], skip_node=lambda y: y.id == x.loops[-1])
                ck.require(x.id not in r, "C10.state", co, x, "a file whose checkout failed is not recorded", "a file whose checkout failed can still be recorded in the hash state", construct=f"{x.text()[:50]} / not from handler")
            # every successfully checked-out file on a local filesystem is recorded (no further condition)
            if x.loops:
                trys = [y for y in g.nodes.values() if y.kind == "stmt" and x.loops[-1] in y.loops for c2 in calls_at(y) if call_name(c2) == "_checkout_file"]
                for y in trys:
                    def skip(a, lab, b):
                        if lab == "exc":
                            return True
                        if a.kind != "test":
                            return False
                        t_alts = " | ".join([norm(a.ast)] + [norm(z) for z in expand1(prog, co, a.ast, levels=2)])
                        return lab == "F" and "LocalFileSystem" in t_alts
                    rr = g.reach([d for lab, d in y.succ if lab != "exc"], skip_node=lambda z, x=x: z.id == x.id, skip_edge=skip, include_start=True)
                    bad = x.loops[-1] in rr and x.id not in [d for lab, d in y.succ if lab != "exc"]
                    ck.require(not bad, "C10.state", co, x, "every file checked out without error on a local filesystem gets its hash-state row",
                               "a file that was checked out successfully can be left out of the hash-state / link-token update (e.g. only 'modified' files are recorded): the saved link token no longer matches the workspace after a relink",
                               witness=g.fmt_path(g.path_to(rr, x.loops[-1])) if bad else None, construct=f"{x.text()[:50]} / always recorded")
            # after the file was written: dominated by the per-file checkout call
            cf = [y.id for y in g.nodes.values() for c2 in calls_at(y) if call_name(c2) == "_checkout_file"]
            ck.require(avoiding_path(g, x.id, lambda y: y.id in cf, start=x.loops[-1]) is None if x.loops else False, "C10.state", co, x, "the stat is taken after the file was checked out", "the recorded stat can predate the checkout of the file", construct=f"{x.text()[:50]} / after checkout")
    ut = prog.func("hashfile.utils", "_get_mtime_from_changes")
    g2 = ck.cfg(ut)
    loops = [h for h in g2.nodes.values() if h.kind == "for" and norm(h.ast.iter).endswith(".unchanged")]
    ck.floor("C10.state", len(loops), 1, "loop over unchanged entries in _get_mtime_from_changes")
    h = loops[0]
    stores = [n for n in g2.nodes.values() if h.id in n.loops and n.kind == "stmt" and isinstance(n.ast, ast.Assign) and isinstance(n.ast.targets[0], ast.Subscript) and norm(n.ast.targets[0].value) == "mtimes"]
    for s in stores:
        key = norm(s.ast.targets[0].slice)

        def fresh_wins(t, lab, key=key):
            e = t.ast
            return t.kind == "test" and isinstance(e, ast.Compare) and len(e.ops) == 1 and norm(e.left) == key and norm(e.comparators[0]) == "mtimes" and (
                (isinstance(e.ops[0], ast.In) and lab == "F") or (isinstance(e.ops[0], ast.NotIn) and lab == "T"))

        w = cut(g2, [s.id], fresh_wins, start=h.id)
        ck.require(w is None, "C10.state", ut, s, "a pre-checkout mtime never overwrites the mtime of a file checkout just wrote",
                   "the pre-checkout mtime of an 'unchanged' entry can overwrite the fresh mtime recorded for the same path after it was relinked: the saved link token no longer matches the workspace", witness=g2.fmt_path(w) if w else None)
    upd = [c for c in walk_own(ut.node) if isinstance(c, ast.Call) and is_method_call(c, "update") and norm(c.func.value) == "mtimes" and c.args and norm(c.args[0]) == "updated_mtimes"]
    ck.require(bool(upd), "C10.state", ut, ut.node, "token starts from the mtimes of the files checkout wrote", "the link token does not include the mtimes of the files checkout wrote", construct="mtimes.update(updated_mtimes)")


def _unprotect(ck: Checker) -> None:
    prog = ck.prog
    fn = prog.func("hashfile.db.local", "LocalHashFileDB._unprotect_file")
    g = ck.cfg(fn)

    def nodes(pred):
        return [n for n in g.nodes.values() for c in calls_at(n) if pred(c)]

    cp = nodes(lambda c: call_name(c) in ("copyfile", "copy") and len(c.args) >= 2 and norm(c.args[0]) == "path")
    rm = nodes(lambda c: call_name(c) in ("remove", "unlink") and c.args and norm(c.args[0]) == "path")
    rn = nodes(lambda c: norm(c.func) in ("os.rename", "os.replace") and len(c.args) == 2 and norm(c.args[1]) == "path")
    ok = bool(cp) and bool(rm) and bool(rn)
    ck.require(ok, "C10.unprotect", fn, fn.node, "copy-to-temp, remove, rename are all present", "unprotect no longer copies to a temp name, removes the link and renames the temp into place", construct="_unprotect_file / steps")
    if ok:
        tmp = norm(calls_at(cp[0])[0].args[1]) if calls_at(cp[0]) else None
        for c in calls_at(cp[0]):
            if call_name(c) in ("copyfile", "copy"):
                tmp = norm(c.args[1])
        ck.require(avoiding_path(g, rm[0].id, lambda x: x.id == cp[0].id) is None, "C10.unprotect", fn, rm[0], "the link is removed only after its content was copied", "the link can be removed before its content was copied to the temp file")
        ck.require(avoiding_path(g, rn[0].id, lambda x: x.id == rm[0].id) is None, "C10.unprotect", fn, rn[0], "the temp file is renamed into place after the link was removed", "rename can happen before the link was removed")
        rsrc = [norm(c.args[0]) for c in calls_at(rn[0]) if norm(c.func) in ("os.rename", "os.replace")]
        ck.require(rsrc == [tmp], "C10.unprotect", fn, rn[0], "the file renamed into place is the temp copy", f"renamed source {rsrc} is not the temp copy {tmp}", construct="os.rename(tmp, path)")
        talts = " ".join(norm(a) for a in expand1(prog, fn, ast.Name(id=tmp, ctx=ast.Load()), levels=2)) if tmp and tmp.isidentifier() else (tmp or "")
        ck.require("tmp_fname(" in talts or "mkstemp(" in talts or "uuid" in talts, "C10.unprotect", fn, cp[0], "temp name is fresh (tmp_fname)", f"temp name `{talts}` is not generated by a fresh-name generator")
    chm = nodes(lambda c: norm(c.func) == "os.chmod" and len(c.args) == 2 and norm(c.args[0]) == "path")
    okc = bool(chm) and all(norm(c.args[1]) == "self._file_mode" for n in chm for c in calls_at(n) if norm(c.func) == "os.chmod")
    if okc:
        r = g.reach([g.entry], skip_node=lambda x: x.id in {n.id for n in chm}, skip_edge=lambda a, l, b: l == "exc")
        okc = g.exit not in r
    ck.require(okc, "C10.unprotect", fn, chm[0] if chm else fn.node, "the workspace file is finally made writable (file mode) on every path", "unprotect does not always chmod the file to the writable file mode")


def _linkkind(ck: Checker) -> None:
    prog = ck.prog
    fn = prog.func("hashfile.checkout", "_needs_relink")
    n = 0
    g0 = ck.cfg(fn)
    mparam = "meta" if fn.has_param("meta") else fn.pos_params[2]

    # the link-kind flags, whatever they are called: the local tested together with each configured link type
    def kind_flag(*consts):
        for t in g0.nodes.values():
            e = t.ast
            if t.kind == "test" and isinstance(e, ast.Name):
                # `wants_hardlink = link_type == "hardlink"` tested by name
                ds = [d for d in scope_of(fn).get(e.id) if d.kind == "assign"]
                if len(ds) == 1 and isinstance(ds[0].value, ast.Compare):
                    e = ds[0].value
            if t.kind != "test" or not isinstance(e, ast.Compare) or len(e.ops) != 1:
                continue
            c0 = e.comparators[0]
            vals = {x.value for x in (c0.elts if isinstance(c0, (ast.Tuple, ast.List, ast.Set)) else [c0]) if isinstance(x, ast.Constant)}
            if not vals or not vals <= set(consts) or not isinstance(e.ops[0], (ast.Eq, ast.In)):
                continue
            cur, seen = t, set()
            while cur is not None and cur.id not in seen:
                seen.add(cur.id)
                nxt = [g0.nodes[d] for lab, d in cur.succ if lab == "T"]
                cur = nxt[0] if nxt and nxt[0].kind == "test" else None
                if cur is not None and isinstance(cur.ast, ast.Name) and any(d.kind == "assign" for d in scope_of(fn).get(cur.ast.id)):
                    return cur.ast.id
        return None

    f_sym, f_hard, f_copy = kind_flag("symlink"), kind_flag("hardlink"), kind_flag("copy", "reflink")
    # fall back on the baseline names when the tests are written in a shape kind_flag does not follow
    f_sym = f_sym or ("is_symlink" if scope_of(fn).get("is_symlink") else None)
    f_hard = f_hard or ("is_hardlink" if scope_of(fn).get("is_hardlink") else None)
    f_copy = f_copy or ("is_copy" if scope_of(fn).get("is_copy") else None)
    # a flag that is a plain copy of another local (`file_is_symlink = is_symlink`) stands for that local
    def _canon(nm):
        for _ in range(4):
            ds_ = scope_of(fn).get(nm or "")
            if nm and len(ds_) == 1 and ds_[0].kind == "assign" and isinstance(ds_[0].value, ast.Name) and not fn.has_param(ds_[0].value.id) and scope_of(fn).get(ds_[0].value.id):
                nm = ds_[0].value.id
            else:
                break
        return nm

    f_sym, f_hard, f_copy = _canon(f_sym), _canon(f_hard), _canon(f_copy)
    flags = {f_sym: "is_symlink", f_hard: "is_hardlink", f_copy: "is_copy"}
    for name in (f_sym, f_hard, f_copy):
        for d in scope_of(fn).get(name or ""):
            if d.kind != "assign":
                continue
            n += 1
            # what the classification ultimately depends on: locals are followed back to parameters / free names
            names, seen_ = set(), set()
            todo_ = [x.id for x in walk_expr(d.value) if isinstance(x, ast.Name)]
            while todo_:
                nm_ = todo_.pop()
                if nm_ in seen_:
                    continue
                seen_.add(nm_)
                ds_ = [dd for dd in scope_of(fn).get(nm_) if dd.kind in ("assign", "annassign") and getattr(dd, "value", None) is not None]
                if ds_ and not fn.has_param(nm_) and len(ds_) == len(scope_of(fn).get(nm_)):
                    for dd in ds_:
                        todo_ += [x.id for x in walk_expr(dd.value) if isinstance(x, ast.Name)]
                else:
                    names.add(nm_)
            ok = names <= {mparam}
            ck.require(ok, "C10.linkkind", fn, d.node, f"{flags[name]} depends only on the workspace file's own metadata", f"`{name} = {norm(d.value)}` depends on {sorted(names - {mparam})}: a file hard-linked to something other than the cache would be treated as an independent copy and never relinked")
    ck.floor("C10.linkkind", n, 3, "link-kind classifications in _needs_relink")
    from . import round5 as _r5

    _r5.hardlink_excludes_symlink(ck, "C10.linkkind", f_sym, f_hard)
    from . import round7 as _r7

    _r7.state_hit_full_meta(ck, "C10.linkkind")
    from . import round9 as _r9

    _r9.keep_copy_only_for_same_object(ck, "C10.reprotect")
    # ... and that metadata is the one stat'ed from the workspace file (change.old), not the target entry's
    n_call = 0
    for caller in fn.module.funcs.values():
        gc_ = ck.cfg(caller)
        for x in gc_.nodes.values():
            for c in calls_at(x):
                if not any(t.fq == fn.fq for t in ck.res.resolve(caller, c)):
                    continue
                n_call += 1
                ma = get_arg(c, fn, mparam)
                from ..an import value_alts

                alts = [norm(a) for a in value_alts(gc_, x, ma, depth=3)] + [norm(a) for a in expand1(prog, caller, ma, levels=2)] if ma is not None else []
                ok = any(a.endswith("old.meta") for a in alts) and not any(a.endswith("new.meta") or a.endswith("cache_meta") for a in alts)
                ck.require(ok, "C10.linkkind", caller, x, "the link kind is judged from the workspace file's own stat (change.old.meta)",
                           f"the link kind of the workspace file is judged from {alts}: the target entry's recorded metadata says nothing about how the workspace file is linked, so hardlinks/symlinks into the cache are kept when copies were asked for",
                           construct=f"{norm(c)[:50]} / meta argument")
                # ... and the hardlink identity test compares against the stat of the cache object itself
                cparams = [p for p in fn.params if p != mparam and any(isinstance(a, ast.Attribute) and a.attr == "inode" and isinstance(a.value, ast.Name) and a.value.id == p for a in ast.walk(fn.node))]
                for cp in cparams:
                    ca = get_arg(c, fn, cp)
                    calts = [norm(a) for a in value_alts(gc_, x, ca, depth=3)] + [norm(a) for a in expand1(prog, caller, ca, levels=2)] if ca is not None else []
                    okc = any(a.endswith("new.cache_meta") or a.endswith(".cache_meta") for a in calts) and not any(a.endswith(".meta") for a in calts)
                    ck.require(okc, "C10.linkkind", caller, x, "a hardlink is identified by comparing inodes with the cache object's own stat (change.new.cache_meta)",
                               f"the inode the workspace file is compared with comes from {calts}, not from the cache object's stat: a file hard-linked to something outside the cache (an old cache, a sibling copy) is taken for a link into the cache and never relinked",
                               construct=f"{norm(c)[:50]} / cache_meta argument")
    ck.floor("C10.linkkind", n_call, 1, "calls of _needs_relink")
    # is_copy is the complement of the two link kinds (decided by truth table, not by spelling)
    def beval(e, env):
        if isinstance(e, ast.Name):
            return env[e.id]
        if isinstance(e, ast.UnaryOp) and isinstance(e.op, ast.Not):
            return not beval(e.operand, env)
        if isinstance(e, ast.BoolOp):
            vals = [beval(v, env) for v in e.values]
            return all(vals) if isinstance(e.op, ast.And) else any(vals)
        raise KeyError(norm(e))

    for d in scope_of(fn).get(f_copy or ""):
        if d.kind == "assign":
            try:
                okc = all(beval(d.value, {f_sym: a, f_hard: b}) == ((not a) and (not b)) for a in (False, True) for b in (False, True))
            except KeyError:
                okc = False
            ck.require(okc, "C10.linkkind", fn, d.node, "copy = neither symlink nor hardlink", f"is_copy = {norm(d.value)} is not 'neither symlink nor hardlink'", construct="is_copy definition")
    for d in scope_of(fn).get(f_hard or ""):
        if d.kind == "assign":
            ck.require("nlink" in norm(d.value), "C10.linkkind", fn, d.node, "hardlink = link count above one", f"is_hardlink = {norm(d.value)}", construct="is_hardlink definition")
