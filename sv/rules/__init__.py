

def run_rules(ck, pid: str) -> None:
    """The property's own rules, then the error-discipline comparison over the functions those rules have read."""
    import importlib

    from . import handlers_common as _hc

    importlib.import_module(f"sv.rules.{pid}").check(ck)
    _hc.check(ck, f"{pid}.handlers")
    ck.decided = list(getattr(ck, "decided", []) or []) + [
        f"{pid}.handlers: in every function these rules read, the exceptions that are swallowed (caught and not re-raised) - and whether "
        "per loop iteration or for the whole flow - are exactly the confirmed ones (sv/handlers_baseline.json)"
    ]
