"""C09 - Index checkout converges to the target from any workspace state."""
from __future__ import annotations

import ast
from typing import Dict, List, Optional, Set, Tuple

from ..an import avoiding_path, cut, is_method_call, with_flags
from ..cfg import calls_at
from ..core import Checker
from ..loader import AnalysisError, Func, norm, walk_expr, walk_own
from ..prov import ELEM, ITEM, call_name, expand, expand1, get_arg, is_accumulator, is_marker, scope_of

ORDER = ["delete_files", "delete_dirs", "create_dirs", "create_files", "chmod"]


def _is_generic_transfer(fn: Func, c: ast.Call) -> bool:
    if not isinstance(c.func, ast.Name):
        return False
    f2, target = fn, None
    while f2 is not None and target is None:
        target = f2.local_imports.get(c.func.id)
        f2 = f2.parent
    target = target or fn.module.imports.get(c.func.id)
    return bool(target and target[0].startswith("dvc_objects.fs.generic") and target[1] == "transfer")


def direct_effects(fn: Func, call: ast.Call) -> Set[str]:
    out = set()
    if isinstance(call.func, ast.Attribute):
        a = call.func.attr
        recv = norm(call.func.value)
        if a in ("remove", "rm", "rm_file", "unlink") and (recv.endswith("fs") or recv == "os"):
            out.add("delete_files")
        if a in ("rmdir", "rmtree", "removedirs"):
            out.add("delete_dirs")
        if a in ("makedirs", "mkdir") and recv.endswith("fs"):
            out.add("create_dirs")
        if a == "chmod":
            out.add("chmod")
    if _is_generic_transfer(fn, call):
        out.add("create_files")
    return out


def func_effects(ck: Checker, fn: Func, seen=None) -> Set[str]:
    seen = seen or set()
    if fn.fq in seen:
        return set()
    seen.add(fn.fq)
    out: Set[str] = set()
    for c, cals in ck.res.calls_in(fn):
        out |= direct_effects(fn, c)
        for cal in cals:
            if cal.module is fn.module:
                out |= func_effects(ck, cal, seen)
    return out


def check_zip_alignment(ck: Checker, rule: str, fn: Func, call: ast.Call, src_arg: ast.expr, dst_arg: ast.expr, src_desc: str) -> None:
    """paths handed pairwise to a bulk copy must be two columns of one row source."""
    prog = ck.prog

    def column(e: ast.expr) -> Optional[Tuple[str, int, ast.expr]]:
        # list(X) / tuple(X) / X   with  X  from  a, b, c = zip(*rows)
        inner = e
        if isinstance(inner, ast.Call) and call_name(inner) in ("list", "tuple") and len(inner.args) == 1:
            inner = inner.args[0]
        if not isinstance(inner, ast.Name):
            return None
        # `dest_list = list(dest_paths)` computed once and shared: a local bound once to a copy of a column
        for _ in range(2):
            ds1 = scope_of(fn).get(inner.id)
            if len(ds1) == 1 and ds1[0].kind in ("assign", "annassign") and ds1[0].value is not None:
                v1 = ds1[0].value
                if isinstance(v1, ast.Call) and call_name(v1) in ("list", "tuple") and len(v1.args) == 1 and isinstance(v1.args[0], ast.Name):
                    inner = v1.args[0]
                elif isinstance(v1, ast.Name):
                    inner = v1
        for d in scope_of(fn).get(inner.id):
            v = d.value
            if d.kind == "assign" and is_marker(v, ITEM) and isinstance(v.args[0], ast.Call) and call_name(v.args[0]) == "zip":
                z = v.args[0]
                if len(z.args) == 1 and isinstance(z.args[0], ast.Starred) and isinstance(v.args[1], ast.Constant) and isinstance(v.args[1].value, int):
                    return norm(z.args[0].value), v.args[1].value, z.args[0].value
        return None

    cs, cd = column(src_arg), column(dst_arg)
    if cs is None or cd is None or cs[0] != cd[0]:
        ck.fail(rule, fn, call, f"source and destination path lists ({norm(src_arg)}, {norm(dst_arg)}) are not two columns unzipped from one list of rows; their pairing cannot be established")
        return
    rows_name = cs[0]
    # rows: <acc>[k].append((a, b, c)) / rows.append((..))
    rows: List[ast.Tuple] = []
    origin_names = set()
    for alt in expand1(prog, fn, cs[2], levels=2):
        if is_marker(alt, ITEM) and is_marker(alt.args[0], ELEM):
            # for k, rows in acc.items()
            it = alt.args[0].args[0]
            if isinstance(it, ast.Call) and is_method_call(it, "items", "values"):
                origin_names.add(norm(it.func.value))
        if isinstance(alt, ast.Name):
            origin_names.add(alt.id)
    for n in walk_own(fn.node):
        if isinstance(n, ast.Call) and is_method_call(n, "append") and n.args and isinstance(n.args[0], ast.Tuple):
            base = n.func.value
            b = norm(base.value) if isinstance(base, ast.Subscript) else norm(base)
            if b in origin_names:
                rows.append(n.args[0])
    if not rows:
        ck.fail(rule, fn, call, f"cannot find where the rows of `{rows_name}` are appended")
        return
    for row in rows:
        if max(cs[1], cd[1]) >= len(row.elts):
            ck.fail(rule, fn, call, f"row {norm(row)} has no column {max(cs[1], cd[1])}")
            continue
        s_e, d_e = row.elts[cs[1]], row.elts[cd[1]]
        s_alts = " | ".join(norm(a) for a in expand1(prog, fn, s_e, levels=2))
        d_alts = " | ".join(norm(a) for a in expand1(prog, fn, d_e, levels=2))
        ent = None
        for x in row.elts:
            if isinstance(x, ast.Name) and f"({x.id})" in s_alts.replace(" ", ""):
                ent = x.id
        ok_s = ent is not None and f".get({ent})" in s_alts
        ok_d = ent is not None and f"*{ent}.key" in d_alts and ".join(" in d_alts
        ck.require(ok_s and ok_d, rule, fn, call,
                   f"each row pairs {src_desc} of an entry with the workspace path of the same entry",
                   f"row {norm(row)}: column {cs[1]} = {s_alts}; column {cd[1]} = {d_alts}; they are not the storage path and the workspace path of one and the same entry",
                   construct=f"{norm(row)} -> columns {cs[1]},{cd[1]}")


def check(ck: Checker) -> None:
    prog, res = ck.prog, ck.res
    ck.decided = [
        "C09.order: apply() performs delete files < delete dirs < create dirs < create files < chmod (recognised by effect)",
        "C09.nested: directories are removed deepest-first (rmdir only removes empty directories), never recursively",
        "C09.delete: an entry is queued for deletion only if deletion is enabled, or it is being replaced (MODIFY) or relinked (UNCHANGED)",
        "C09.kinds: directories go to the dir lists, files to the file lists; every executable target file that is (re)created is also queued for chmod; a hash/kind change queues delete(old) and create(new)",
        "C09.errors: entries whose source is unavailable reach the onerror callback before being skipped; the bulk copy gets on_error=onerror; failed directory loads are all reported; compare() restores new.onerror",
        "C09.rows: one (entry, source, destination) row per entry to create, appended (never de-duplicated by source), with both paths belonging to that entry",
    ]
    ck.not_decided = ["convergence itself (second compare empty) - needs execution", "the chmod bits", "what generic.transfer does per link type"]
    ck.trusted = ["dvc_objects.fs.generic.transfer copies src_paths[i] to dest_paths[i]", "fs.rmdir is non-recursive"]
    mod = prog.module("index.checkout")
    ap = prog.func("index.checkout", "apply")
    g = ck.cfg(ap)

    # ---------------------------------------------------------------- order
    eff_nodes: Dict[str, List] = {k: [] for k in ORDER}
    for n in g.nodes.values():
        for c in calls_at(n):
            effs = set(direct_effects(ap, c))
            for cal in res.resolve(ap, c):
                if cal.module is mod:
                    effs |= func_effects(ck, cal)
            # a helper is classified by its most specific effect
            for k in ORDER:
                if k in effs:
                    if k == "create_dirs" and "create_files" in effs:
                        continue
                    if k == "delete_files" and ("create_files" in effs):
                        continue
                    eff_nodes[k].append(n)
    for k in ORDER:
        ck.floor("C09.order", len(eff_nodes[k]), 1, f"statements in apply() with effect {k}")
    for a, b in zip(ORDER, ORDER[1:]):
        for nb in eff_nodes[b]:
            a_ids = {x.id for x in eff_nodes[a]}
            wit = avoiding_path(g, nb.id, lambda x: x.id in a_ids)
            ck.require(wit is None, "C09.order", ap, nb, f"{b} happens only after {a}", f"{b} can run before {a} (e.g. a file cannot replace a directory that still exists / a file needs its parent directory)",
                       witness=g.fmt_path(wit) if wit else None, construct=f"{nb.text()} / after {a}")
            r = g.reach([nb.id])
            back = [x for x in a_ids if x in r and x != nb.id]
            ck.require(not back, "C09.order", ap, nb, f"no {a} after {b}", f"{a} can run again after {b}", construct=f"{nb.text()} / no {a} later")

    # --------------------------------------------------------------- nested
    n_rmdir = 0
    for fn in mod.funcs.values():
        for c, _ in res.calls_in(fn):
            if isinstance(c.func, ast.Attribute) and c.func.attr in ("rmtree", "removedirs"):
                ck.fail("C09.nested", fn, c, "recursive directory removal: a directory still holding non-target files would be destroyed")
            if isinstance(c.func, ast.Attribute) and c.func.attr in ("rm", "remove") and any(k.arg == "recursive" and not (isinstance(k.value, ast.Constant) and k.value.value is False) for k in c.keywords):
                ck.fail("C09.nested", fn, c, "recursive removal in index checkout")
            if is_method_call(c, "rmdir"):
                n_rmdir += 1
                gg = ck.cfg(fn)
                node = next(x for x in gg.nodes.values() if c in calls_at(x))
                if not node.loops:
                    ck.fail("C09.nested", fn, c, "rmdir is not applied in a loop over the directories to delete")
                    continue
                h = gg.nodes[node.loops[-1]]
                it = h.ast.iter

                def key_ok(k) -> bool:
                    if k is None:
                        return False
                    if isinstance(k, ast.Lambda):
                        return ".key" in norm(k.body)
                    if isinstance(k, ast.Name):
                        ent = prog.lookup_name(fn, k.id)
                        if isinstance(ent, Func):
                            return any(isinstance(r_, ast.Return) and r_.value is not None and ".key" in norm(r_.value) for r_ in walk_own(ent.node))
                    return False

                def desc_sorted(e) -> bool:
                    if isinstance(e, ast.Call) and call_name(e) == "sorted":
                        rev = next((k.value for k in e.keywords if k.arg == "reverse"), None)
                        return isinstance(rev, ast.Constant) and rev.value is True and key_ok(next((k.value for k in e.keywords if k.arg == "key"), None))
                    if isinstance(e, ast.Call) and call_name(e) == "reversed" and e.args and isinstance(e.args[0], ast.Call) and call_name(e.args[0]) == "sorted":
                        inner = e.args[0]
                        return key_ok(next((k.value for k in inner.keywords if k.arg == "key"), None)) and not any(k.arg == "reverse" for k in inner.keywords)
                    return False

                ok = any(desc_sorted(alt) for alt in expand1(prog, fn, it, levels=2))
                if not ok and isinstance(it, ast.Name):
                    sorts = [x for x in gg.nodes.values() for c2 in calls_at(x) if is_method_call(c2, "sort") and norm(c2.func.value) == it.id
                             and any(k.arg == "reverse" and isinstance(k.value, ast.Constant) and k.value.value is True for k in c2.keywords)
                             and key_ok(next((k.value for k in c2.keywords if k.arg == "key"), None))]
                    ok = bool(sorts) and avoiding_path(gg, h.id, lambda x: x.id in {s_.id for s_ in sorts}) is None
                ck.require(ok, "C09.nested", fn, h, "directories are removed deepest-first (sorted by key, reversed)",
                           f"directories are removed in the order given ({norm(it)}): the diff lists parents before children, rmdir of a non-empty parent fails silently and a nested directory is never replaced by a file",
                           construct=f"for ... in {norm(it)} / rmdir order")
    ck.floor("C09.nested", n_rmdir, 1, "rmdir call sites")

    _compare_rules(ck)
    _cmp_key_rule(ck)
    _error_rules(ck)

    rows_rule(ck, "C09.rows")
    from . import round4 as _r4

    _r4.create_dirs_all(ck, "C09.order")
    from . import round7 as _r7

    _r7.build_entries_every_name(ck, "C09.delete")



def rows_rule(ck: Checker, rule: str) -> None:
    prog = ck.prog
    # ----------------------------------------------------------------- rows
    cf = prog.func("index.checkout", "_create_files")
    gcf = ck.cfg(cf)
    tcalls = [(n, c) for n in gcf.nodes.values() for c in calls_at(n) if _is_generic_transfer(cf, c)]
    ck.floor(rule, len(tcalls), 1, "bulk copy calls in _create_files")
    for n, c in tcalls:
        sp = get_arg(c, None, "from_path", pos=1)
        dp = get_arg(c, None, "to_path", pos=3)
        if sp is None or dp is None:
            ck.fail(rule, cf, n, "bulk copy call without positional source/destination path lists")
            continue
        check_zip_alignment(ck, rule, cf, c, sp, dp, "the storage path (storage.get(entry))")
        dfs = get_arg(c, None, "to_fs", pos=2)
        ck.require(dfs is not None and norm(dfs) == "fs", rule, cf, n, "destination filesystem is the workspace fs", f"destination filesystem is {norm(dfs) if dfs is not None else '?'}", construct=f"{n.text()[:60]} / dest fs")
    # one appended row per entry
    loops = [h for h in gcf.nodes.values() if h.kind == "for" and norm(h.ast.iter) == "entries"]
    ck.floor(rule, len(loops), 1, "loops over the entries to create")
    for h in loops[:1]:
        apps = {x.id for x in gcf.nodes.values() if h.id in x.loops for c in calls_at(x)
                if is_method_call(c, "append") and c.args and isinstance(c.args[0], ast.Tuple) and isinstance(c.func.value, ast.Subscript)}
        starts = [d for lab, d in h.succ if lab == "T"]
        reached = gcf.reach(starts, skip_node=lambda x: x.id in apps, skip_edge=lambda a, l, b: l == "exc")
        bad = h.id in reached
        ck.require(bool(apps) and not bad, rule, cf, h,
                   "every entry whose source resolves gets its own appended (entry, source, destination) row",
                   "an entry can pass through the loop without a row being appended for it (e.g. rows keyed/de-duplicated by source path): files sharing content are then not created",
                   witness=gcf.fmt_path(gcf.path_to(reached, h.id)) if bad else None, construct="for entry in entries / one row each")


def _cmp_key_rule(ck: Checker) -> None:
    """The metadata comparison key index checkout hands to the diff keeps the two bits checkout acts on: whether
    the entry is a directory and whether it is executable (otherwise an exec-bit-only change is UNCHANGED and
    the chmod branch can never be reached)."""
    prog = ck.prog
    fn = prog.func("index.checkout", "_compare")
    keys = []
    for c in ast.walk(fn.node):
        if not isinstance(c, ast.Call):
            continue
        if is_method_call(c, "setdefault") and len(c.args) == 2 and isinstance(c.args[0], ast.Constant) and c.args[0].value == "meta_cmp_key":
            keys.append((c, c.args[1]))
        for k in c.keywords:
            if k.arg == "meta_cmp_key" and not (isinstance(k.value, ast.Name) and k.value.id == "meta_cmp_key" and fn.has_param("meta_cmp_key")):
                keys.append((c, k.value))
    chm = [x for x in ast.walk(fn.node) if isinstance(x, ast.Attribute) and x.attr == "files_chmod"]
    if not keys:
        # no custom key: the diff compares whole Meta objects, which include both bits
        ck.ok("C09.kinds", fn, fn.node, "no custom metadata comparison key (whole Meta is compared)", construct="meta_cmp_key")
        return
    for c, v in keys:
        kf = None
        if isinstance(v, ast.Lambda):
            kf = v
        elif isinstance(v, ast.Name):
            kf = next((d for d in ast.walk(fn.node) if isinstance(d, ast.FunctionDef) and d.name == v.id), None)
            if kf is None:
                ent = prog.lookup_name(fn, v.id)
                kf = ent.node if isinstance(ent, Func) else None
        if kf is None:
            ck.fail("C09.kinds", fn, c, f"cannot resolve the metadata comparison key `{norm(v)}`")
            continue
        p0 = kf.args.args[0].arg if kf.args.args else None
        rets = [kf.body] if isinstance(kf, ast.Lambda) else [r.value for r in ast.walk(kf) if isinstance(r, ast.Return) and r.value is not None]
        whole = any(isinstance(r, ast.Name) and r.id == p0 for r in rets if not isinstance(r, ast.Constant))
        attrs = {a.attr for r in rets for a in ast.walk(r) if isinstance(a, ast.Attribute) and isinstance(a.value, ast.Name) and a.value.id == p0}
        # `return meta` under `if meta is None` is the None pass-through, not the whole-object key
        nonnull = [r for r in rets if not (isinstance(r, ast.Name) and r.id == p0)]
        ok = (whole and not nonnull) or {"isdir", "isexec"} <= attrs
        ck.require(ok, "C09.kinds", fn, c, "the metadata comparison key includes isdir and isexec",
                   f"the metadata comparison key `{norm(v)}` compares only {sorted(attrs) or 'nothing'}: an entry that differs from the workspace only in its " + ("executable bit" if "isexec" not in attrs else "kind (file / directory)") + " is classified UNCHANGED, so it is never queued for chmod / replacement" + ("" if chm else ""),
                   construct=f"meta_cmp_key = {norm(v)} / isdir, isexec")


def _compare_rules(ck: Checker) -> None:
    prog = ck.prog
    cmp_ = prog.inlined_view(prog.func("index.checkout", "_compare"))
    g = ck.cfg(cmp_)
    QUEUES = ("files_delete", "files_create", "dirs_delete", "dirs_create")

    def queue_of(c: ast.Call) -> Optional[str]:
        if is_method_call(c, "append") and c.args:
            last = norm(c.func.value).split(".")[-1]
            if last in QUEUES or last == "files_chmod":
                return last
        return None

    apps = [(n, c, queue_of(c)) for n in g.nodes.values() for c in calls_at(n) if queue_of(c)]
    sinks = [(n, c) for n, c, q in apps if q.endswith("_delete")]
    ck.floor("C09.delete", len(sinks), 2, "queue-for-deletion sites in _compare (closures inlined)")

    from ..prov import scope_of as _sc

    def typ_text(x) -> str:
        """`change.typ`, also when it was first copied into a local (`typ = change.typ`)"""
        if isinstance(x, ast.Name):
            ds_ = [d for d in _sc(cmp_).get(x.id) if d.kind in ("assign", "annassign")]
            if len(ds_) == 1 and ds_[0].value is not None and norm(ds_[0].value).endswith(".typ"):
                return norm(ds_[0].value)
        return norm(x)

    def typ_is(t, lab, names) -> bool:
        e = t.ast
        if not (t.kind == "test" and isinstance(e, ast.Compare) and len(e.ops) == 1 and typ_text(e.left).endswith(".typ")):
            return False
        r = norm(e.comparators[0])
        if isinstance(e.ops[0], ast.Eq):
            return lab == "T" and r in names
        if isinstance(e.ops[0], ast.NotEq):
            return lab == "F" and r in names
        return False

    def just(t, lab):
        if t.kind == "test" and isinstance(t.ast, ast.Name) and t.ast.id == "delete" and lab == "T":
            return True
        # ADD / MODIFY / UNCHANGED: the key is in the target, so removing what sits there is a replacement
        return typ_is(t, lab, ("MODIFY", "UNCHANGED", "ADD"))

    for n, c in sinks:
        wit = cut(g, [n.id], just)
        ck.require(wit is None, "C09.delete", cmp_, n,
                   "queued for deletion only with delete enabled, or as part of a replacement / relink",
                   "a workspace entry outside the target can be queued for deletion although deletion is not enabled",
                   witness=g.fmt_path(wit) if wit else None)

    # an ADD can carry an old entry of unknown kind (index diff types an entry without meta and hash - a broken
    # symlink in the workspace - as ADD): whatever sits at that path is queued for removal before the create,
    # otherwise makedirs / the copy collide with it
    sink_ids = {n.id for n, _ in sinks}
    n_add = 0
    for t in g.nodes.values():
        if t.kind == "test" and isinstance(t.ast, ast.Compare) and typ_text(t.ast.left).endswith(".typ") and len(t.ast.ops) == 1 and isinstance(t.ast.ops[0], ast.Eq) and norm(t.ast.comparators[0]) == "ADD" and t.loops:
            n_add += 1
            chg = typ_text(t.ast.left).rsplit(".", 1)[0]

            def no_old(a, lab, b, chg=chg):
                if lab == "exc":
                    return True
                if a.kind != "test":
                    return False
                x = norm(a.ast)
                # `old_entry = change.old` copied into a local first
                for nm_, ds_ in ((nm_, [d for d in _sc(cmp_).get(nm_) if d.kind in ("assign", "annassign")]) for nm_ in {y.id for y in walk_expr(a.ast) if isinstance(y, ast.Name)}):
                    if len(ds_) == 1 and ds_[0].value is not None and norm(ds_[0].value) == f"{chg}.old":
                        x = x.replace(nm_, f"{chg}.old")
                return (x == f"{chg}.old is None" and lab == "T") or (x == f"{chg}.old is not None" and lab == "F") or (x == f"{chg}.old" and lab == "F") or (x == f"not {chg}.old" and lab == "T")

            head = t.loops[-1]
            rr = g.reach([d for lab, d in t.succ if lab == "T"], skip_node=lambda x: x.id in sink_ids, skip_edge=no_old)
            ck.require(head not in rr, "C09.kinds", cmp_, t, "an ADD whose old entry is present queues that entry for removal",
                       "an entry typed ADD that still has an old side (an entry of unknown kind, e.g. a broken symlink where the target has a directory) is created without removing what is in the way: apply() then fails with FileExistsError and the workspace never converges",
                       witness=g.fmt_path(g.path_to(rr, head)) if head in rr else None, construct=f"{norm(t.ast)} / old side removed")
    ck.floor("C09.kinds", n_add, 1, "ADD branches in _compare")

    # kinds: every queue receives an entry only after that entry's kind was tested
    n_kind = 0
    _alts_cache: Dict[int, str] = {}
    for n, c, lst in apps:
        if lst == "files_chmod":
            continue
        arg = norm(c.args[0])
        side = "old" if arg.endswith(".old") else ("new" if arg.endswith(".new") else None)
        if side is None:
            ck.fail("C09.kinds", cmp_, n, f"`{norm(c)}` queues something that is neither change.old nor change.new")
            continue
        n_kind += 1
        want_dir = lst.startswith("dirs_")

        def kind_lit(t, lab, side=side, want_dir=want_dir):
            if t.kind != "test":
                return False
            alts = _alts_cache.get(id(t.ast))
            if alts is None:
                alts = _alts_cache[id(t.ast)] = " | ".join(norm(a) for a in [t.ast] + expand1(prog, cmp_, t.ast, levels=2))
            if f"{side}.meta" not in alts and f"{side}_meta" not in alts and f"{side}_isdir" not in norm(t.ast):
                return False
            isdir = ".isdir" in alts or "_isdir" in norm(t.ast)
            e_ = t.ast
            if isinstance(e_, ast.Compare) and len(e_.ops) == 1 and isinstance(e_.ops[0], (ast.Is, ast.IsNot)) and isinstance(e_.comparators[0], ast.Constant) and e_.comparators[0].value is None and not isdir:
                # `meta is not None` / `meta is None` on the entry's metadata: the no-metadata edge means "not a directory"
                no_meta = (isinstance(e_.ops[0], ast.IsNot) and lab == "F") or (isinstance(e_.ops[0], ast.Is) and lab == "T")
                return (not want_dir) and no_meta
            if want_dir:
                return isdir and lab == "T"
            return lab == "F" and (isdir or norm(t.ast).endswith(".meta") or norm(t.ast).endswith("_meta"))  # not isdir, or no meta at all

        w = cut(g, [n.id], kind_lit)
        ck.require(w is None, "C09.kinds", cmp_, n,
                   f"{lst} receives change.{side} only after its kind was tested ({'is' if want_dir else 'is not'} a directory)",
                   f"change.{side} can be appended to {lst} {'without being a directory' if want_dir else 'although it is a directory'}: a replaced directory would be handed to the recursive file removal (or a file to rmdir / mkdir)",
                   witness=g.fmt_path(w) if w else None)
    ck.floor("C09.kinds", n_kind, 6, "queue appends in _compare (closures inlined)")
    # executable files are always queued for chmod when queued for creation
    for n, c, lst in apps:
        if lst != "files_create":
            continue
        arg = norm(c.args[0])
        chm = {x.id for x, c2, q in apps if q == "files_chmod" and norm(c2.args[0]) == arg}

        def skip(a, lab, b, arg=arg):
            if lab == "exc":
                return True
            if a.kind != "test":
                return False
            # `meta = entry.meta` copied into a local; `meta is not None` instead of truthiness
            ts = {norm(z) for z in [a.ast] + expand1(prog, cmp_, a.ast, levels=2)}
            if lab == "F" and ts & {f"{arg}.meta.isexec", f"{arg}.meta", f"{arg}.meta is not None"}:
                return True
            return lab == "T" and bool(ts & {f"{arg}.meta is None", f"not {arg}.meta"})

        starts = [d for lab, d in g.nodes[n.loops[-1]].succ if lab == "T"] if n.loops else [g.entry]
        reached = g.reach(starts, skip_node=lambda x: x.id in chm, skip_edge=skip)
        bad = n.id in reached
        ck.require(bool(chm) and not bad, "C09.kinds", cmp_, n,
                   "every executable file queued for creation is also queued for chmod",
                   "an executable target file can be queued for creation without being queued for chmod (it ends up non-executable)",
                   witness=g.fmt_path(g.path_to(reached, n.id)) if bad and n.id in reached else None, construct=f"{norm(c)} / isexec => chmod")
    # an added entry is always queued for creation; a deleted one (with delete enabled) for deletion
    for names, suffix, what in ((("ADD",), "_create", "an added entry"), (("DELETE",), "_delete", "a deleted entry (delete enabled)")):
        tests = [t for t in g.nodes.values() if typ_is(t, "T", names) or typ_is(t, "F", names)]
        ck.floor("C09.kinds", len(tests), 1, f"{names[0]} branches in _compare")
        for t in tests:
            lab0 = "T" if typ_is(t, "T", names) else "F"
            must = {x.id for x, _c, q in apps if q.endswith(suffix)}
            heads = set(t.loops[-1:])
            r = g.reach([d for lab, d in t.succ if lab == lab0], skip_node=lambda x: x.id in must,
                        skip_edge=lambda a, l, b: l == "exc" or (a.kind == "test" and isinstance(a.ast, ast.Name) and a.ast.id == "delete" and l == "F"), include_start=True)
            r2 = {x for x in r if x in heads or x == g.exit}
            starts_in_must = all(d in must for lab, d in t.succ if lab == lab0)
            ck.require(starts_in_must or not r2, "C09.kinds", cmp_, t, f"{what} is always queued ({suffix[1:]})", f"{what} can pass through _compare without being queued in any *{suffix} list",
                       witness=g.fmt_path(g.path_to(r, next(iter(r2)))) if r2 and not starts_in_must else None, construct=f"{norm(t.ast)} / always queued")
    # MODIFY with changed hash/kind: both delete(old) and create(new)
    del_calls = [(n, c) for n, c in sinks if norm(c.args[0]).endswith(".old")]
    crt_calls = [(n, c) for n, c, q in apps if q.endswith("_create") and norm(c.args[0]).endswith(".new")]
    mod_tests = [t for t in g.nodes.values() if typ_is(t, "T", ("MODIFY",)) or typ_is(t, "F", ("MODIFY",))]
    ck.floor("C09.kinds", len(mod_tests), 1, "MODIFY branches in _compare")
    for t in mod_tests:
        mlab = "T" if typ_is(t, "T", ("MODIFY",)) else "F"
        r = g.reach([d for lab, d in t.succ if lab == mlab], skip_node=lambda x: x.kind == "for", include_start=True)
        d_in = [n for n, c in del_calls if n.id in r]
        c_in = [n for n, c in crt_calls if n.id in r]
        ok = bool(d_in) and bool(c_in)
        if ok:
            # delete(old) is followed by create(new)
            cids = {x.id for x in c_in}
            for dn in d_in:
                rr = g.reach([dn.id], skip_node=lambda x: x.id in cids and x.id != dn.id, skip_edge=lambda a, l, b: l == "exc")
                escaped = any(g.nodes[x].kind == "for" for x in rr if x != dn.id)
                ck.require(not escaped, "C09.kinds", cmp_, dn, "replacement queues delete(old) and then create(new)", "a replaced entry can be queued for deletion without its replacement being queued for creation")
        else:
            ck.fail("C09.kinds", cmp_, t, "MODIFY branch does not queue both delete(old) and create(new)")
            continue
        # ... and the replacement can be skipped only when the kinds agree (file/file with equal hashes, or dir/dir):
        # a path round the delete that never learns "old kind == new kind" leaves a file where a directory is
        # needed (or the reverse) whenever both sides lack a hash
        from ..prov import scope_of as _scope

        def isdir_name(nm: str) -> bool:
            return "isdir" in nm or any(d.kind == "assign" and "isdir" in norm(d.value) for d in _scope(cmp_).get(nm))

        def side_of(nm: str) -> str:
            txt = nm + " " + " ".join(norm(d.value) for d in _scope(cmp_).get(nm) if d.kind == "assign")
            return "old" if "old" in txt and "new" not in txt else ("new" if "new" in txt and "old" not in txt else "?")

        def kinds_equal(a, lab) -> bool:
            e = a.ast
            if a.kind == "test" and isinstance(e, ast.Compare) and len(e.ops) == 1 and isinstance(e.left, ast.Name) and isinstance(e.comparators[0], ast.Name) and isdir_name(e.left.id) and isdir_name(e.comparators[0].id):
                return (isinstance(e.ops[0], ast.NotEq) and lab == "F") or (isinstance(e.ops[0], ast.Eq) and lab == "T")
            return False

        def is_dir_of(side):
            def lit(a, lab) -> bool:
                e = a.ast
                return kinds_equal(a, lab) or (a.kind == "test" and lab == "T" and isinstance(e, ast.Name) and isdir_name(e.id) and side_of(e.id) == side)

            return lit

        # a path round the delete is justified when it learns "kinds equal", or BOTH "old is a directory" and "new is a
        # directory": it must therefore be cut by each of the two literal sets {equal, old-is-dir} and {equal, new-is-dir}
        dids = {n.id for n in d_in}
        heads_ = {x.id for x in g.nodes.values() if x.kind == "for" and x.id in t.loops}
        badk, rr2 = [], set()
        for side in ("old", "new"):
            lifted_k = with_flags(g, is_dir_of(side), start=t.loops[-1] if t.loops else None)
            rr2 = g.reach([d for lab, d in t.succ if lab == mlab], skip_node=lambda x: x.id in dids, skip_edge=lambda a, lab, b, lk=lifted_k: lab == "exc" or lk(a, lab))
            badk = [h_ for h_ in heads_ if h_ in rr2]
            if badk:
                break
        ck.require(not badk, "C09.kinds", cmp_, t, "a MODIFY skips the replacement only when old and new are known to be of the same kind",
                   "a MODIFY can leave the old entry in place without having compared the kinds of old and new (only the hashes): when neither side has a hash - a workspace scanned without hashing, an intermediate directory of a tree - a file stays where a directory is needed and creating what lies below fails",
                   witness=g.fmt_path(g.path_to(rr2, badk[0])) if badk else None, construct="MODIFY / kinds compared")


def _error_rules(ck: Checker) -> None:
    prog, res = ck.prog, ck.res
    cf = prog.func("index.checkout", "_create_files")
    g = ck.cfg(cf)
    hs = [h for h in g.nodes.values() if h.kind == "handler"]
    n_skip = 0
    for h in hs:
        if not h.loops:
            continue
        head = h.loops[-1]
        if norm(g.nodes[head].ast.iter) != "entries":
            continue  # only the loop that decides which entries get created
        # a handler that goes on to the next entry without queueing this one (by `continue`, or by falling past a
        # try/except/else whose else-branch does the queueing)
        queue = {x.id for x in g.nodes.values() if head in x.loops for c in calls_at(x) if is_method_call(c, "append", "add", "setdefault")}
        r0 = g.reach([h.id], skip_node=lambda x: x.id in queue, skip_edge=lambda a, l, b: l == "exc")
        if head not in r0:
            continue
        n_skip += 1
        oe = {x.id for x in g.nodes.values() for c in calls_at(x) if isinstance(c.func, ast.Name) and c.func.id == "onerror"}
        reached = g.reach([h.id], skip_node=lambda x: x.id in oe, skip_edge=lambda a, l, b: l == "exc")
        bad = head in reached
        ck.require(bool(oe) and not bad, "C09.errors", cf, h,
                   "an entry skipped because its source is unavailable is reported through onerror first",
                   "an entry can be skipped silently: the handler reaches `continue` without calling onerror",
                   witness=g.fmt_path(g.path_to(reached, head)) if bad else None)
    ck.floor("C09.errors", n_skip, 1, "skipping handlers in _create_files")
    for n in g.nodes.values():
        for c in calls_at(n):
            if _is_generic_transfer(cf, c):
                v = next((k.value for k in c.keywords if k.arg == "on_error"), None)
                forwards = v is not None and norm(v) == "onerror" and cf.has_param("onerror")
                if not forwards and isinstance(v, ast.Name) and v.id in cf.children:
                    # a local wrapper: it must hand every failure on to the caller's callback
                    w_ = cf.children[v.id]
                    gw = ck.cfg(w_)
                    fw = {x.id for x in gw.nodes.values() for c2 in calls_at(x) if isinstance(c2.func, ast.Name) and c2.func.id == "onerror"}
                    rw = gw.reach([gw.entry], skip_node=lambda x: x.id in fw, skip_edge=lambda a, l, b: l == "exc")
                    forwards = bool(fw) and gw.exit not in rw
                ck.require(forwards, "C09.errors", cf, n,
                           "bulk copy reports per-file failures through the onerror parameter", f"bulk copy is called with on_error={norm(v) if v is not None else None}: failed files are skipped silently",
                           construct=f"{n.text()[:50]} / on_error")
    ap = prog.func("index.checkout", "apply")
    ga = ck.cfg(ap)
    rep = [h for h in ga.nodes.values() if h.kind == "for" and norm(h.ast.iter).endswith(".dirs_failed")]
    ok = False
    for h in rep:
        body = [x for x in ga.nodes.values() if h.id in x.loops and x.id != h.id]
        # the caller's callback, possibly under another local name (`report = noop if onerror is None else onerror`)
        cbs = {"onerror"} | {t_.id for a_ in walk_own(ap.node) if isinstance(a_, ast.Assign) for t_ in a_.targets if isinstance(t_, ast.Name)
                              and any(isinstance(x_, ast.Name) and x_.id == "onerror" for x_ in walk_expr(a_.value))}
        ok = any(isinstance(c.func, ast.Name) and c.func.id in cbs for x in body for c in calls_at(x))
    ck.require(ok, "C09.errors", ap, rep[0] if rep else ap.node, "every failed directory load is reported through onerror", "apply() does not report diff.dirs_failed through onerror")
    if rep:
        w = avoiding_path(ga, ga.exit, lambda x: x.id == rep[0].id)
        ck.require(w is None, "C09.errors", ap, rep[0], "failed directory loads are reported on every path through apply()",
                   "apply() can return (e.g. an 'already up to date' early exit) before failed directory loads were reported through onerror", witness=ga.fmt_path(w) if w else None, construct="dirs_failed reporting / every path")
    cp = prog.func("index.checkout", "compare")
    # dirs_failed is the complete set collected by the error hook
    hook = [f for f in cp.children.values() if any(is_method_call(c, "add", "append") for c, _ in res.calls_in(f))]
    assigned = [n for n in walk_own(cp.node) if isinstance(n, ast.Assign) and norm(n.targets[0]).endswith(".dirs_failed")]
    okd = False
    why = "no assignment to ret.dirs_failed"
    if assigned and hook:
        v = assigned[0].value
        coll = {norm(c.func.value) for f in hook for c, _ in res.calls_in(f) if is_method_call(c, "add", "append")}
        from ..prov import alias_names as _al

        names_v = _al(cp, v.id) if isinstance(v, ast.Name) else set()
        okd = isinstance(v, ast.Name) and bool(names_v & coll) and any(is_accumulator(cp, nm_) for nm_ in names_v)
        why = f"ret.dirs_failed = {norm(v)}; the hook collects into {sorted(coll)}"
    ck.require(okd, "C09.errors", cp, assigned[0] if assigned else cp.node,
               "dirs_failed is the complete set of directories whose load failed (as collected by the error hook)",
               f"dirs_failed is not the complete set collected by the error hook ({why}): some failed directories are never reported", construct="ret.dirs_failed = ...")
    # restore in finally
    fin = [n for t in walk_own(cp.node) if isinstance(t, ast.Try) for s in t.finalbody for n in ast.walk(s) if isinstance(n, ast.Assign) and norm(n.targets[0]) == "new.onerror"]
    ck.require(bool(fin), "C09.errors", cp, cp.node, "new.onerror is restored in a finally block", "compare() does not restore new.onerror on all paths", construct="finally: new.onerror = onerror")
