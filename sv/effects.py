"""Effect table: which calls are filesystem-destructive / writing / store-mutating."""
from __future__ import annotations

import ast
from typing import List, Optional

from .loader import Func, Program, norm
from .prov import attr_chain, scope_of

DESTRUCTIVE_METHODS = {
    "remove", "rm", "rm_file", "rmdir", "rmtree", "unlink", "rename", "replace", "move", "mv", "rm_rf", "delete",
    "_remove_unpacked_dir",
}
DESTRUCTIVE_FUNCS = {"remove", "rmtree", "rmdir", "unlink", "rename", "replace", "move", "remove_tree"}
MODULE_DESTRUCTIVE = {
    "os": {"remove", "unlink", "rmdir", "rename", "replace", "removedirs", "truncate"},
    "shutil": {"rmtree", "move"},
}
LOCAL_CONTAINER_CTORS = {"list", "set", "dict", "deque", "defaultdict", "OrderedDict", "sorted"}


def _is_local_container(fn: Func, recv: ast.expr) -> bool:
    """Receiver provably a local list/set/dict (so .remove/.pop/... is not an fs effect)."""
    if not isinstance(recv, ast.Name):
        return False
    defs = scope_of(fn).get(recv.id)
    if not defs:
        return False
    for d in defs:
        if d.kind not in ("assign",):
            return False
        v = d.value
        if isinstance(v, (ast.List, ast.Set, ast.Dict, ast.ListComp, ast.SetComp, ast.DictComp)):
            continue
        if isinstance(v, ast.Call) and isinstance(v.func, ast.Name) and v.func.id in LOCAL_CONTAINER_CTORS:
            continue
        return False
    return True


def fs_like(fn: Func, recv: Optional[ast.expr]) -> bool:
    if recv is None:
        return False
    ch = attr_chain(recv)
    if ch is None:
        return False
    last = ch[-1]
    if last in ("fs", "localfs", "memfs") or last.endswith("_fs") or last.startswith("fs_"):
        return True
    if len(ch) == 1 and fn.has_param(last):
        ann = fn.param_annotation(last) or ""
        if "FileSystem" in ann:
            return True
    return False


def destructive_kind(prog: Program, fn: Func, call: ast.Call) -> Optional[str]:
    """Classify a call as filesystem-destructive; returns a short description or None."""
    f = call.func
    if isinstance(f, ast.Attribute):
        recv = f.value
        ch = attr_chain(recv)
        if ch and len(ch) == 1 and ch[0] in MODULE_DESTRUCTIVE and f.attr in MODULE_DESTRUCTIVE[ch[0]]:
            ent = prog.lookup_name(fn, ch[0])
            return f"{ch[0]}.{f.attr}"
        if ch and ch[:2] == ["os", "path"]:
            return None
        if f.attr in DESTRUCTIVE_METHODS:
            if _is_local_container(fn, recv):
                return None
            if f.attr in ("replace", "delete", "move", "rename") and not fs_like(fn, recv):
                # str.replace / non-fs 'delete' are not filesystem effects
                return None
            if f.attr == "remove" and not fs_like(fn, recv):
                # x.remove(...) on an attribute that is a declared list field, e.g. ret.dirs_create.remove
                chain = attr_chain(recv)
                if chain and len(chain) >= 2 and chain[-1] not in ("fs",):
                    return None
            return f"{norm(recv)}.{f.attr}"
        return None
    if isinstance(f, ast.Name) and f.id in DESTRUCTIVE_FUNCS:
        ent = prog.lookup_name(fn, f.id)
        # imported helper (e.g. dvc_objects.fs.utils.remove) or unknown global
        if isinstance(ent, Func):
            return None  # repository function: followed through the call graph instead
        f2 = fn
        target = None
        while f2 is not None and target is None:
            target = f2.local_imports.get(f.id)
            f2 = f2.parent
        target = target or fn.module.imports.get(f.id)
        if target is not None:
            return f"{target[0]}.{target[1]}"
        return None
    return None


WRITE_METHODS = {"put_file", "pipe_file", "pipe", "copy", "copyfile", "makedirs", "mkdir", "touch", "write_text", "write_bytes", "upload_fobj", "put", "symlink", "hardlink", "reflink", "link"}
