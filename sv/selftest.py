"""Thorough tier: test the checker both ways on scratch copies of /repo's CURRENT source.

For property P, every committed variant under /verif/seeded (breaking changes written by independent
sub-agents, plus reverts of the repaired defects) and /verif/benign (behaviour-preserving refactors)
is applied to a scratch copy of /repo/src (mkdtemp outside /repo and /verif, removed afterwards) and
P's rules are evaluated on it - statically, nothing is executed.

  * a variant recorded as breaking P must add at least one violation compared with the base tree,
  * every other variant (other properties' breakages = negative controls, and all benign twins) must add none.

Variants whose patch no longer applies to the current tree are skipped and listed.  The outcome is
reported in the evidence; it never turns a clean base result into an alarm.
"""
from __future__ import annotations

import importlib
import json
import os
import shutil
import subprocess
import sys
import tempfile
from concurrent.futures import ProcessPoolExecutor
from typing import Dict, List, Tuple

HERE = os.path.dirname(os.path.abspath(__file__))
VERIF = os.path.dirname(HERE)


def _variants() -> List[Dict]:
    out = []
    for kind, root in (("break", os.path.join(VERIF, "seeded")), ("benign", os.path.join(VERIF, "benign"))):
        if not os.path.isdir(root):
            continue
        for sid in sorted(os.listdir(root)):
            d = os.path.join(root, sid)
            patch = os.path.join(d, "patch.diff")
            meta_p = os.path.join(d, "meta.json")
            if not (os.path.exists(patch) and os.path.exists(meta_p)):
                continue
            try:
                meta = json.load(open(meta_p))
            except Exception:  # noqa: BLE001
                continue
            expected = sorted((meta.get("confirmed", {}).get("checks_reporting", {}) or {}).keys()) if kind == "break" else []
            out.append({"id": sid, "kind": kind, "patch": patch, "expected": expected, "summary": meta.get("summary", "")[:160]})
    return out


def _eval(args) -> Tuple[str, str, List[str]]:
    """Worker: apply one patch to a scratch copy and evaluate property pid on it."""
    pid, repo, var = args
    sys.path.insert(0, VERIF)
    from sv.core import Checker
    from sv.loader import AnalysisError, Program

    tmp = tempfile.mkdtemp(prefix="svself-")
    try:
        shutil.copytree(os.path.join(repo, "src"), os.path.join(tmp, "src"))
        r = subprocess.run(["patch", "-p1", "-s", "-f", "-d", tmp, "-i", var["patch"]], capture_output=True, text=True)
        if r.returncode != 0:
            return var["id"], "skipped (patch does not apply to the current tree)", []
        try:
            prog = Program(tmp)
            ck = Checker(prog, pid, "thorough")
            __import__("sv.rules", fromlist=["run_rules"]).run_rules(ck, pid)
            keys = sorted({o.key for o in ck.obs if not o.ok})
            return var["id"], "ok", keys
        except AnalysisError as exc:
            return var["id"], f"analysis-error: {exc}", []
        except Exception as exc:  # noqa: BLE001
            return var["id"], f"internal-error: {type(exc).__name__}: {exc}", []
    finally:
        shutil.rmtree(tmp, ignore_errors=True)


def _touched(patch: str) -> List[str]:
    out = []
    try:
        for line in open(patch, encoding="utf-8", errors="replace"):
            if line.startswith("+++ b/") or line.startswith("--- a/"):
                out.append(line[6:].strip())
    except OSError:
        pass
    return sorted(set(out))


def run(pid: str, repo: str, base_bad_keys: List[str], jobs: int = 16, consulted=None) -> Dict:
    vs = _variants()
    base = set(base_bad_keys)
    # A variant that touches none of the source files the property's rules read on the base tree cannot change
    # the verdict (rules are functions of the normalised ASTs of the files they read; normalisation is per file,
    # cross-file inputs are names and signatures only).  Such variants are counted as `unrelated` and not
    # re-evaluated - except those recorded as breaking this very property, which are always evaluated.
    unrelated = []
    if consulted:
        cs = set(consulted)
        keep = []
        for v in vs:
            t = _touched(v["patch"])
            if pid in v["expected"] or not t or any(f in cs for f in t) or os.environ.get("SV_SELFTEST_ALL"):
                keep.append(v)
            else:
                unrelated.append(v["id"])
        vs_eval = keep
    else:
        vs_eval = vs
    jobs_in = [(pid, repo, v) for v in vs_eval]
    results = {}
    if jobs_in:
        with ProcessPoolExecutor(max_workers=min(jobs, len(jobs_in))) as ex:
            for sid, status, keys in ex.map(_eval, jobs_in, chunksize=2):
                results[sid] = (status, keys)
    report = {"variants": len(vs), "evaluated": len(vs_eval), "unrelated": len(unrelated), "consulted_files": list(consulted or []),
              "detected": [], "missed": [], "silent_ok": 0, "false_alarms": [], "skipped": [], "errors": []}
    for v in vs_eval:
        status, keys = results.get(v["id"], ("missing", []))
        new = [k for k in keys if k not in base]
        if status.startswith("skipped"):
            report["skipped"].append(v["id"])
            continue
        if status != "ok":
            # a vanished anchor on a breaking variant counts as 'reported as analysis error', listed separately
            report["errors"].append({"variant": v["id"], "status": status})
            continue
        if pid in v["expected"]:
            (report["detected"] if new else report["missed"]).append({"variant": v["id"], "rules": sorted({k.split("|")[0] for k in new})} if new else v["id"])
        elif new:
            report["false_alarms"].append({"variant": v["id"], "kind": v["kind"], "rules": sorted({k.split("|")[0] for k in new})})
        else:
            report["silent_ok"] += 1
    return report
