#!/venv/bin/python
"""Regenerate sv/handlers_baseline.json from the reference tree (run by hand after reading the handlers; the table is
committed and never written by a check)."""
import json, os, sys
HERE = os.path.dirname(os.path.abspath(__file__))
sys.path.insert(0, os.path.dirname(HERE))
from sv.loader import Program
from sv.rules.handlers_common import all_funcs_rec, profile, TABLE

prog = Program(sys.argv[1] if len(sys.argv) > 1 else None)
out = {}
for f in all_funcs_rec(prog):
    if f.module.trusted or '.<locals>' in f.fq:
        continue
    try:
        rows = profile(f.node)
    except Exception as exc:  # noqa: BLE001
        print("skip", f.fq, exc)
        continue
    if rows:
        out[f.fq] = rows
json.dump({"note": "swallowing exception handlers per function, confirmed by reading on the reference tree (see rules/handlers_common.py)", "functions": out}, open(TABLE, "w"), indent=1, sort_keys=True)
print(len(out), "functions with swallowing handlers;", sum(len(v) for v in out.values()), "handlers")
