"""Checker context: obligations, evidence, known findings, exit protocol."""
from __future__ import annotations

import ast
import hashlib
import json
import os
import time
from dataclasses import dataclass, field
from typing import Any, Callable, Dict, List, Optional

from .cfg import CFG, Node, cfg_of
from .loader import AnalysisError, Func, Program, norm
from .prov import Resolver

VERIF = os.path.dirname(os.path.dirname(os.path.abspath(__file__)))


@dataclass
class Ob:
    rule: str
    ok: bool
    module: str
    function: str
    construct: str
    site: str
    detail: str
    witness: List[str] = field(default_factory=list)
    nontrivial: bool = True

    @property
    def key(self) -> str:
        return f"{self.rule}|{self.module}|{self.function}|{self.construct}"

    def to_json(self) -> Dict[str, Any]:
        d = {
            "rule": self.rule,
            "verdict": "discharged" if self.ok else "VIOLATED",
            "site": self.site,
            "function": f"{self.module}:{self.function}",
            "construct": self.construct,
            "detail": self.detail,
        }
        if self.witness:
            d["witness"] = self.witness
        return d


class Checker:
    @property
    def decided(self):
        return self._decided + [x for x in self.extra_decided if x not in self._decided]

    @decided.setter
    def decided(self, v):
        self._decided = list(v)

    def __init__(self, prog: Program, pid: str, tier: str = "quick"):
        self.prog = prog
        self.pid = pid
        self.tier = tier
        self.res = Resolver(prog)
        self.obs: List[Ob] = []
        self.notes: List[str] = []
        self.funcs_analysed: Dict[str, int] = {}
        self._decided: List[str] = []
        self.extra_decided: List[str] = []
        self.not_decided: List[str] = []
        self.trusted: List[str] = []

    # ------------------------------------------------------------ helpers
    def cfg(self, fn: Func) -> CFG:
        g = cfg_of(fn.node)
        self.funcs_analysed[fn.fq] = len(g.nodes)
        return g

    def func(self, mod: str, qual: str) -> Func:
        return self.prog.func(mod, qual)

    def _construct(self, node) -> str:
        if node is None:
            return ""
        if isinstance(node, Node):
            return node.text()
        if isinstance(node, str):
            return node
        if isinstance(node, (ast.FunctionDef, ast.AsyncFunctionDef)):
            return f"def {node.name}"
        if isinstance(node, ast.ClassDef):
            return f"class {node.name}"
        if isinstance(node, (ast.For, ast.AsyncFor)):
            return f"for {norm(node.target)} in {norm(node.iter)}"
        if isinstance(node, ast.If):
            return f"if {norm(node.test)}"
        if isinstance(node, ast.While):
            return f"while {norm(node.test)}"
        if isinstance(node, (ast.With, ast.AsyncWith)):
            return "with " + ", ".join(norm(i) for i in node.items)
        if isinstance(node, ast.Try):
            return "try"
        t = norm(node)
        return t if len(t) < 400 else t[:400]

    def _lineno(self, node) -> int:
        if isinstance(node, Node):
            return node.lineno
        return getattr(node, "lineno", 0) or 0

    def add(self, rule: str, ok: bool, fn: Optional[Func], node, detail: str, witness=None, nontrivial=True, construct=None) -> Ob:
        if fn is not None:
            module, function, rel = fn.module.name, fn.qual, fn.module.relpath
            ln = self._lineno(node) or getattr(fn.node, "lineno", 0)
        else:
            module, function, rel, ln = "-", "-", "-", 0
        ob = Ob(
            rule=rule,
            ok=ok,
            module=module,
            function=function,
            construct=construct if construct is not None else self._construct(node),
            site=f"{rel}:{ln}",
            detail=detail,
            witness=list(witness or []),
            nontrivial=nontrivial,
        )
        self.obs.append(ob)
        return ob

    def ok(self, rule, fn, node, detail, **kw) -> Ob:
        return self.add(rule, True, fn, node, detail, **kw)

    def fail(self, rule, fn, node, detail, witness=None, **kw) -> Ob:
        return self.add(rule, False, fn, node, detail, witness=witness, **kw)

    def require(self, cond: bool, rule, fn, node, ok_detail: str, fail_detail: str, witness=None, **kw) -> bool:
        self.add(rule, bool(cond), fn, node, ok_detail if cond else fail_detail, witness=None if cond else witness, **kw)
        return bool(cond)

    def floor(self, rule: str, found: int, expected_min: int, what: str) -> None:
        """Instance-count floor: a rule matching fewer sites than confirmed by hand
        must not pass vacuously."""
        if found < expected_min:
            raise AnalysisError(
                f"{rule}: found {found} {what}, expected at least {expected_min} "
                f"(rule anchors no longer match the tree; refusing to pass vacuously)"
            )

    def count(self, rule_prefix: str) -> int:
        return sum(1 for o in self.obs if o.rule.startswith(rule_prefix))


# --------------------------------------------------------------------------
# known findings
# --------------------------------------------------------------------------


def load_known() -> Dict[str, Any]:
    p = os.path.join(VERIF, "known_findings.json")
    if not os.path.exists(p):
        return {"findings": [], "fixed": []}
    with open(p, encoding="utf-8") as f:
        return json.load(f)


def match_known(ob: Ob, known: Dict[str, Any], pid: str) -> Optional[Dict[str, Any]]:
    for k in known.get("findings", []):
        if k.get("status", "open") != "open":
            continue
        if k.get("property") != pid:
            continue
        if (
            k.get("rule") == ob.rule
            and k.get("module") == ob.module
            and k.get("function") == ob.function
            and k.get("construct") == ob.construct
        ):
            return k
    return None


# --------------------------------------------------------------------------
# evidence
# --------------------------------------------------------------------------


def write_evidence(ck: Checker, wall: float, seed: int, violations: int, extra: Optional[Dict[str, Any]] = None, outdir=None) -> str:
    outdir = outdir or os.environ.get("SV_EVIDENCE_DIR") or os.path.join(VERIF, "evidence")
    os.makedirs(outdir, exist_ok=True)
    obs = ck.obs
    distinct = {(o.rule, o.module, o.function, o.construct) for o in obs if o.nontrivial}
    rules = sorted({o.rule for o in obs})
    samples = [o.to_json() for o in obs[:60]]
    cov: Dict[str, Any] = {
        "explanation": (
            f"Static analysis of /repo source (no execution). Decided structural clauses: "
            + "; ".join(ck.decided)
            + ". NOT decided (value-level / runtime): "
            + "; ".join(ck.not_decided)
        ),
        "obligations": len(obs),
        "discharged": sum(1 for o in obs if o.ok),
        "evaluations": len(obs),
        "distinct_nontrivial": len(distinct),
        "rule": (
            "one evaluation = one (rule, site) obligation evaluated on the current source; "
            "an obligation is non-trivial when the rule had a concrete construct to examine at that site "
            "(a sink, a call site, a loop, a table entry); distinct by (rule, module, function, normalised construct)"
        ),
        "samples": samples,
        "rules_applied": rules,
        "functions_analysed": len(ck.funcs_analysed),
        "functions": sorted(ck.funcs_analysed)[:200],
        "cfg_nodes": sum(ck.funcs_analysed.values()),
        "modules_parsed": len([m for m in ck.prog.modules.values() if not m.trusted]),
        "trusted_base": ck.trusted
        + ["CPython ast", "sv CFG construction and provenance rules (self-tested by sv/selftest.py)"],
        "checker_cmd": f"/venv/bin/python /verif/sv/run.py {ck.pid} --tier {ck.tier}",
        "exhaustive": False,
        "notes": ck.notes,
    }
    if extra:
        cov.update(extra)
    ev = {
        "property_id": ck.pid,
        "tier": ck.tier,
        "seed": seed,
        "level": "other",
        "coverage": cov,
        "assumptions": ck.trusted,
        "wall_s": round(wall, 3),
        "violations": violations,
    }
    path = os.path.join(outdir, f"{ck.pid}.json")
    with open(path, "w", encoding="utf-8") as f:
        json.dump(ev, f, indent=1, sort_keys=False)
    return path


def write_replay(ck: Checker, ob: Ob) -> str:
    outdir = os.environ.get("SV_OUT_DIR") or os.path.join(VERIF, "out")
    os.makedirs(outdir, exist_ok=True)
    h = hashlib.sha1(ob.key.encode()).hexdigest()[:10]
    path = os.path.join(outdir, f"{ck.pid}-{ob.rule}-{h}.json")
    with open(path, "w", encoding="utf-8") as f:
        json.dump(
            {
                "property": ck.pid,
                "key": ob.key,
                **ob.to_json(),
                "rerun": f"/venv/bin/python /verif/sv/run.py {ck.pid} --replay {path}",
            },
            f,
            indent=1,
        )
    return path
