"""Statement-level control-flow graph with short-circuit atom branches.

Node kinds
  entry / exit / raise_exit
  stmt    simple statement (ast in .ast); synthetic pieces of a decomposed
          `return a and b` / `x = a if c else b` also appear as stmt nodes
  test    one atom of a boolean test; out-edges labelled 'T' / 'F'
  for     loop header: evaluates the iterable, binds the target;
          'T' = next element, 'F' = exhausted
  with    evaluates the context managers of a `with`
  handler entry of an `except` clause (ast = ExceptHandler)
  join    structural no-op

Edges are (label, dst) with label in {None, 'T', 'F', 'exc'}.
"""
from __future__ import annotations

import ast
import copy
from dataclasses import dataclass, field
from typing import Callable, Dict, Iterable, Iterator, List, Optional, Sequence, Set, Tuple

from .loader import walk_expr


@dataclass
class Node:
    id: int
    kind: str
    ast: Optional[ast.AST] = None
    succ: List[Tuple[Optional[str], int]] = field(default_factory=list)
    loops: Tuple[int, ...] = ()  # ids of enclosing loop header nodes (innermost last)
    origin: Optional[ast.AST] = None  # original statement for synthetic nodes
    truth: Optional[bool] = None  # for synthetic value nodes: known truthiness of the value

    @property
    def lineno(self) -> int:
        for a in (self.ast, self.origin):
            if a is not None and hasattr(a, "lineno"):
                return a.lineno
        return 0

    def text(self) -> str:
        if self.ast is None:
            return self.kind
        try:
            if self.kind == "for":
                return f"for {ast.unparse(self.ast.target)} in {ast.unparse(self.ast.iter)}"
            if self.kind == "with":
                return "with " + ", ".join(ast.unparse(i) for i in self.ast.items)
            if self.kind == "handler":
                t = ast.unparse(self.ast.type) if self.ast.type is not None else ""
                return f"except {t}"
            if isinstance(self.ast, (ast.FunctionDef, ast.AsyncFunctionDef)):
                return f"def {self.ast.name}(...)"
            if isinstance(self.ast, ast.ClassDef):
                return f"class {self.ast.name}"
            return ast.unparse(self.ast)
        except Exception:  # noqa: BLE001
            return self.kind


class CFG:
    def __init__(self, fn_node: ast.AST):
        self.fn_node = fn_node
        self.nodes: Dict[int, Node] = {}
        self._n = 0
        self._loops: List[int] = []
        self.entry = self._new("entry").id
        self.exit = self._new("exit").id
        self.raise_exit = self._new("raise_exit").id
        self._loop_stack: List[Tuple[int, int]] = []  # (continue target, break target)
        # stack of handler-entry lists for enclosing try bodies (innermost last)
        self._exc_stack: List[List[int]] = []
        self._finally_stack: List[int] = []
        self._returns_in_try: List[bool] = []
        body = fn_node.body if isinstance(fn_node.body, list) else [ast.Return(value=fn_node.body)]
        if not isinstance(fn_node.body, list):
            ast.copy_location(body[0], fn_node.body)
        last = self._seq(body, [self.entry])
        self._link(last, self.exit)
        self._preds: Optional[Dict[int, List[Tuple[Optional[str], int]]]] = None

    # ------------------------------------------------------------ building
    def _new(self, kind: str, a: Optional[ast.AST] = None, origin=None) -> Node:
        n = Node(self._n, kind, a, loops=tuple(self._loops), origin=origin)
        self.nodes[self._n] = n
        self._n += 1
        return n

    def _edge(self, src: int, label: Optional[str], dst: int) -> None:
        e = (label, dst)
        if e not in self.nodes[src].succ:
            self.nodes[src].succ.append(e)

    def _link(self, frontier: Iterable, dst: int) -> None:
        for f in frontier:
            if isinstance(f, tuple):
                self._edge(f[0], f[1], dst)
            else:
                self._edge(f, None, dst)

    def _exc_edges(self, nid: int) -> None:
        """A statement inside try bodies may jump to any enclosing handler."""
        for handlers in reversed(self._exc_stack):
            for h in handlers:
                self._edge(nid, "exc", h)

    def _stmt_node(self, a: ast.AST, frontier, origin=None) -> int:
        n = self._new("stmt", a, origin=origin)
        self._link(frontier, n.id)
        self._exc_edges(n.id)
        return n.id

    # boolean test decomposition -------------------------------------------
    def _cond(self, e: ast.expr, frontier) -> Tuple[list, list]:
        """Build test nodes for e; return (true_frontier, false_frontier)."""
        if isinstance(e, ast.BoolOp):
            if isinstance(e.op, ast.And):
                falses: list = []
                cur = frontier
                for v in e.values:
                    t, f = self._cond(v, cur)
                    falses += f
                    cur = t
                return cur, falses
            trues: list = []
            cur = frontier
            for v in e.values:
                t, f = self._cond(v, cur)
                trues += t
                cur = f
            return trues, cur
        if isinstance(e, ast.UnaryOp) and isinstance(e.op, ast.Not):
            t, f = self._cond(e.operand, frontier)
            return f, t
        if isinstance(e, ast.Constant) and isinstance(e.value, bool) or (
            isinstance(e, ast.Constant) and e.value is None
        ):
            n = self._new("test", e)
            self._link(frontier, n.id)
            if e.value:
                return [(n.id, "T")], []
            return [], [(n.id, "F")]
        if isinstance(e, ast.NamedExpr) and isinstance(e.target, ast.Name):
            # (x := E) as a test atom:  the binding `x = E`, then the test on x
            asg = ast.Assign(targets=[ast.Name(id=e.target.id, ctx=ast.Store())], value=e.value, type_comment=None)
            ast.copy_location(asg, e)
            ast.fix_missing_locations(asg)
            a = self._new("stmt", asg, origin=e)
            self._link(frontier, a.id)
            self._exc_edges(a.id)
            nm = ast.copy_location(ast.Name(id=e.target.id, ctx=ast.Load()), e)
            n = self._new("test", nm, origin=e)
            self._link([(a.id, None)], n.id)
            return [(n.id, "T")], [(n.id, "F")]
        if isinstance(e, ast.Compare) and isinstance(e.left, ast.NamedExpr) and isinstance(e.left.target, ast.Name):
            # (x := E) is None  /  (x := E) > 0
            asg = ast.Assign(targets=[ast.Name(id=e.left.target.id, ctx=ast.Store())], value=e.left.value, type_comment=None)
            ast.copy_location(asg, e)
            ast.fix_missing_locations(asg)
            a = self._new("stmt", asg, origin=e)
            self._link(frontier, a.id)
            self._exc_edges(a.id)
            cmp_ = ast.Compare(left=ast.Name(id=e.left.target.id, ctx=ast.Load()), ops=e.ops, comparators=e.comparators)
            ast.copy_location(cmp_, e)
            ast.fix_missing_locations(cmp_)
            n = self._new("test", cmp_, origin=e)
            self._link([(a.id, None)], n.id)
            self._exc_edges(n.id)
            return [(n.id, "T")], [(n.id, "F")]
        n = self._new("test", e)
        self._link(frontier, n.id)
        self._exc_edges(n.id)
        return [(n.id, "T")], [(n.id, "F")]

    # value decomposition for `return a and b`, `x = a if c else b` ----------
    def _value_stmt(self, s: ast.stmt, value: ast.expr, rebuild: Callable[[ast.expr], ast.stmt], frontier) -> list:
        """Decompose a statement whose value is BoolOp / IfExp into tests plus
        synthetic simple statements.  Returns the out-frontier."""
        if isinstance(value, ast.IfExp):
            t, f = self._cond(value.test, frontier)
            out = []
            out += self._value_stmt(s, value.body, rebuild, t)
            out += self._value_stmt(s, value.orelse, rebuild, f)
            return out
        if isinstance(value, ast.BoolOp) and len(value.values) >= 2:
            first, rest = value.values[0], value.values[1:]
            restv = rest[0] if len(rest) == 1 else ast.BoolOp(op=value.op, values=rest)
            ast.copy_location(restv, value)
            t, f = self._cond(first, frontier)
            out = []
            if isinstance(value.op, ast.And):
                # truthy first -> value is rest; falsy first -> value is first (known falsy)
                out += self._value_stmt(s, restv, rebuild, t)
                out += self._simple_value(s, first, rebuild, f, truth=False)
            else:
                out += self._simple_value(s, first, rebuild, t, truth=True)
                out += self._value_stmt(s, restv, rebuild, f)
            return out
        return self._simple_value(s, value, rebuild, frontier)

    def _simple_value(self, s, value, rebuild, frontier, truth=None) -> list:
        if not frontier:
            return []
        new = rebuild(value)
        ast.copy_location(new, s)
        ast.fix_missing_locations(new)
        nid = self._stmt_node(new, frontier, origin=s)
        self.nodes[nid].truth = truth  # known truthiness of the value bound / returned here
        return self._after_simple(new, nid)

    def _after_simple(self, s: ast.stmt, nid: int) -> list:
        if isinstance(s, ast.Return):
            self._route_return(nid)
            return []
        if isinstance(s, ast.Raise):
            self._route_raise(nid)
            return []
        return [nid]

    def _route_return(self, nid: int) -> None:
        if self._finally_stack:
            self._edge(nid, None, self._finally_stack[-1])
            for i in range(len(self._returns_in_try)):
                self._returns_in_try[i] = True
        else:
            self._edge(nid, None, self.exit)

    def _route_raise(self, nid: int) -> None:
        if self._exc_stack:
            # already has exc edges to handlers (type-unaware); may also escape
            pass
        if self._finally_stack:
            self._edge(nid, "exc", self._finally_stack[-1])
        else:
            self._edge(nid, "exc", self.raise_exit)

    # statements -------------------------------------------------------------
    def _seq(self, stmts: Sequence[ast.stmt], frontier: list) -> list:
        cur = list(frontier)
        for s in stmts:
            cur = self._stmt(s, cur)
        return cur

    def _stmt(self, s: ast.stmt, frontier: list) -> list:  # noqa: C901, PLR0911, PLR0912
        if not frontier:
            # unreachable code: still build it (detached) so that sinks in it exist
            frontier = []
        if isinstance(s, ast.If):
            t, f = self._cond(s.test, frontier)
            out = self._seq(s.body, t)
            out += self._seq(s.orelse, f) if s.orelse else f
            return out
        if isinstance(s, ast.While):
            head = self._new("join", None, origin=s)
            self._link(frontier, head.id)
            self._loops.append(head.id)
            head.loops = tuple(self._loops)
            t, f = self._cond(s.test, [head.id])
            after = self._new("join", None, origin=s)
            self._loop_stack.append((head.id, after.id))
            body_out = self._seq(s.body, t)
            self._link(body_out, head.id)
            self._loop_stack.pop()
            self._loops.pop()
            after.loops = tuple(self._loops)
            out = self._seq(s.orelse, f) if s.orelse else f
            self._link(out, after.id)
            return [after.id]
        if isinstance(s, (ast.For, ast.AsyncFor)):
            head = self._new("for", s)
            self._link(frontier, head.id)
            self._exc_edges(head.id)
            self._loops.append(head.id)
            head.loops = tuple(self._loops)
            after = self._new("join", None, origin=s)
            after.loops = tuple(self._loops[:-1])
            self._loop_stack.append((head.id, after.id))
            body_out = self._seq(s.body, [(head.id, "T")])
            self._link(body_out, head.id)
            self._loop_stack.pop()
            self._loops.pop()
            out = self._seq(s.orelse, [(head.id, "F")]) if s.orelse else [(head.id, "F")]
            self._link(out, after.id)
            return [after.id]
        if isinstance(s, ast.Break):
            n = self._stmt_node(s, frontier)
            if self._loop_stack:
                self._edge(n, None, self._loop_stack[-1][1])
            return []
        if isinstance(s, ast.Continue):
            n = self._stmt_node(s, frontier)
            if self._loop_stack:
                self._edge(n, None, self._loop_stack[-1][0])
            return []
        if isinstance(s, ast.Return):
            if s.value is not None and isinstance(s.value, (ast.BoolOp, ast.IfExp)):
                return self._value_stmt(s, s.value, lambda v: ast.Return(value=v), frontier)
            n = self._stmt_node(s, frontier)
            self._route_return(n)
            return []
        if isinstance(s, ast.Raise):
            n = self._stmt_node(s, frontier)
            self._route_raise(n)
            return []
        if isinstance(s, ast.Assert):
            t, f = self._cond(s.test, frontier)
            if f:
                fail = self._new("stmt", ast.copy_location(ast.Raise(exc=ast.Name(id="AssertionError", ctx=ast.Load()), cause=None), s), origin=s)
                ast.fix_missing_locations(fail.ast)
                self._link(f, fail.id)
                self._exc_edges(fail.id)
                self._route_raise(fail.id)
            return t
        if isinstance(s, (ast.With, ast.AsyncWith)):
            head = self._new("with", s)
            self._link(frontier, head.id)
            self._exc_edges(head.id)
            suppress = any(_is_suppress(i.context_expr) for i in s.items)
            if suppress:
                after = self._new("join", None, origin=s)
                after.loops = tuple(self._loops)
                self._exc_stack.append([after.id])
                out = self._seq(s.body, [head.id])
                self._exc_stack.pop()
                self._link(out, after.id)
                return [after.id]
            return self._seq(s.body, [head.id])
        if isinstance(s, ast.Try) or s.__class__.__name__ == "TryStar":
            return self._try(s, frontier)
        if isinstance(s, ast.Match):
            # not used by the repository; model every case body as reachable
            head = self._stmt_node(ast.Expr(value=s.subject), frontier, origin=s)
            out: list = []
            for c in s.cases:
                out += self._seq(c.body, [head])
            out.append(head)
            return out
        if isinstance(s, ast.Assign) and isinstance(s.value, (ast.BoolOp, ast.IfExp)):
            return self._value_stmt(
                s, s.value, lambda v, s=s: ast.Assign(targets=s.targets, value=v, type_comment=None), frontier
            )
        if isinstance(s, ast.AnnAssign) and s.value is not None and isinstance(s.value, (ast.BoolOp, ast.IfExp)):
            return self._value_stmt(
                s,
                s.value,
                lambda v, s=s: ast.AnnAssign(target=s.target, annotation=s.annotation, value=v, simple=s.simple),
                frontier,
            )
        if isinstance(s, ast.Expr) and isinstance(s.value, (ast.BoolOp, ast.IfExp)):
            return self._value_stmt(s, s.value, lambda v: ast.Expr(value=v), frontier)
        # simple statement (incl. nested def/class: treated as a binding)
        n = self._stmt_node(s, frontier)
        return [n]

    def _try(self, s, frontier: list) -> list:
        handler_nodes = []
        for h in s.handlers:
            hn = self._new("handler", h)
            handler_nodes.append(hn)
        fin_entry = None
        if s.finalbody:
            fin_entry = self._new("join", None, origin=s)
            self._finally_stack.append(fin_entry.id)
            self._returns_in_try.append(False)
        self._exc_stack.append([h.id for h in handler_nodes])
        body_out = self._seq(s.body, frontier)
        self._exc_stack.pop()
        # exceptions raised in handlers / else propagate outwards
        out = self._seq(s.orelse, body_out) if s.orelse else body_out
        for hn, h in zip(handler_nodes, s.handlers):
            # handler nodes themselves may propagate to outer handlers
            out += self._seq(h.body, [hn.id])
        if fin_entry is not None:
            self._finally_stack.pop()
            had_return = self._returns_in_try.pop()
            self._link(out, fin_entry.id)
            # an exception not caught by any handler also runs finally
            fin_out = self._seq(s.finalbody, [fin_entry.id])
            for f in fin_out:
                fid = f[0] if isinstance(f, tuple) else f
                lab = f[1] if isinstance(f, tuple) else None
                # after finally: propagate exception outwards, or return
                if self._finally_stack:
                    self._edge(fid, "exc" if lab is None else lab, self._finally_stack[-1])
                else:
                    self._edge(fid, "exc" if lab is None else lab, self.raise_exit)
                if had_return:
                    if self._finally_stack:
                        self._edge(fid, lab, self._finally_stack[-1])
                    else:
                        self._edge(fid, lab, self.exit)
            return fin_out
        return out

    # ------------------------------------------------------------- queries
    def preds(self) -> Dict[int, List[Tuple[Optional[str], int]]]:
        if self._preds is None:
            p: Dict[int, List[Tuple[Optional[str], int]]] = {i: [] for i in self.nodes}
            for n in self.nodes.values():
                for lab, d in n.succ:
                    p[d].append((lab, n.id))
            self._preds = p
        return self._preds

    def find(self, pred: Callable[[Node], bool]) -> List[Node]:
        return [n for n in self.nodes.values() if pred(n)]

    def reach(
        self,
        starts: Iterable[int],
        skip_edge: Optional[Callable[[Node, Optional[str], Node], bool]] = None,
        skip_node: Optional[Callable[[Node], bool]] = None,
        include_start=False,
    ) -> Dict[int, Optional[Tuple[int, Optional[str]]]]:
        """BFS.  Returns {reached node id: (pred id, label)} (None for starts)."""
        seen: Dict[int, Optional[Tuple[int, Optional[str]]]] = {}
        todo: List[int] = []
        for s in starts:
            if s not in seen:
                seen[s] = None
                todo.append(s)
        i = 0
        while i < len(todo):
            cur = todo[i]
            i += 1
            n = self.nodes[cur]
            if skip_node is not None and skip_node(n) and not (seen[cur] is None and include_start):
                continue
            for lab, d in n.succ:
                dn = self.nodes[d]
                if skip_edge is not None and skip_edge(n, lab, dn):
                    continue
                if d not in seen:
                    seen[d] = (cur, lab)
                    todo.append(d)
        return seen

    def path_to(self, reached, target: int) -> List[Tuple[int, Optional[str]]]:
        """Reconstruct a witness path [(node, label taken out of it)...] ending at target."""
        out = []
        cur = target
        lab_in = None
        while cur is not None:
            out.append((cur, lab_in))
            p = reached.get(cur)
            if p is None:
                break
            cur, lab_in = p[0], p[1]
        out.reverse()
        # shift labels so that each element carries the label of the edge leaving it
        res = []
        for i, (nid, _lab) in enumerate(out):
            nxt_lab = out[i + 1][1] if i + 1 < len(out) else None
            res.append((nid, nxt_lab))
        return res

    def fmt_path(self, path) -> List[str]:
        out = []
        for nid, lab in path:
            n = self.nodes[nid]
            if n.kind in ("join",):
                continue
            t = n.text().replace("\n", " ")
            if len(t) > 110:
                t = t[:107] + "..."
            out.append(f"L{n.lineno}: {t}" + (f"  --{lab}-->" if lab else ""))
        return out


def _is_suppress(e: ast.expr) -> bool:
    return (
        isinstance(e, ast.Call)
        and (
            (isinstance(e.func, ast.Name) and e.func.id == "suppress")
            or (isinstance(e.func, ast.Attribute) and e.func.attr == "suppress")
        )
    )


# --------------------------------------------------------------------------
# what is evaluated *at* a node
# --------------------------------------------------------------------------


def node_exprs(n: Node) -> List[ast.AST]:
    """AST pieces evaluated at this node (header only for for/with)."""
    if n.ast is None:
        return []
    if n.kind == "for":
        return [n.ast.iter]
    if n.kind == "with":
        return [i.context_expr for i in n.ast.items]
    if n.kind == "handler":
        return [n.ast.type] if n.ast.type is not None else []
    if isinstance(n.ast, (ast.FunctionDef, ast.AsyncFunctionDef, ast.ClassDef)):
        return list(n.ast.decorator_list)
    return [n.ast]


def calls_at(n: Node) -> List[ast.Call]:
    out = []
    for e in node_exprs(n):
        for x in walk_expr(e):
            if isinstance(x, ast.Call):
                out.append(x)
    return out


def subscripts_at(n: Node) -> List[ast.Subscript]:
    out = []
    for e in node_exprs(n):
        for x in walk_expr(e):
            if isinstance(x, ast.Subscript):
                out.append(x)
    return out


def cfg_of(fn_node: ast.AST) -> CFG:
    g = getattr(fn_node, "_sv_cfg", None)
    if g is None:
        g = CFG(fn_node)
        fn_node._sv_cfg = g  # cached on the AST node itself (ids may be recycled)
    return g
