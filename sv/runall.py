#!/venv/bin/python
"""runall.py --repo DIR : evaluate all 20 properties' rules on one loaded Program (development / regression helper:
~5 s instead of 20 separate ~3 s runs).  Prints one JSON object {pid: {"exit": 0|1|2, "rules": [...], "output": "..."}}.
The registered checks (MANIFEST) use run.py, one property per process; this helper must give the same verdicts."""
from __future__ import annotations

import argparse
import importlib
import json
import os
import sys
import traceback

HERE = os.path.dirname(os.path.abspath(__file__))
sys.path.insert(0, os.path.dirname(HERE))

from sv.core import Checker, load_known, match_known  # noqa: E402
from sv.loader import AnalysisError, Program  # noqa: E402

PIDS = [f"C{i:02d}" for i in range(1, 21)]


def main() -> int:
    ap = argparse.ArgumentParser()
    ap.add_argument("--repo", required=True)
    ap.add_argument("pids", nargs="*")
    a = ap.parse_args()
    out = {}
    try:
        prog = Program(a.repo)
    except AnalysisError as exc:
        print(json.dumps({p: {"exit": 2, "rules": [], "output": f"ANALYSIS-ERROR {exc}"} for p in (a.pids or PIDS)}))
        return 0
    known = load_known()
    for pid in a.pids or PIDS:
        try:
            ck = Checker(prog, pid, "quick")
            note = None
            try:
                __import__("sv.rules", fromlist=["run_rules"]).run_rules(ck, pid)
            except AnalysisError as exc:
                if not any(not o.ok for o in ck.obs):
                    raise
                note = str(exc)
            bad = [o for o in ck.obs if not o.ok and match_known(o, known, pid) is None]
            if not ck.obs:
                raise AnalysisError(f"{pid}: no obligation was generated")
            out[pid] = {"exit": 1 if bad else 0, "rules": sorted({o.rule for o in bad}),
                        "output": "\n".join(f"rule={o.rule} site={o.site} :: {o.detail[:300]}" for o in bad[:6]) + (f"\nnote: {note}" if note else "")}
        except AnalysisError as exc:
            out[pid] = {"exit": 2, "rules": [], "output": f"ANALYSIS-ERROR property={pid} {exc}"}
        except Exception as exc:  # noqa: BLE001
            out[pid] = {"exit": 2, "rules": [], "output": f"ANALYSIS-ERROR property={pid} internal error {type(exc).__name__}: {exc}\n" + traceback.format_exc()[-800:]}
    print(json.dumps(out))
    return 0


if __name__ == "__main__":
    os._exit(main())
