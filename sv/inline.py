"""Helper inlining: undo 'extract method' before the rules look at a function.

Rules are anchored on the functions that existed when they were written (sv/baseline_funcs.json is
the inventory of function names at the pinned commit).  A private helper that is NOT in that
inventory is, by construction, something a later edit extracted from (or added next to) an existing
function.  Rather than teaching every rule about every possible helper, such helpers are inlined
back into their same-module callers on the parsed AST (bounded depth, statement-level call sites),
so that path rules see one control-flow graph again.  What cannot be inlined safely (recursion,
*args/**kwargs, returns inside loops, generators used other than via `yield from`) is left as a call;
a rule that then cannot establish its clause reports it.

This is a source-to-source transformation on the AST used for analysis only; nothing is executed.
"""
from __future__ import annotations

import ast
import copy
import json
import os
from typing import Dict, List, Optional, Set, Tuple

HERE = os.path.dirname(os.path.abspath(__file__))


def load_baseline() -> Dict[str, Dict[str, dict]]:
    p = os.path.join(HERE, "baseline_funcs.json")
    try:
        with open(p, encoding="utf-8") as f:
            raw = json.load(f)
    except OSError:
        return {}
    out = {}
    for k, v in raw.items():
        out[k] = v if isinstance(v, dict) else {q: {} for q in v}
    return out


def _call_names(fn: ast.AST) -> Set[str]:
    out = set()
    for x in _walk_own(fn):
        if isinstance(x, ast.Call):
            if isinstance(x.func, ast.Name):
                out.add(x.func.id)
            elif isinstance(x.func, ast.Attribute):
                out.add(x.func.attr)
    return out


def _params(fn: ast.FunctionDef) -> List[str]:
    a = fn.args
    out = [x.arg for x in a.posonlyargs + a.args]
    if a.vararg:
        out.append("*" + a.vararg.arg)
    out += [x.arg for x in a.kwonlyargs]
    if a.kwarg:
        out.append("**" + a.kwarg.arg)
    return out


def detect_renames(funcs: Dict[str, "_Info"], base: Dict[str, dict]) -> Dict[str, str]:
    """{new qualname: baseline qualname} for functions that were merely renamed: a baseline name is
    gone, a non-baseline function sits in the same scope with the same parameters and (nearly) the
    same set of callees."""
    out: Dict[str, str] = {}
    missing = [q for q in base if q not in funcs and base[q] and ".<locals>." not in q]
    extra = [q for q in funcs if q not in base]
    for m in missing:
        scope = m.rsplit(".", 1)[0] if "." in m else ""
        best, best_s = None, 0.0
        for u in extra:
            if u in out:
                continue
            uscope = u.rsplit(".", 1)[0] if "." in u else ""
            if uscope != scope:
                continue
            bp, up = base[m].get("params", []), _params(funcs[u].node)
            if len(bp) != len(up):
                continue
            same_p = sum(1 for a, b in zip(bp, up) if a == b) / max(1, len(bp))
            bc, uc = set(base[m].get("calls", [])), _call_names(funcs[u].node)
            # callers of renamed siblings also change their callee names: ignore private names
            bc = {c for c in bc if not c.startswith("_")}
            uc = {c for c in uc if not c.startswith("_")}
            jac = len(bc & uc) / max(1, len(bc | uc)) if (bc or uc) else 1.0
            score = 0.5 * same_p + 0.5 * jac
            if same_p >= 0.5 and jac >= 0.6 and score > best_s:
                best, best_s = u, score
        if best is not None:
            out[best] = m
    return out


def _gen_returns_to_breaks(body: List[ast.stmt]) -> List[ast.stmt]:
    """A generator whose last statement is a loop (no `else`): a bare `return` directly inside that loop (not inside an
    inner loop / nested def) ends the generator exactly like `break` does."""
    if not body or not isinstance(body[-1], (ast.While, ast.For)) or body[-1].orelse:
        return body
    loop = body[-1]

    def rec(stmts):
        for i, st in enumerate(stmts):
            if isinstance(st, ast.Return) and st.value is None:
                stmts[i] = ast.copy_location(ast.Break(), st)
                continue
            if isinstance(st, (ast.For, ast.While, ast.AsyncFor, ast.FunctionDef, ast.AsyncFunctionDef, ast.ClassDef)):
                continue
            for fld in ("body", "orelse", "finalbody"):
                sub = getattr(st, fld, None)
                if isinstance(sub, list) and sub and isinstance(sub[0], ast.stmt):
                    rec(sub)
            if isinstance(st, ast.Try):
                for h in st.handlers:
                    rec(h.body)

    rec(loop.body)
    return body


class _Info:
    def __init__(self, node: ast.FunctionDef, cls: Optional[str]):
        self.node = node
        self.cls = cls
        self.is_gen = any(isinstance(x, (ast.Yield, ast.YieldFrom)) for x in _walk_own(node))


def _walk_own(fn: ast.AST):
    todo = list(fn.body)
    while todo:
        n = todo.pop()
        yield n
        if isinstance(n, (ast.FunctionDef, ast.AsyncFunctionDef, ast.ClassDef, ast.Lambda)):
            continue
        todo.extend(ast.iter_child_nodes(n))


def _always_returns(stmts: List[ast.stmt]) -> bool:
    if not stmts:
        return False
    last = stmts[-1]
    if isinstance(last, (ast.Return, ast.Raise)):
        return True
    if isinstance(last, ast.If):
        return bool(last.orelse) and _always_returns(last.body) and _always_returns(last.orelse)
    if isinstance(last, ast.Try):
        return False
    return False


def _has_return(stmts: List[ast.stmt]) -> bool:
    for s in stmts:
        for x in [s] + list(_walk_own_stmt(s)):
            if isinstance(x, ast.Return):
                return True
    return False


def _walk_own_stmt(s: ast.AST):
    todo = list(ast.iter_child_nodes(s))
    while todo:
        n = todo.pop()
        yield n
        if isinstance(n, (ast.FunctionDef, ast.AsyncFunctionDef, ast.ClassDef, ast.Lambda)):
            continue
        todo.extend(ast.iter_child_nodes(n))


class _CannotInline(Exception):
    pass


_DONE_COUNTER = [0]


def _convert_returns(stmts: List[ast.stmt], make_result) -> List[ast.stmt]:
    """Rewrite a body so that `return v` becomes `make_result(v)` statements and control falls out
    at the end (guard clauses become if/else).  Raises _CannotInline for returns inside loops/try."""
    out: List[ast.stmt] = []
    for i, s in enumerate(stmts):
        rest = stmts[i + 1:]
        if isinstance(s, ast.Return):
            out += make_result(s.value, s)
            return out  # anything after is dead
        if isinstance(s, ast.If) and (_has_return(s.body) or _has_return(s.orelse)):
            body_ret = _always_returns(s.body)
            else_ret = _always_returns(s.orelse) if s.orelse else False
            new = copy.copy(s)
            if body_ret and not else_ret:
                new.body = _convert_returns(s.body, make_result)
                new.orelse = _convert_returns(list(s.orelse) + rest, make_result)
                out.append(new)
                return out
            if else_ret and not body_ret:
                new.body = _convert_returns(list(s.body) + rest, make_result)
                new.orelse = _convert_returns(s.orelse, make_result)
                out.append(new)
                return out
            if body_ret and else_ret:
                new.body = _convert_returns(s.body, make_result)
                new.orelse = _convert_returns(s.orelse, make_result)
                out.append(new)
                return out
            raise _CannotInline("return in a branch that also falls through")
        if isinstance(s, (ast.For, ast.While, ast.AsyncFor)) and _has_return([s]):
            raise _CannotInline("return inside a loop")
        if isinstance(s, ast.With) and _has_return([s]):
            new = copy.copy(s)
            if rest and _has_return(s.body) and not _always_returns(s.body):
                raise _CannotInline("return inside with that also falls through")
            new.body = _convert_returns(s.body, make_result)
            out.append(new)
            if _always_returns(s.body):
                return out
            continue
        if isinstance(s, ast.Try) and _has_return([s]):
            # allowed only when it is the last statement: every return becomes the result, fall-through ends
            if rest and s.finalbody:
                raise _CannotInline("return inside try/finally followed by more statements")
            body_has, body_all = _has_return(s.body), _always_returns(s.body)
            if rest and body_has and not body_all:
                # some paths through the try body return, others fall out of it: remember which in a flag
                #     _sv_doneN = False
                #     try: <body; each `return v` -> result = v; _sv_doneN = True, guard clauses -> if/else>
                #     except ...: <same>
                #     if not _sv_doneN: <what followed the try>
                _DONE_COUNTER[0] += 1
                dn = f"_sv_done{_DONE_COUNTER[0]}"

                def mk2(v, at, dn=dn):
                    a = ast.Assign(targets=[ast.Name(id=dn, ctx=ast.Store())], value=ast.Constant(value=True), type_comment=None)
                    ast.copy_location(a, at)
                    return make_result(v, at) + [a]

                init = ast.Assign(targets=[ast.Name(id=dn, ctx=ast.Store())], value=ast.Constant(value=False), type_comment=None)
                ast.copy_location(init, s)
                new = copy.copy(s)
                new.body = _convert_returns(s.body, mk2)
                new.handlers = []
                for h in s.handlers:
                    h2 = copy.copy(h)
                    h2.body = _convert_returns(list(h.body), mk2) or [ast.Pass()]
                    new.handlers.append(h2)
                new.orelse = _convert_returns(list(s.orelse), mk2) if s.orelse else []
                tail_if = ast.If(test=ast.UnaryOp(op=ast.Not(), operand=ast.Name(id=dn, ctx=ast.Load())), body=_convert_returns(list(rest), make_result) or [ast.Pass()], orelse=[])
                ast.copy_location(tail_if, s)
                out += [init, new, tail_if]
                for x in (init, new, tail_if):
                    ast.fix_missing_locations(x)
                return out
            new = copy.copy(s)
            new.body = _convert_returns(s.body, make_result)
            new.handlers = []
            for h in s.handlers:
                h2 = copy.copy(h)
                hb = list(h.body) if _always_returns(h.body) else list(h.body) + [copy.deepcopy(x) for x in rest]
                h2.body = _convert_returns(hb, make_result) or [ast.Pass()]
                new.handlers.append(h2)
            # what followed the try runs only when its body completed: that is the else clause
            tail = list(s.orelse) + ([] if body_all else list(rest))
            new.orelse = _convert_returns(tail, make_result) if tail else []
            out.append(new)
            return out
        out.append(s)
    return out


class _Renamer(ast.NodeTransformer):
    def __init__(self, mapping: Dict[str, ast.expr]):
        self.mapping = mapping

    def visit_Name(self, node: ast.Name):
        if node.id in self.mapping:
            repl = self.mapping[node.id]
            if isinstance(node.ctx, ast.Load):
                return ast.copy_location(copy.deepcopy(repl), node)
            if isinstance(repl, ast.Name):
                return ast.copy_location(ast.Name(id=repl.id, ctx=node.ctx), node)
        return node

    def visit_FunctionDef(self, node):
        # do not rename inside nested defs that rebind the name as a parameter
        params = {a.arg for a in node.args.posonlyargs + node.args.args + node.args.kwonlyargs}
        inner = _Renamer({k: v for k, v in self.mapping.items() if k not in params})
        node.body = [inner.visit(s) for s in node.body]
        return node

    visit_AsyncFunctionDef = visit_FunctionDef

    def visit_Lambda(self, node):
        params = {a.arg for a in node.args.posonlyargs + node.args.args + node.args.kwonlyargs}
        inner = _Renamer({k: v for k, v in self.mapping.items() if k not in params})
        node.body = inner.visit(node.body)
        return node


def _simple(e: ast.expr) -> bool:
    if isinstance(e, (ast.Name, ast.Constant)):
        return True
    if isinstance(e, ast.Attribute):
        return _simple(e.value)
    return False


def _assigned_names(fn: ast.FunctionDef) -> Set[str]:
    out = set()
    for x in _walk_own(fn):
        if isinstance(x, ast.Name) and isinstance(x.ctx, (ast.Store, ast.Del)):
            out.add(x.id)
        if isinstance(x, (ast.Global, ast.Nonlocal)):
            out.update(x.names)
    return out


def _bind(call: ast.Call, info: _Info, is_method_call: bool) -> Tuple[Dict[str, ast.expr], List[ast.stmt]]:
    fn = info.node
    a = fn.args
    # **kwargs handed through unchanged (`helper(a, b, **kwargs)` into `def helper(a, b, **kwargs)`) is a rename
    star_kw = [k for k in call.keywords if k.arg is None]
    passthrough = None
    if a.kwarg is not None and len(star_kw) == 1 and isinstance(star_kw[0].value, ast.Name) and not a.vararg:
        passthrough = (a.kwarg.arg, star_kw[0].value)
    elif a.vararg or a.kwarg:
        raise _CannotInline("*args/**kwargs")
    if any(isinstance(x, ast.Starred) for x in call.args) or (star_kw and passthrough is None):
        raise _CannotInline("star arguments at the call site")
    params = [p.arg for p in a.posonlyargs + a.args]
    defaults: Dict[str, ast.expr] = {}
    nd = len(a.defaults)
    for i, p in enumerate(params):
        j = i - (len(params) - nd)
        if j >= 0:
            defaults[p] = a.defaults[j]
    for p, d in zip(a.kwonlyargs, a.kw_defaults):
        if d is not None:
            defaults[p.arg] = d
    bound: Dict[str, ast.expr] = {}
    pos = list(params)
    if info.cls is not None and is_method_call and pos and pos[0] in ("self", "cls"):
        bound[pos[0]] = call.func.value  # type: ignore[attr-defined]
        pos = pos[1:]
    for p, v in zip(pos, call.args):
        bound[p] = v
    if len(call.args) > len(pos):
        raise _CannotInline("too many positional arguments")
    allp = set(params) | {p.arg for p in a.kwonlyargs}
    for k in call.keywords:
        if k.arg is None:
            continue
        if k.arg not in allp:
            raise _CannotInline(f"unknown keyword {k.arg}")
        bound[k.arg] = k.value
    for p in allp:
        if p not in bound:
            if p in defaults:
                bound[p] = defaults[p]
            else:
                raise _CannotInline(f"missing argument {p}")
    reassigned = _assigned_names(fn)
    mapping: Dict[str, ast.expr] = {}
    pre: List[ast.stmt] = []
    if passthrough is not None:
        if passthrough[0] in reassigned:
            raise _CannotInline("**kwargs reassigned in the helper")
        mapping[passthrough[0]] = passthrough[1]
    for p, v in bound.items():
        if _simple(v) and p not in reassigned:
            mapping[p] = v
        else:
            asg = ast.Assign(targets=[ast.Name(id=p, ctx=ast.Store())], value=copy.deepcopy(v), type_comment=None)
            ast.copy_location(asg, call)
            ast.fix_missing_locations(asg)
            pre.append(asg)
    return mapping, pre



def _table_value_ids(node: ast.AST) -> set:
    """ids of Name nodes that are values of a dispatch-table dict literal ({K: f, ...}): being listed in
    such a table is not a use of the function as a first-class value for inlining purposes."""
    out = set()
    for d in ast.walk(node):
        if isinstance(d, ast.Dict) and d.values and all(isinstance(v, ast.Name) for v in d.values):
            out |= {id(v) for v in d.values}
    return out


class Inliner:
    def __init__(self, tree: ast.Module, modname: str, baseline):
        self.tree = tree
        self.modname = modname
        self.baseline = baseline
        self.funcs: Dict[str, _Info] = {}
        self.unknown: Dict[str, _Info] = {}
        self.done: List[str] = []
        self.bases: Dict[str, List[str]] = {}
        self._collect(tree.body, None)
        self.renamed: Dict[str, str] = {}
        self.new_classes: set = set()
        self.new_methods: Dict[str, List[str]] = {}
        self._typed: Dict[str, str] = {}
        if baseline is not None:
            self.renamed = detect_renames(self.funcs, baseline)
            if self.renamed:
                self._apply_renames(tree)
                self.funcs = {}
                self._collect(tree.body, None)
                self.renamed_applied, self.renamed = self.renamed, {}
            for q, inf in self.funcs.items():
                if q in self.renamed:
                    continue  # a renamed baseline function is an anchor, not an extracted helper
                if q not in baseline and q.split(".")[-1].startswith("_") and not q.split(".")[-1].startswith("__"):
                    self.unknown[q] = inf
            # classes that did not exist at the baseline: all their (non-dunder) methods are extracted code
            base_classes = {b.split(".")[0] for b in baseline if "." in b and ".<locals>." not in b}
            self.new_classes = {n.name for n in tree.body if isinstance(n, ast.ClassDef) and n.name not in base_classes and n.name.startswith("_")}
            self.new_methods: Dict[str, List[str]] = {}
            for q, inf in self.funcs.items():
                if "." in q and q.split(".")[0] in self.new_classes:
                    mname = q.split(".")[-1]
                    if mname.startswith("__") and mname != "__call__":
                        continue
                    self.unknown[q] = inf
                    self.new_methods.setdefault(mname, []).append(q)
            # method names also defined by baseline classes of this module are ambiguous on an arbitrary receiver
            known_method_names = {b.split(".")[-1] for b in baseline if "." in b and ".<locals>." not in b}
            self.new_methods = {m: qs for m, qs in self.new_methods.items() if len(qs) == 1 and m not in known_method_names}

    def _apply_renames(self, tree: ast.Module) -> None:
        """A baseline function that was merely renamed gets its baseline name back (definition and every
        reference in this module), so rules that anchor on names keep addressing it."""
        fmap = {n: o for n, o in self.renamed.items() if "." not in n}
        mmap = {n.rsplit(".", 1)[1]: o.rsplit(".", 1)[1] for n, o in self.renamed.items() if "." in n}
        taken = {x.id for x in ast.walk(tree) if isinstance(x, ast.Name)} | {x.attr for x in ast.walk(tree) if isinstance(x, ast.Attribute)}
        fmap = {n: o for n, o in fmap.items() if o not in taken}
        mmap = {n: o for n, o in mmap.items() if o not in taken}
        self.renamed = {n: o for n, o in self.renamed.items() if (n in fmap) or ("." in n and n.rsplit(".", 1)[1] in mmap)}
        for x in ast.walk(tree):
            if isinstance(x, ast.Name) and x.id in fmap:
                x.id = fmap[x.id]
            elif isinstance(x, ast.Attribute) and x.attr in mmap:
                x.attr = mmap[x.attr]
        for q, o in self.renamed.items():
            self.funcs[q].node.name = o.rsplit(".", 1)[-1]

    def _collect(self, body, cls):
        for n in body:
            if isinstance(n, ast.FunctionDef):
                q = f"{cls}.{n.name}" if cls else n.name
                if q not in self.funcs:
                    self.funcs[q] = _Info(n, cls)
            elif isinstance(n, ast.ClassDef) and cls is None:
                self.bases[n.name] = [b.id for b in n.bases if isinstance(b, ast.Name)]
                self._collect(n.body, n.name)
            elif isinstance(n, (ast.If, ast.Try)):
                for fld in ("body", "orelse", "finalbody"):
                    self._collect(getattr(n, fld, []) or [], cls)

    # ------------------------------------------------------------------
    def _target(self, call: ast.Call, cls: Optional[str]) -> Optional[Tuple[str, _Info, bool]]:
        f = call.func
        if isinstance(f, ast.Name) and f.id in self.unknown and self.unknown[f.id].cls is None:
            return f.id, self.unknown[f.id], False
        if isinstance(f, ast.Attribute) and isinstance(f.value, ast.Name) and f.value.id in ("self", "cls") and cls:
            seen, todo = set(), [cls]
            while todo:
                c = todo.pop(0)
                if c in seen:
                    continue
                seen.add(c)
                q = f"{c}.{f.attr}"
                if q in self.funcs and q not in self.unknown:
                    return None  # resolved to a known (baseline) method first
                if q in self.unknown:
                    # a hook that a subclass overrides is dispatched dynamically: never inline it
                    subs, grow = {cls}, True
                    while grow:
                        grow = False
                        for k, bs in self.bases.items():
                            if k not in subs and any(b in subs for b in bs):
                                subs.add(k)
                                grow = True
                    if any(f"{k}.{f.attr}" in self.funcs and k != c for k in subs):
                        return None
                    return q, self.unknown[q], True
                todo += self.bases.get(c, [])
        if isinstance(f, ast.Attribute) and isinstance(f.value, ast.Name):
            # ClassName.classmethod(...) / ClassName.staticmethod(...) of a new private class
            if f.value.id in self.new_classes:
                q = f"{f.value.id}.{f.attr}"
                if q in self.unknown:
                    return q, self.unknown[q], True
            # instance.method(...) where the method name belongs to exactly one new private class
            # a new private method of an existing class, called on a local known to be an instance of it
            tcls = self._typed.get(f.value.id)
            if tcls and f.value.id not in ("self", "cls"):
                q = f"{tcls}.{f.attr}"
                if q in self.unknown and not any(isinstance(d, ast.Name) and d.id in ("staticmethod", "classmethod") for d in self.unknown[q].node.decorator_list):
                    return q, self.unknown[q], True
            qs = self.new_methods.get(f.attr)
            if qs and self._typed.get(f.value.id) != qs[0].split(".")[0]:
                qs = None  # the receiver is not known to be an instance of that class
            if qs and f.value.id not in ("self", "cls") and not any(isinstance(d, ast.Name) and d.id in ("staticmethod", "classmethod") for d in self.unknown[qs[0]].node.decorator_list):
                return qs[0], self.unknown[qs[0]], True
        return None

    def _inlinable(self, q: str, inf: _Info, caller_q: str) -> bool:
        fn = inf.node
        if any(not (isinstance(d, ast.Name) and d.id in ("staticmethod", "classmethod")) for d in fn.decorator_list):
            return False
        if q == caller_q:
            return False
        for x in _walk_own(fn):
            if isinstance(x, (ast.Nonlocal, ast.Global)):
                return False
            if isinstance(x, ast.Call):
                t = self._target(x, inf.cls)
                if t and t[0] == q:
                    return False
        return True

    def _local_renames(self, inf: _Info, mapping: Dict[str, ast.expr], pre: List[ast.stmt]) -> Dict[str, ast.expr]:
        """Helper locals that collide with names of the caller get a suffix (separate scopes)."""
        caller_names = getattr(self, "_caller_names", set())
        locals_ = _assigned_names(inf.node) | {t.id for s in pre for t in s.targets if isinstance(t, ast.Name)}
        out = dict(mapping)
        for nm in locals_:
            if nm in caller_names and nm not in mapping:
                out[nm] = ast.Name(id=f"{nm}__{inf.node.name.lstrip('_')}", ctx=ast.Load())
        return out

    def _expand_call(self, call: ast.Call, cls: Optional[str], caller_q: str, make_result, allow_gen=False) -> Optional[List[ast.stmt]]:
        t = self._target(call, cls)
        if t is None:
            return None
        q, inf, is_m = t
        if not self._inlinable(q, inf, caller_q):
            return None
        if inf.is_gen and not allow_gen:
            return None
        try:
            mapping, pre = _bind(call, inf, is_m)
            mapping = self._local_renames(inf, mapping, pre)
            body = [copy.deepcopy(s) for s in inf.node.body]
            if body and isinstance(body[0], ast.Expr) and isinstance(body[0].value, ast.Constant) and isinstance(body[0].value.value, str):
                body = body[1:]  # docstring
            ren = _Renamer(mapping)
            pre = [ast.Assign(targets=[ren.visit(copy.deepcopy(tg)) for tg in s.targets], value=s.value, type_comment=None) for s in pre]
            for s_ in pre:
                ast.copy_location(s_, call)
            body = [ren.visit(s) for s in body]
            body = _convert_returns(body, make_result)
            body = [s for s in body if not (isinstance(s, ast.Assign) and len(s.targets) == 1 and isinstance(s.targets[0], ast.Name) and isinstance(s.value, ast.Name) and s.targets[0].id == s.value.id)]
        except _CannotInline:
            return None
        self.done.append(f"{q} -> {caller_q}")
        out = pre + body
        for s in out:
            ast.fix_missing_locations(s)
        return out or [ast.Pass()]

    def _expand_gen(self, call: ast.Call, cls: Optional[str], caller_q: str, on_yield, on_yield_from) -> Optional[List[ast.stmt]]:
        """Inline a generator helper at its single consumer: every `yield E` statement becomes on_yield(E)."""
        t = self._target(call, cls)
        if t is None:
            return None
        q, inf, is_m = t
        if not inf.is_gen or not self._inlinable(q, inf, caller_q):
            return None
        try:
            mapping, pre = _bind(call, inf, is_m)
            mapping = self._local_renames(inf, mapping, pre)
            body = [copy.deepcopy(s) for s in inf.node.body]
            if body and isinstance(body[0], ast.Expr) and isinstance(body[0].value, ast.Constant) and isinstance(body[0].value.value, str):
                body = body[1:]
            ren = _Renamer(mapping)
            pre = [ast.Assign(targets=[ren.visit(copy.deepcopy(tg)) for tg in s.targets], value=s.value, type_comment=None) for s in pre]
            for s_ in pre:
                ast.copy_location(s_, call)
            body = [ren.visit(s) for s in body]
            body = _gen_returns_to_breaks(body)
            body = _convert_returns(body, lambda v, at: [])

            def conv(stmts):
                out = []
                for st in stmts:
                    if isinstance(st, ast.Expr) and isinstance(st.value, ast.Yield):
                        out += on_yield(st.value.value if st.value.value is not None else ast.Constant(value=None), st)
                        continue
                    if isinstance(st, ast.Expr) and isinstance(st.value, ast.YieldFrom):
                        out += on_yield_from(st.value.value, st)
                        continue
                    if isinstance(st, (ast.FunctionDef, ast.AsyncFunctionDef, ast.ClassDef)):
                        out.append(st)
                        continue
                    for fld in ("body", "orelse", "finalbody"):
                        sub = getattr(st, fld, None)
                        if isinstance(sub, list) and sub and isinstance(sub[0], ast.stmt):
                            setattr(st, fld, conv(sub) or [ast.Pass()])
                    if isinstance(st, ast.Try):
                        for h in st.handlers:
                            h.body = conv(h.body) or [ast.Pass()]
                    out.append(st)
                return out

            stmt_level = {id(st.value) for b0 in body for st in _walk_own_stmt(b0) if isinstance(st, ast.Expr) and isinstance(st.value, (ast.Yield, ast.YieldFrom))}
            for b0 in body:
                for x in _walk_own_stmt(b0):
                    if isinstance(x, (ast.Yield, ast.YieldFrom)) and id(x) not in stmt_level:
                        raise _CannotInline("yield used as an expression")
            body = conv(body)
        except _CannotInline:
            return None
        self.done.append(f"{q} (generator) -> {caller_q}")
        out = pre + body
        for s_ in out:
            ast.fix_missing_locations(s_)
        return out or [ast.Pass()]

    def _rewrite_body(self, stmts: List[ast.stmt], cls: Optional[str], caller_q: str, in_return_ctx: bool = True) -> List[ast.stmt]:
        out: List[ast.stmt] = []
        for s in stmts:
            # recurse into compound statements first
            for fld in ("body", "orelse", "finalbody"):
                sub = getattr(s, fld, None)
                if isinstance(sub, list) and sub and isinstance(sub[0], ast.stmt) and not isinstance(s, (ast.FunctionDef, ast.AsyncFunctionDef, ast.ClassDef)):
                    setattr(s, fld, self._rewrite_body(sub, cls, caller_q))
            if isinstance(s, ast.Try):
                for h in s.handlers:
                    h.body = self._rewrite_body(h.body, cls, caller_q)
            rep = self._rewrite_stmt(s, cls, caller_q)
            out += rep if rep is not None else [s]
        return out

    # -- expression helpers --------------------------------------------------------------
    def _single_expr(self, inf: _Info) -> Optional[ast.expr]:
        body = list(inf.node.body)
        if body and isinstance(body[0], ast.Expr) and isinstance(body[0].value, ast.Constant) and isinstance(body[0].value.value, str):
            body = body[1:]
        if len(body) == 1 and isinstance(body[0], ast.Return) and body[0].value is not None:
            return body[0].value
        return None

    def _subst_expr_helpers(self, node: ast.AST, cls, caller_q) -> ast.AST:
        outer = self

        class T(ast.NodeTransformer):
            def visit_Call(self, c):
                self.generic_visit(c)
                t = outer._target(c, cls)
                if t is None:
                    return c
                q, inf, is_m = t
                if not outer._inlinable(q, inf, caller_q) or inf.is_gen:
                    return c
                e = outer._single_expr(inf)
                if e is None:
                    return c
                try:
                    mapping, pre = _bind(c, inf, is_m)
                except _CannotInline:
                    return c
                for st in pre:  # non-simple args: substitute them too (expression context, evaluated once in practice)
                    mapping[st.targets[0].id] = st.value
                outer.done.append(f"{q} -> {caller_q} (expr)")
                return ast.copy_location(_Renamer(mapping).visit(copy.deepcopy(e)), c)

            def visit_FunctionDef(self, n):
                return n

            visit_AsyncFunctionDef = visit_FunctionDef
            visit_ClassDef = visit_FunctionDef

        return T().visit(node)

    def _hoist_nested(self, s: ast.stmt, cls, caller_q) -> Optional[List[ast.stmt]]:
        """stmt(..., helper(args), ...)  ->  _sv_argN = <inlined helper>; stmt(..., _sv_argN, ...)"""
        if not isinstance(s, (ast.Expr, ast.Assign, ast.AugAssign, ast.Return, ast.AnnAssign, ast.Raise, ast.For)):
            return None
        top = s.exc if isinstance(s, ast.Raise) else (s.iter if isinstance(s, ast.For) else s.value)
        if top is None:
            return None
        found = []
        for x in ast.walk(top):
            if isinstance(x, (ast.Lambda, ast.ListComp, ast.SetComp, ast.DictComp, ast.GeneratorExp, ast.IfExp, ast.BoolOp)):
                continue
            if isinstance(x, ast.Call) and (x is not top or isinstance(s, ast.For)) and self._target(x, cls) is not None and not self._target(x, cls)[1].is_gen:
                # not inside a comprehension / lambda / conditional sub-expression
                found.append(x)
        guarded = set()
        for x in ast.walk(top):
            if isinstance(x, (ast.Lambda, ast.ListComp, ast.SetComp, ast.DictComp, ast.GeneratorExp, ast.IfExp, ast.BoolOp)):
                for y in ast.walk(x):
                    guarded.add(id(y))
        found = [x for x in found if id(x) not in guarded]
        # an inlinable call inside the arguments of another one is expanded with its host (as a parameter binding):
        # expanding it here as well would duplicate it
        inner = {id(y) for x in found for y in ast.walk(x) if y is not x}
        found = [x for x in found if id(x) not in inner]
        if not found:
            return None
        pre_all: List[ast.stmt] = []
        for i, call in enumerate(found):
            nm = f"_sv_arg{len(self.done)}_{i}"

            def mk(v, at, nm=nm):
                a = ast.Assign(targets=[ast.Name(id=nm, ctx=ast.Store())], value=v if v is not None else ast.Constant(value=None), type_comment=None)
                ast.copy_location(a, at)
                return [a]

            rep = self._expand_call(call, cls, caller_q, mk)
            if rep is None:
                continue
            pre_all += rep

            class R(ast.NodeTransformer):
                def visit_Call(self, c, call=call, nm=nm):
                    if c is call:
                        return ast.copy_location(ast.Name(id=nm, ctx=ast.Load()), c)
                    self.generic_visit(c)
                    return c

            s = R().visit(s)
        if not pre_all:
            return None
        ast.fix_missing_locations(s)
        return pre_all + [s]

    def _expand_ctxmgr(self, s: ast.stmt, cls, caller_q) -> Optional[List[ast.stmt]]:
        """`with helper(a) [as x]: BODY` where `helper` is a new @contextmanager generator with one statement-level
        yield (plain, or inside a try/finally):  its set-up, BODY and its tear-down are spliced together."""
        if not (isinstance(s, ast.With) and len(s.items) == 1 and isinstance(s.items[0].context_expr, ast.Call)):
            return None
        call = s.items[0].context_expr
        t = self._target(call, cls)
        if t is None:
            return None
        q, inf, is_m = t
        fn = inf.node
        decos = [d for d in fn.decorator_list]
        if not (len(decos) == 1 and ((isinstance(decos[0], ast.Name) and decos[0].id == "contextmanager") or (isinstance(decos[0], ast.Attribute) and decos[0].attr == "contextmanager"))):
            return None
        if q == caller_q or any(isinstance(x, (ast.Nonlocal, ast.Global)) for x in _walk_own(fn)):
            return None
        ys = [x for x in _walk_own(fn) if isinstance(x, (ast.Yield, ast.YieldFrom))]
        if len(ys) != 1 or not isinstance(ys[0], ast.Yield):
            return None
        try:
            mapping, pre = _bind(call, inf, is_m)
        except _CannotInline:
            return None
        mapping = self._local_renames(inf, mapping, pre)
        body = [copy.deepcopy(x) for x in fn.body]
        if body and isinstance(body[0], ast.Expr) and isinstance(body[0].value, ast.Constant) and isinstance(body[0].value.value, str):
            body = body[1:]
        ren = _Renamer(mapping)
        pre = [ast.Assign(targets=[ren.visit(copy.deepcopy(tg)) for tg in x.targets], value=x.value, type_comment=None) for x in pre]
        body = [ren.visit(x) for x in body]

        def is_yield_stmt(st):
            return isinstance(st, ast.Expr) and isinstance(st.value, ast.Yield)

        def bind_stmts(st) -> List[ast.stmt]:
            tgt = s.items[0].optional_vars
            if tgt is None:
                return []
            v = st.value.value if st.value.value is not None else ast.Constant(value=None)
            return [ast.Assign(targets=[copy.deepcopy(tgt)], value=v, type_comment=None)]

        out: Optional[List[ast.stmt]] = None
        for i, st in enumerate(body):
            if is_yield_stmt(st):
                out = body[:i] + bind_stmts(st) + [copy.deepcopy(b) for b in s.body] + body[i + 1:]
                break
            if isinstance(st, ast.Try) and not st.handlers and not st.orelse:
                for j, st2 in enumerate(st.body):
                    if is_yield_stmt(st2):
                        st.body = st.body[:j] + bind_stmts(st2) + [copy.deepcopy(b) for b in s.body] + st.body[j + 1:]
                        out = body
                        break
                if out is not None:
                    break
        if out is None:
            return None
        self.done.append(f"{q} (context manager) -> {caller_q}")
        out = pre + out
        for x in out:
            ast.copy_location(x, s)
            ast.fix_missing_locations(x)
        return out or [ast.Pass()]

    _GEN_CONSUMERS = ("sorted", "list", "set", "tuple", "frozenset", "dict", "sum", "max", "min", "any", "all")

    def _hoist_consumed_gen(self, s: ast.stmt, cls, caller_q) -> Optional[List[ast.stmt]]:
        """`... sorted(gen_helper(a), key=k) ...`  ->  `_sv_genN = list(gen_helper(a)); ... sorted(_sv_genN, key=k) ...`
        (the list form is then expanded like any `x = list(gen_helper(...))`): an eager consumer sees the same items."""
        root = s.exc if isinstance(s, ast.Raise) else getattr(s, "value", None)
        if not isinstance(s, (ast.Assign, ast.AnnAssign, ast.Return, ast.Expr, ast.AugAssign, ast.Raise)) or root is None:
            return None
        found = None
        for c in ast.walk(root):
            if not isinstance(c, ast.Call):
                continue
            is_cons = isinstance(c.func, ast.Name) and c.func.id in self._GEN_CONSUMERS
            is_join = isinstance(c.func, ast.Attribute) and c.func.attr == "join" and isinstance(c.func.value, ast.Constant)
            if not (is_cons or is_join) or not c.args or not isinstance(c.args[0], ast.Call):
                continue
            t = self._target(c.args[0], cls)
            if t is None or not t[1].is_gen or not self._inlinable(t[0], t[1], caller_q):
                continue
            # the plain forms are handled directly
            if c is root and isinstance(c.func, ast.Name) and c.func.id in ("list", "set") and len(c.args) == 1 and not c.keywords:
                continue
            found = c
            break
        if found is None:
            return None
        self._gen_tmp = getattr(self, "_gen_tmp", 0) + 1
        tmp = f"_sv_gen{self._gen_tmp}"
        gcall = found.args[0]
        a = ast.Assign(targets=[ast.Name(id=tmp, ctx=ast.Store())], value=ast.Call(func=ast.Name(id="list", ctx=ast.Load()), args=[gcall], keywords=[]), type_comment=None)
        ast.copy_location(a, s)
        ast.fix_missing_locations(a)
        rep = self._rewrite_stmt0(a, cls, caller_q)
        if rep is None:
            return None
        found.args[0] = ast.copy_location(ast.Name(id=tmp, ctx=ast.Load()), gcall)
        ast.fix_missing_locations(s)
        return rep + [s]

    def _rewrite_stmt(self, s: ast.stmt, cls, caller_q) -> Optional[List[ast.stmt]]:  # noqa: C901
        rep = self._expand_ctxmgr(s, cls, caller_q)
        if rep is not None:
            return rep
        rep = self._hoist_consumed_gen(s, cls, caller_q)
        if rep is not None:
            return rep
        rep = self._rewrite_stmt0(s, cls, caller_q)
        if rep is not None:
            return rep
        return self._hoist_nested(s, cls, caller_q)

    def _rewrite_stmt0(self, s: ast.stmt, cls, caller_q) -> Optional[List[ast.stmt]]:  # noqa: C901
        def assign_to(targets):
            def mk(v, at):
                val = v if v is not None else ast.Constant(value=None)
                a = ast.Assign(targets=copy.deepcopy(targets), value=val, type_comment=None)
                ast.copy_location(a, at)
                return [a]
            return mk

        def discard(v, at):
            if v is None or isinstance(v, (ast.Constant, ast.Name)):
                return []
            e = ast.Expr(value=v)
            ast.copy_location(e, at)
            return [e]

        def as_return(v, at):
            r = ast.Return(value=v)
            ast.copy_location(r, at)
            return [r]

        # ---- a generator helper and its consumer ------------------------------------------------
        def own_loop_jumps(body) -> bool:
            todo = list(body)
            while todo:
                x = todo.pop()
                if isinstance(x, (ast.Break, ast.Continue)):
                    return True
                if isinstance(x, (ast.For, ast.While, ast.AsyncFor, ast.FunctionDef, ast.AsyncFunctionDef, ast.Lambda, ast.ClassDef)):
                    continue
                todo.extend(ast.iter_child_nodes(x))
            return False

        def fold_continues(body):
            # `if c: X; continue` followed by REST  ->  `if c: X  else: REST` (top level of the loop body only)
            for i, st in enumerate(body):
                if isinstance(st, ast.If) and not st.orelse and st.body and isinstance(st.body[-1], ast.Continue):
                    rest = fold_continues(body[i + 1:])
                    new_if = ast.If(test=st.test, body=st.body[:-1] or [ast.Pass()], orelse=rest)
                    ast.copy_location(new_if, st)
                    ast.fix_missing_locations(new_if)
                    return body[:i] + [new_if]
            return body

        if isinstance(s, ast.For) and not s.orelse and isinstance(s.iter, ast.Call) and self._target(s.iter, cls) is not None and self._target(s.iter, cls)[1].is_gen and own_loop_jumps(s.body):
            folded = fold_continues([copy.deepcopy(b) for b in s.body])
            if not own_loop_jumps(folded):
                s = copy.copy(s)
                s.body = folded
        if isinstance(s, ast.For) and not s.orelse and isinstance(s.iter, ast.Call) and self._target(s.iter, cls) is not None and self._target(s.iter, cls)[1].is_gen and not own_loop_jumps(s.body):
            def on_yield(e, at, s=s):
                a = ast.Assign(targets=[copy.deepcopy(s.target)], value=e, type_comment=None)
                ast.copy_location(a, at)
                return [a] + [copy.deepcopy(b) for b in s.body]

            def on_yield_from(e, at, s=s):
                f = ast.For(target=copy.deepcopy(s.target), iter=e, body=[copy.deepcopy(b) for b in s.body], orelse=[], type_comment=None)
                ast.copy_location(f, at)
                return [f]

            rep = self._expand_gen(s.iter, cls, caller_q, on_yield, on_yield_from)
            if rep is not None:
                return rep
        coll = None
        if isinstance(s, (ast.Assign, ast.AnnAssign)) and isinstance(s.value, ast.Call) and isinstance(s.value.func, ast.Name) and s.value.func.id in ("list", "set", "tuple", "sorted") and len(s.value.args) == 1 and not s.value.keywords \
                and isinstance(s.value.args[0], ast.Call) and self._target(s.value.args[0], cls) is not None and self._target(s.value.args[0], cls)[1].is_gen:
            tg = s.targets[0] if isinstance(s, ast.Assign) and len(s.targets) == 1 else getattr(s, "target", None)
            if isinstance(tg, ast.Name) and s.value.func.id in ("list", "set"):
                coll = (tg.id, "append" if s.value.func.id == "list" else "add", s.value.args[0], s.value.func.id)
        if isinstance(s, ast.Expr) and isinstance(s.value, ast.Call) and isinstance(s.value.func, ast.Attribute) and s.value.func.attr in ("extend", "update") and isinstance(s.value.func.value, ast.Name) \
                and len(s.value.args) == 1 and isinstance(s.value.args[0], ast.Call) and self._target(s.value.args[0], cls) is not None and self._target(s.value.args[0], cls)[1].is_gen:
            coll = (s.value.func.value.id, "append" if s.value.func.attr == "extend" else "add", s.value.args[0], None)
        if isinstance(s, ast.Return) and isinstance(s.value, ast.Call) and isinstance(s.value.func, ast.Name) and s.value.func.id in ("list", "set") and len(s.value.args) == 1 and not s.value.keywords \
                and isinstance(s.value.args[0], ast.Call) and self._target(s.value.args[0], cls) is not None and self._target(s.value.args[0], cls)[1].is_gen:
            coll = ("_sv_ret", "append" if s.value.func.id == "list" else "add", s.value.args[0], s.value.func.id)
        if coll is not None:
            cname, meth, gcall, ctor = coll

            def on_yield2(e, at):
                x = ast.Expr(value=ast.Call(func=ast.Attribute(value=ast.Name(id=cname, ctx=ast.Load()), attr=meth, ctx=ast.Load()), args=[e], keywords=[]))
                ast.copy_location(x, at)
                return [x]

            def on_yield_from2(e, at):
                x = ast.Expr(value=ast.Call(func=ast.Attribute(value=ast.Name(id=cname, ctx=ast.Load()), attr="extend" if meth == "append" else "update", ctx=ast.Load()), args=[e], keywords=[]))
                ast.copy_location(x, at)
                return [x]

            rep = self._expand_gen(gcall, cls, caller_q, on_yield2, on_yield_from2)
            if rep is not None:
                if ctor is not None:
                    init = ast.Assign(targets=[ast.Name(id=cname, ctx=ast.Store())], value=ast.List(elts=[], ctx=ast.Load()) if ctor == "list" else ast.Call(func=ast.Name(id="set", ctx=ast.Load()), args=[], keywords=[]), type_comment=None)
                    ast.copy_location(init, s)
                    ast.fix_missing_locations(init)
                    rep = [init] + rep
                if isinstance(s, ast.Return):
                    r_ = ast.Return(value=ast.Name(id="_sv_ret", ctx=ast.Load()))
                    ast.copy_location(r_, s)
                    ast.fix_missing_locations(r_)
                    rep = rep + [r_]
                return rep
        if isinstance(s, ast.Expr) and isinstance(s.value, ast.Call):
            return self._expand_call(s.value, cls, caller_q, discard)
        if isinstance(s, ast.Expr) and isinstance(s.value, ast.YieldFrom) and isinstance(s.value.value, ast.Call):
            return self._expand_call(s.value.value, cls, caller_q, discard, allow_gen=True)
        if isinstance(s, ast.Assign) and isinstance(s.value, ast.Call):
            return self._expand_call(s.value, cls, caller_q, assign_to(s.targets))
        if isinstance(s, ast.AnnAssign) and s.value is not None and isinstance(s.value, ast.Call) and isinstance(s.target, ast.Name):
            return self._expand_call(s.value, cls, caller_q, assign_to([s.target]))
        if isinstance(s, ast.Return) and isinstance(s.value, ast.Call):
            # a tail call: the helper's own returns are the caller's returns
            t = self._target(s.value, cls)
            if t is None:
                return None
            q, inf, is_m = t
            if not self._inlinable(q, inf, caller_q) or inf.is_gen:
                return None
            try:
                mapping, pre = _bind(s.value, inf, is_m)
            except _CannotInline:
                return None
            mapping = self._local_renames(inf, mapping, pre)
            body = [copy.deepcopy(x) for x in inf.node.body]
            if body and isinstance(body[0], ast.Expr) and isinstance(body[0].value, ast.Constant) and isinstance(body[0].value.value, str):
                body = body[1:]
            ren = _Renamer(mapping)
            pre = [ast.Assign(targets=[ren.visit(copy.deepcopy(tg)) for tg in x.targets], value=x.value, type_comment=None) for x in pre]
            for x_ in pre:
                ast.copy_location(x_, s)
            body = [ren.visit(x) for x in body]
            if not _always_returns(body):
                r = ast.Return(value=ast.Constant(value=None))
                ast.copy_location(r, s)
                body.append(r)
            self.done.append(f"{q} -> {caller_q}")
            out = pre + body
            for x in out:
                ast.fix_missing_locations(x)
            return out
        if isinstance(s, ast.Raise) and isinstance(s.exc, ast.Call) and self._target(s.exc, cls) is not None:
            tmp = ast.Name(id="_sv_exc", ctx=ast.Store())
            rep = self._expand_call(s.exc, cls, caller_q, assign_to([tmp]))
            if rep is None:
                return None
            s2 = copy.copy(s)
            s2.exc = ast.copy_location(ast.Name(id="_sv_exc", ctx=ast.Load()), s.exc)
            ast.fix_missing_locations(s2)
            return rep + [s2]
        if isinstance(s, ast.AugAssign) and isinstance(s.value, ast.Call):
            tmp = ast.Name(id="_sv_tmp", ctx=ast.Store())
            rep = self._expand_call(s.value, cls, caller_q, assign_to([tmp]))
            if rep is None:
                return None
            s2 = copy.copy(s)
            s2.value = ast.Name(id="_sv_tmp", ctx=ast.Load())
            ast.fix_missing_locations(s2)
            return rep + [s2]
        # a helper call used as the whole test of an if / while-less statement: hoist it
        if isinstance(s, ast.If):
            test = s.test
            neg = False
            if isinstance(test, ast.UnaryOp) and isinstance(test.op, ast.Not):
                test, neg = test.operand, True
            if isinstance(test, ast.Call) and self._target(test, cls) is not None:
                tmp = ast.Name(id="_sv_cond", ctx=ast.Store())
                rep = self._expand_call(test, cls, caller_q, assign_to([tmp]))
                if rep is None:
                    return None
                s2 = copy.copy(s)
                nm = ast.Name(id="_sv_cond", ctx=ast.Load())
                s2.test = ast.UnaryOp(op=ast.Not(), operand=nm) if neg else nm
                ast.copy_location(s2.test, s.test)
                ast.fix_missing_locations(s2)
                return rep + [s2]
        # a helper call as one operand of the and/or chain tested by an if:
        #     if A and helper(x) and B: BODY            _sv_cond = False
        #                                        ->     if A:
        #                                                   <_sv_cond = helper(x), inlined>
        #                                                   if _sv_cond:
        #                                                       if not B: _sv_cond = False
        #                                               if _sv_cond: BODY
        if isinstance(s, ast.If) and isinstance(s.test, ast.BoolOp):
            vals = s.test.values
            is_and = isinstance(s.test.op, ast.And)
            pos = None
            for i, v in enumerate(vals):
                inner, neg = v, False
                if isinstance(inner, ast.UnaryOp) and isinstance(inner.op, ast.Not):
                    inner, neg = inner.operand, True
                if isinstance(inner, ast.Call) and self._target(inner, cls) is not None:
                    pos = (i, inner, neg)
                    break
            if pos is not None:
                i, call, neg = pos
                tmpname = "_sv_cond"
                st = lambda: ast.Name(id=tmpname, ctx=ast.Store())  # noqa: E731
                ld = lambda: ast.Name(id=tmpname, ctx=ast.Load())  # noqa: E731
                if neg:
                    # `not helper(x)`: the helper's verdict goes into its own flag and the chain flag is set from it by
                    # constant assignments under a test (flags defined by constants are what the path analyses follow;
                    # `flag = not flag` is not)
                    hname = "_sv_pred"
                    rep = self._expand_call(call, cls, caller_q, assign_to([ast.Name(id=hname, ctx=ast.Store())]))
                    if rep is None:
                        return None
                    rep = rep + [ast.If(test=ast.Name(id=hname, ctx=ast.Load()),
                                        body=[ast.Assign(targets=[st()], value=ast.Constant(value=False), type_comment=None)],
                                        orelse=[ast.Assign(targets=[st()], value=ast.Constant(value=True), type_comment=None)])]
                else:
                    rep = self._expand_call(call, cls, caller_q, assign_to([st()]))
                    if rep is None:
                        return None

                def chain(parts):
                    if len(parts) == 1:
                        return parts[0]
                    return ast.BoolOp(op=ast.And() if is_and else ast.Or(), values=list(parts))

                def neg_(e):
                    return ast.UnaryOp(op=ast.Not(), operand=e)

                inner_stmts: List[ast.stmt] = list(rep)
                after = vals[i + 1:]
                if after:
                    rest = chain(after)
                    if is_and:
                        # if _sv_cond: if not rest: _sv_cond = False
                        fix = ast.If(test=neg_(rest), body=[ast.Assign(targets=[st()], value=ast.Constant(value=False), type_comment=None)], orelse=[])
                        inner_stmts.append(ast.If(test=ld(), body=[fix], orelse=[]))
                    else:
                        fix = ast.If(test=rest, body=[ast.Assign(targets=[st()], value=ast.Constant(value=True), type_comment=None)], orelse=[])
                        inner_stmts.append(ast.If(test=neg_(ld()), body=[fix], orelse=[]))
                before = vals[:i]
                out: List[ast.stmt] = []
                if before:
                    out.append(ast.Assign(targets=[st()], value=ast.Constant(value=not is_and), type_comment=None))
                    pre_t = chain(before)
                    out.append(ast.If(test=pre_t if is_and else neg_(pre_t), body=inner_stmts, orelse=[]))
                else:
                    out += inner_stmts
                s2 = copy.copy(s)
                s2.test = ld()
                out.append(s2)
                for x in out:
                    ast.copy_location(x, s)
                    ast.fix_missing_locations(x)
                return out
        # a helper call as the iterable of a for loop / inside yield from: left alone
        return None

    # -- partial(helper, ...) / lambda: helper(...)  ->  nested def calling the helper ------------
    def _is_partial(self, c: ast.AST) -> bool:
        return isinstance(c, ast.Call) and ((isinstance(c.func, ast.Name) and c.func.id == "partial") or (isinstance(c.func, ast.Attribute) and c.func.attr == "partial" and isinstance(c.func.value, ast.Name) and c.func.value.id == "functools"))

    def _closure_for_partial(self, c: ast.Call, cls, name: str) -> Optional[ast.FunctionDef]:
        if not c.args or any(isinstance(a, ast.Starred) for a in c.args) or any(k.arg is None for k in c.keywords):
            return None
        probe = ast.Call(func=c.args[0], args=[], keywords=[])
        t = self._target(probe, cls)
        if t is None:
            return None
        _q, inf, is_m = t
        a = inf.node.args
        if a.vararg or a.kwarg or a.posonlyargs:
            return None
        pos = list(a.args)
        defaults = [None] * (len(pos) - len(a.defaults)) + list(a.defaults)
        if is_m or (inf.cls is not None and pos and pos[0].arg in ("self", "cls")):
            pos, defaults = pos[1:], defaults[1:]
        nb = len(c.args) - 1
        if nb > len(pos):
            return None
        kwbound = {k.arg for k in c.keywords}
        rest = [(p, d) for p, d in zip(pos[nb:], defaults[nb:]) if p.arg not in kwbound]
        kwo = [(p, d) for p, d in zip(a.kwonlyargs, a.kw_defaults) if p.arg not in kwbound]
        call = ast.Call(
            func=copy.deepcopy(c.args[0]),
            args=[copy.deepcopy(x) for x in c.args[1:]] + [ast.Name(id=p.arg, ctx=ast.Load()) for p, _d in rest],
            keywords=[copy.deepcopy(k) for k in c.keywords] + [ast.keyword(arg=p.arg, value=ast.Name(id=p.arg, ctx=ast.Load())) for p, _d in kwo],
        )
        nd = [d for _p, d in rest if d is not None]
        fd = ast.FunctionDef(
            name=name,
            args=ast.arguments(posonlyargs=[], args=[ast.arg(arg=p.arg) for p, _d in rest], vararg=None, kwonlyargs=[ast.arg(arg=p.arg) for p, _d in kwo],
                               kw_defaults=[copy.deepcopy(d) if d is not None else None for _p, d in kwo], kwarg=None, defaults=[copy.deepcopy(d) for d in nd]),
            body=[ast.Return(value=call)], decorator_list=[], returns=None, type_comment=None, type_params=[])
        ast.copy_location(fd, c)
        ast.fix_missing_locations(fd)
        return fd

    def _unroll_helper_comprehensions(self, fn: ast.AST, cls) -> None:
        """`return [x for x in IT if self._new_pred(x)]`  ->  `_sv_compN = []; for x in IT: if self._new_pred(x): _sv_compN.append(x);
        return _sv_compN` - only for list comprehensions (one generator) that call a *new* multi-statement helper, which cannot
        be expanded inside an expression.  Comprehensions of the reference tree are left as they are."""
        lists = []
        for x in ast.walk(fn):
            for fld in ("body", "orelse", "finalbody"):
                sub = getattr(x, fld, None)
                if isinstance(sub, list) and sub and isinstance(sub[0], ast.stmt):
                    lists.append(sub)
            if isinstance(x, ast.Try):
                lists += [h.body for h in x.handlers]
        self._fuse_single_use_generators(fn, lists)
        for lst in lists:
            i = 0
            while i < len(lst):
                st = lst[i]
                i += 1
                v = getattr(st, "value", None) if isinstance(st, (ast.Assign, ast.AnnAssign, ast.Return)) else None
                sink = None
                if isinstance(st, ast.Expr) and isinstance(st.value, ast.Call) and isinstance(st.value.func, ast.Attribute) and st.value.func.attr in ("extend", "update") \
                        and isinstance(st.value.func.value, (ast.Name, ast.Attribute)) and len(st.value.args) == 1 and not st.value.keywords \
                        and isinstance(st.value.args[0], (ast.ListComp, ast.SetComp, ast.GeneratorExp)):
                    # `acc.extend(x for x in IT if new_pred(x))`: the sink is the collection itself
                    v = st.value.args[0]
                    sink = (st.value.func.value, "append" if st.value.func.attr == "extend" else "add")
                    if not (1 <= len(v.generators) <= 3 and not any(g_.is_async for g_ in v.generators)):
                        continue
                elif not (isinstance(v, (ast.ListComp, ast.SetComp)) and 1 <= len(v.generators) <= 3 and not any(g_.is_async for g_ in v.generators)):
                    continue
                calls = [c for part in [v.elt] + [i_ for g_ in v.generators for i_ in g_.ifs] for c in ast.walk(part) if isinstance(c, ast.Call)]
                hit = False
                for c in calls:
                    t = self._target(c, cls)
                    if t is not None and not t[1].is_gen and self._single_expr(t[1]) is None:
                        hit = True
                # ... or iterates a new generator helper (which can only be expanded at a `for` statement)
                for g_ in v.generators:
                    if isinstance(g_.iter, ast.Call):
                        t = self._target(g_.iter, cls)
                        if t is not None and t[1].is_gen:
                            hit = True
                if not hit:
                    continue
                if sink is not None:
                    app = ast.Expr(value=ast.Call(func=ast.Attribute(value=copy.deepcopy(sink[0]), attr=sink[1], ctx=ast.Load()), args=[v.elt], keywords=[]))
                    body = [app]
                    for g_ in reversed(v.generators):
                        for cond in reversed(g_.ifs):
                            body = [ast.If(test=cond, body=body, orelse=[])]
                        body = [ast.For(target=g_.target, iter=g_.iter, body=body, orelse=[], type_comment=None)]
                    ast.copy_location(body[0], st)
                    ast.fix_missing_locations(body[0])
                    lst[i - 1] = body[0]
                    self.done.append("extend(comprehension with helper) -> loop")
                    continue
                self._comp_tmp = getattr(self, "_comp_tmp", 0) + 1
                tmp = f"_sv_comp{self._comp_tmp}"
                is_set = isinstance(v, ast.SetComp)
                init = ast.Assign(targets=[ast.Name(id=tmp, ctx=ast.Store())], value=ast.Call(func=ast.Name(id="set", ctx=ast.Load()), args=[], keywords=[]) if is_set else ast.List(elts=[], ctx=ast.Load()), type_comment=None)
                app = ast.Expr(value=ast.Call(func=ast.Attribute(value=ast.Name(id=tmp, ctx=ast.Load()), attr="add" if is_set else "append", ctx=ast.Load()), args=[v.elt], keywords=[]))
                body: List[ast.stmt] = [app]
                for g_ in reversed(v.generators):
                    for cond in reversed(g_.ifs):
                        body = [ast.If(test=cond, body=body, orelse=[])]
                    body = [ast.For(target=g_.target, iter=g_.iter, body=body, orelse=[], type_comment=None)]
                loop = body[0]
                st.value = ast.Name(id=tmp, ctx=ast.Load())
                for x in (init, loop):
                    ast.copy_location(x, st)
                    ast.fix_missing_locations(x)
                ast.fix_missing_locations(st)
                lst[i - 1:i - 1] = [init, loop]
                i += 2

    def _fuse_single_use_generators(self, fn: ast.AST, lists) -> None:
        """`it = (x for x in IT if c1); acc.extend(y for y in it if c2(y))` -> `acc.extend(y for y in IT if c1[y/x] if c2(y))`:
        a local bound once to a generator expression whose element is its own variable, read once as the iterable of a
        comprehension in the very next statement, is a filter stage of that comprehension."""
        self._unfilter_for_loops(fn)
        loads: Dict[str, int] = {}
        stores: Dict[str, int] = {}
        for x in ast.walk(fn):
            if isinstance(x, ast.Name):
                d = loads if isinstance(x.ctx, ast.Load) else stores
                d[x.id] = d.get(x.id, 0) + 1
        self._fuse_tail(fn, lists, loads, stores)

    def _unfilter_for_loops(self, fn: ast.AST) -> None:
        # `for x in (y for y in IT if c): body`  ->  `for x in IT: if c[x/y]: body`
        for f in ast.walk(fn):
            if isinstance(f, ast.For) and isinstance(f.iter, ast.GeneratorExp) and len(f.iter.generators) == 1 and not f.iter.generators[0].is_async and not f.orelse \
                    and isinstance(f.target, ast.Name) and isinstance(f.iter.elt, ast.Name) and isinstance(f.iter.generators[0].target, ast.Name) \
                    and f.iter.elt.id == f.iter.generators[0].target.id and f.iter.generators[0].ifs:
                g0 = f.iter.generators[0]
                conds = [copy.deepcopy(c) for c in g0.ifs]
                if g0.target.id != f.target.id:
                    ren = _Renamer({g0.target.id: ast.Name(id=f.target.id, ctx=ast.Load())})
                    conds = [ren.visit(c) for c in conds]
                test = conds[0] if len(conds) == 1 else ast.BoolOp(op=ast.And(), values=conds)
                inner = ast.If(test=test, body=f.body, orelse=[])
                ast.copy_location(inner, f)
                f.iter = g0.iter
                f.body = [inner]
                ast.fix_missing_locations(f)
                self.done.append("for over a filtering generator expression -> loop with a guard")

    def _fuse_tail(self, fn: ast.AST, lists, loads, stores) -> None:
        for lst in lists:
            i = 0
            while i + 1 < len(lst):
                st, nxt = lst[i], lst[i + 1]
                i += 1
                if not (isinstance(st, ast.Assign) and len(st.targets) == 1 and isinstance(st.targets[0], ast.Name) and isinstance(st.value, ast.GeneratorExp)):
                    continue
                nm = st.targets[0].id
                ge = st.value
                if loads.get(nm, 0) != 1 or stores.get(nm, 0) != 1 or len(ge.generators) != 1 or ge.generators[0].is_async:
                    continue
                g0 = ge.generators[0]
                if not (isinstance(g0.target, ast.Name) and isinstance(ge.elt, ast.Name) and ge.elt.id == g0.target.id):
                    continue
                user = None
                for c in ast.walk(nxt):
                    if isinstance(c, ast.comprehension) and isinstance(c.iter, ast.Name) and c.iter.id == nm and isinstance(c.target, ast.Name) and not c.is_async:
                        user = c
                if user is None:
                    continue
                ren = _Renamer({g0.target.id: ast.Name(id=user.target.id, ctx=ast.Load())}) if g0.target.id != user.target.id else None
                conds = [copy.deepcopy(c) for c in g0.ifs]
                if ren is not None:
                    conds = [ren.visit(c) for c in conds]
                user.iter = g0.iter
                user.ifs = conds + user.ifs
                ast.fix_missing_locations(nxt)
                lst.pop(i - 1)
                i -= 1
                self.done.append(f"single-use generator {nm} fused into its consumer")

    def _name_fresh_receivers(self, fn: ast.AST) -> None:
        """`return _Worker(a, b).run(c)`  ->  `_sv_objN = _Worker(a, b); return _sv_objN.run(c)` for new private classes:
        the instance gets a name, so that its methods can be expanded and its fields scalarised like any local's."""
        if not self.new_classes:
            return
        lists = []
        for x in ast.walk(fn):
            for fld in ("body", "orelse", "finalbody"):
                sub = getattr(x, fld, None)
                if isinstance(sub, list) and sub and isinstance(sub[0], ast.stmt):
                    lists.append(sub)
            if isinstance(x, ast.Try):
                lists += [h.body for h in x.handlers]
        for lst in lists:
            i = 0
            while i < len(lst):
                st = lst[i]
                i += 1
                root = getattr(st, "value", None) if isinstance(st, (ast.Assign, ast.AnnAssign, ast.Return, ast.Expr)) else None
                if root is None:
                    continue
                # only the outermost call of the statement's value: evaluation order is unchanged
                c = root
                if not (isinstance(c, ast.Call) and isinstance(c.func, ast.Attribute) and isinstance(c.func.value, ast.Call)
                        and isinstance(c.func.value.func, ast.Name) and c.func.value.func.id in self.new_classes):
                    continue
                self._obj_tmp = getattr(self, "_obj_tmp", 0) + 1
                tmp = f"_sv_obj{self._obj_tmp}"
                a = ast.Assign(targets=[ast.Name(id=tmp, ctx=ast.Store())], value=c.func.value, type_comment=None)
                ast.copy_location(a, st)
                c.func.value = ast.copy_location(ast.Name(id=tmp, ctx=ast.Load()), c.func.value)
                ast.fix_missing_locations(a)
                ast.fix_missing_locations(st)
                lst.insert(i - 1, a)
                i += 1

    def _type_names(self, fn: ast.AST) -> None:
        """names in fn known to hold an instance of a new private class (constructed here or annotated parameter)."""
        self._typed: Dict[str, str] = {}
        classes = self.new_classes | set(self.bases)
        if not classes:
            return
        for a in ast.walk(fn):
            if isinstance(a, ast.arg) and a.annotation is not None:
                t = ast.unparse(a.annotation).strip("'\"")
                if t in classes:
                    self._typed[a.arg] = t
            if isinstance(a, (ast.Assign, ast.AnnAssign)):
                tg = a.targets[0] if isinstance(a, ast.Assign) and len(a.targets) == 1 else getattr(a, "target", None)
                v = a.value
                if isinstance(tg, ast.Name) and isinstance(v, ast.Call):
                    c = v.func
                    if isinstance(c, ast.Name) and c.id in classes:
                        self._typed[tg.id] = c.id
                    elif isinstance(c, ast.Attribute) and isinstance(c.value, ast.Name) and c.value.id in self.new_classes:
                        self._typed[tg.id] = c.value.id
        for _ in range(3):
            for a in ast.walk(fn):
                if isinstance(a, ast.Assign) and len(a.targets) == 1 and isinstance(a.targets[0], ast.Name) and isinstance(a.value, ast.Name) and a.value.id in self._typed:
                    self._typed.setdefault(a.targets[0].id, self._typed[a.value.id])

    def _closure_convert(self, stmts: List[ast.stmt], cls) -> List[ast.stmt]:
        outer = self
        out: List[ast.stmt] = []
        for s in stmts:
            if isinstance(s, (ast.FunctionDef, ast.AsyncFunctionDef, ast.ClassDef)):
                out.append(s)
                continue
            for fld in ("body", "orelse", "finalbody"):
                sub = getattr(s, fld, None)
                if isinstance(sub, list) and sub and isinstance(sub[0], ast.stmt):
                    setattr(s, fld, self._closure_convert(sub, cls))
            if isinstance(s, ast.Try):
                for h in s.handlers:
                    h.body = self._closure_convert(h.body, cls)
            new_defs: List[ast.FunctionDef] = []

            class T(ast.NodeTransformer):
                def generic_visit(self, node):
                    for field, old in ast.iter_fields(node):
                        if isinstance(old, list):
                            if old and isinstance(old[0], ast.stmt):
                                continue
                            old[:] = [self.visit(v) if isinstance(v, ast.AST) else v for v in old]
                        elif isinstance(old, ast.AST):
                            setattr(node, field, self.visit(old))
                    return node

                def visit_Attribute(self, a):
                    # a bound method of a new private class used as a value:  on_error=recorder.record
                    self.generic_visit(a)
                    qs = outer.new_methods.get(a.attr) if isinstance(a.ctx, ast.Load) and isinstance(a.value, ast.Name) else None
                    if qs and outer._typed.get(a.value.id) != qs[0].split(".")[0]:
                        qs = None
                    if qs and id(a) not in self._call_funcs:
                        fake = ast.Call(func=ast.Name(id="partial", ctx=ast.Load()), args=[a], keywords=[])
                        outer._n_closures += 1
                        fd = outer._closure_for_partial(fake, cls, f"_sv_bound{outer._n_closures}")
                        if fd is not None:
                            new_defs.append(fd)
                            return ast.copy_location(ast.Name(id=fd.name, ctx=ast.Load()), a)
                    return a

                _call_funcs: set = set()

                def visit_Call(self, c):
                    self._call_funcs.add(id(c.func))
                    self.generic_visit(c)
                    if outer._is_partial(c):
                        outer._n_closures += 1
                        fd = outer._closure_for_partial(c, cls, f"_sv_partial{outer._n_closures}")
                        if fd is not None:
                            new_defs.append(fd)
                            return ast.copy_location(ast.Name(id=fd.name, ctx=ast.Load()), c)
                    return c

                def visit_Lambda(self, lam):
                    has_helper = any(isinstance(x, ast.Call) and outer._target(x, cls) is not None for x in ast.walk(lam.body))
                    if not has_helper:
                        return lam
                    outer._n_closures += 1
                    fd = ast.FunctionDef(name=f"_sv_lambda{outer._n_closures}", args=copy.deepcopy(lam.args), body=[ast.Return(value=lam.body)], decorator_list=[], returns=None, type_comment=None, type_params=[])
                    ast.copy_location(fd, lam)
                    ast.fix_missing_locations(fd)
                    new_defs.append(fd)
                    return ast.copy_location(ast.Name(id=fd.name, ctx=ast.Load()), lam)

            # name = functools.cache(helper)  ->  @functools.cache def name(params): return helper(params)
            if isinstance(s, ast.Assign) and len(s.targets) == 1 and isinstance(s.targets[0], ast.Name) and isinstance(s.value, ast.Call) and len(s.value.args) == 1 and not s.value.keywords:
                deco = s.value.func
                dn = deco.attr if isinstance(deco, ast.Attribute) else (deco.id if isinstance(deco, ast.Name) else None)
                if dn in ("cache", "lru_cache", "wraps"):
                    fake = ast.Call(func=ast.Name(id="partial", ctx=ast.Load()), args=[s.value.args[0]], keywords=[])
                    fd = self._closure_for_partial(fake, cls, s.targets[0].id)
                    if fd is not None:
                        fd.decorator_list = [copy.deepcopy(deco)]
                        ast.copy_location(fd, s)
                        ast.fix_missing_locations(fd)
                        self.done.append(f"{dn}(helper) -> decorated def {fd.name}")
                        out.append(fd)
                        continue
            T().generic_visit(s)
            # x = [elt for t in it if helper(t)]  with a multi-statement helper  ->  explicit loop
            if isinstance(s, (ast.Assign, ast.AnnAssign)) and isinstance(s.value, (ast.ListComp, ast.SetComp)) and len(s.value.generators) == 1 and not s.value.generators[0].is_async:
                tg = s.targets[0] if isinstance(s, ast.Assign) and len(s.targets) == 1 else getattr(s, "target", None)
                comp = s.value
                gen = comp.generators[0]
                needs = any(isinstance(x, ast.Call) and (t := self._target(x, cls)) is not None and self._single_expr(t[1]) is None
                            for part in [comp.elt] + list(gen.ifs) for x in ast.walk(part))
                if needs and isinstance(tg, ast.Name):
                    is_list = isinstance(comp, ast.ListComp)
                    init = ast.Assign(targets=[ast.Name(id=tg.id, ctx=ast.Store())], value=ast.List(elts=[], ctx=ast.Load()) if is_list else ast.Call(func=ast.Name(id="set", ctx=ast.Load()), args=[], keywords=[]), type_comment=None)
                    add = ast.Expr(value=ast.Call(func=ast.Attribute(value=ast.Name(id=tg.id, ctx=ast.Load()), attr="append" if is_list else "add", ctx=ast.Load()), args=[comp.elt], keywords=[]))
                    body: List[ast.stmt] = [add]
                    for cond in reversed(gen.ifs):
                        body = [ast.If(test=cond, body=body, orelse=[])]
                    loop = ast.For(target=gen.target, iter=gen.iter, body=body, orelse=[], type_comment=None)
                    for x in (init, loop):
                        ast.copy_location(x, s)
                        ast.fix_missing_locations(x)
                    self.done.append(f"comprehension with helper filter -> loop ({tg.id})")
                    out += new_defs + [init, loop]
                    continue
            # `name = partial(...)` becomes `def name(...)`
            if len(new_defs) == 1 and isinstance(s, ast.Assign) and len(s.targets) == 1 and isinstance(s.targets[0], ast.Name) and isinstance(s.value, ast.Name) and s.value.id == new_defs[0].name:
                new_defs[0].name = s.targets[0].id
                out.append(new_defs[0])
                self.done.append(f"partial/lambda -> def {new_defs[0].name}")
                continue
            for fd in new_defs:
                self.done.append(f"partial/lambda -> def {fd.name}")
            out += new_defs + [s]
        return out

    def run(self, max_rounds: int = 3) -> List[str]:
        if not self.unknown and self.baseline is None:
            return []
        self._n_closures = 0
        self._nested_done: Dict[str, _Info] = {}
        for q, inf in list(self.funcs.items()):
            self._name_fresh_receivers(inf.node)
            self._type_names(inf.node)
            self._unroll_helper_comprehensions(inf.node, inf.cls)
            inf.node.body = self._closure_convert(inf.node.body, inf.cls)
        for _ in range(max_rounds):
            before = len(self.done)
            for q, inf in list(self.funcs.items()):
                self._caller_names = {x.id for x in ast.walk(inf.node) if isinstance(x, ast.Name)} | {a.arg for a in ast.walk(inf.node) if isinstance(a, ast.arg)}
                self._type_names(inf.node)
                # closures that are not in the baseline inventory (newly introduced nested helpers) are
                # inlinable inside their enclosing function, provided they are only ever called
                added = []
                if self.baseline is not None:
                    call_funcs = {id(c.func) for c in ast.walk(inf.node) if isinstance(c, ast.Call)} | _table_value_ids(inf.node)
                    value_uses = {x.id for x in ast.walk(inf.node) if isinstance(x, ast.Name) and isinstance(x.ctx, ast.Load) and id(x) not in call_funcs}
                    for x in _walk_own(inf.node):
                        if isinstance(x, ast.FunctionDef) and f"{q}.<locals>.{x.name}" not in self.baseline and x.name not in self.unknown and x.name not in value_uses and not x.decorator_list:
                            self.unknown[x.name] = _Info(x, None)
                            added.append(x.name)
                    if added:
                        self._unroll_helper_comprehensions(inf.node, inf.cls)
                inf.node.body = [self._subst_expr_helpers(st, inf.cls, q) for st in inf.node.body]
                inf.node.body = self._rewrite_body(inf.node.body, inf.cls, q)
                # nested closures of this function
                for x in _walk_own(inf.node):
                    if isinstance(x, ast.FunctionDef):
                        x.body = self._rewrite_body(x.body, inf.cls, q + ".<locals>." + x.name)
                for nm in added:
                    self._nested_done.setdefault(nm, self.unknown.pop(nm))
            if len(self.done) == before:
                break
        for q, inf in list(self.funcs.items()):
            self._unfilter_for_loops(inf.node)
        self._drop_dead_helpers()
        return self.done

    def _drop_dead_helpers(self) -> None:
        """A helper whose every use was inlined is dead code: remove its definition so that the call
        graph does not see a caller-less copy of the moved statements."""
        inlined = {d.split(" -> ")[0].replace(" (generator)", "") for d in self.done}
        for q in inlined:
            inf = self.unknown.get(q) or getattr(self, "_nested_done", {}).get(q)
            if inf is None:
                continue
            name = inf.node.name
            if name in getattr(self, "keep", ()):
                continue  # imported by another module
            still_used = False
            for x in ast.walk(self.tree):
                if x is inf.node:
                    continue
                if isinstance(x, ast.Name) and x.id == name and isinstance(x.ctx, ast.Load):
                    still_used = True
                if isinstance(x, ast.Attribute) and x.attr == name:
                    still_used = True
            # references inside the helper's own body do not count
            own = {id(y) for y in ast.walk(inf.node)}
            if still_used:
                still_used = any(
                    ((isinstance(x, ast.Name) and x.id == name and isinstance(x.ctx, ast.Load)) or (isinstance(x, ast.Attribute) and x.attr == name)) and id(x) not in own
                    for x in ast.walk(self.tree))
            if still_used:
                continue
            for parent_ in ast.walk(self.tree):
                body = getattr(parent_, "body", None)
                if isinstance(body, list) and inf.node in body:
                    body.remove(inf.node)
                    if not body:
                        body.append(ast.Pass())


def inline_unknown_helpers(tree: ast.Module, modname: str, baseline_all, keep=()) -> Tuple[List[str], Dict[str, str]]:
    if not baseline_all:
        return [], {}
    base = baseline_all.get(modname)
    if base is None:
        return [], {}  # a new module: nothing is anchored in it
    inl = Inliner(tree, modname, base)
    inl.keep = set(keep)
    return inl.run(), inl.renamed


def clean_copy(node):
    """Copy of an AST without the analyser's annotations (_parent pointers, cached CFGs/scopes)."""
    if isinstance(node, list):
        return [clean_copy(x) for x in node]
    if not isinstance(node, ast.AST):
        return node
    new = type(node)()
    for f in node._fields:
        if hasattr(node, f):
            setattr(new, f, clean_copy(getattr(node, f)))
    for a in ("lineno", "col_offset", "end_lineno", "end_col_offset"):
        if hasattr(node, a):
            setattr(new, a, getattr(node, a))
    return new


def inline_closures(fn_node: ast.FunctionDef) -> Tuple[ast.FunctionDef, List[str]]:
    """A copy of fn_node in which nested closures that are only ever *called* (never passed around as
    values) are inlined at their call sites.  Gives rules one canonical shape whether a step is written
    in place, as a closure, or (after inline_unknown_helpers) as an extracted module-level helper."""
    node = clean_copy(fn_node)
    tree = ast.Module(body=[node], type_ignores=[])
    inl = Inliner(tree, "<view>", None)
    kids = {x.name: x for x in _walk_own(node) if isinstance(x, ast.FunctionDef)}
    call_funcs = {id(c.func) for c in ast.walk(node) if isinstance(c, ast.Call)} | _table_value_ids(node)
    value_uses = {x.id for x in ast.walk(node) if isinstance(x, ast.Name) and isinstance(x.ctx, ast.Load) and id(x) not in call_funcs}
    for name, k in kids.items():
        if name not in value_uses:
            inl.unknown[name] = _Info(k, None)
    inl.funcs = {node.name: _Info(node, None)}
    done = inl.run()
    ast.fix_missing_locations(node)
    return node, done
